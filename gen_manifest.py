#!/usr/bin/env python3
"""Writes MANIFEST.json from driver/config.py and the per-property texts below.
Run after adding a property to driver/config.py."""
import json, os, sys
ROOT = os.path.dirname(os.path.abspath(__file__))
sys.path.insert(0, os.path.join(ROOT, "driver"))
from config import PROPS
from manifest_text import TEXT, NOT_APPLICABLE

ids = [json.loads(l)["id"] for l in open(os.path.join(ROOT, "properties.jsonl"))]
checks = []
for pid in ids:
    if pid not in PROPS or pid not in TEXT:
        continue
    t = TEXT[pid]
    checks.append({
        "property_id": pid,
        "quick_cmd": "./check %s quick" % pid,
        "thorough_cmd": "./check %s thorough" % pid,
        "evidence_file": "/verif/evidence/%s.json" % pid,
        "replay_cmd_template": "./check --replay {path}",
        "engine": "harness",
        "level_claimed": {"category": PROPS[pid]["level"], "text": t["level_text"], "design_ref": t["design_ref"]},
        "level_note": t["level_note"],
        "technique": t["technique"],
    })
na = [{"property_id": pid, "reason": NOT_APPLICABLE.get(pid, "check not built yet in this session; no claim is made")}
      for pid in ids if pid not in PROPS or pid not in TEXT]
m = {
    "version": 1,
    "setup_cmd": "./check --setup",
    "hooks": {
        "guard": "verif",
        "enable": "go test -tags verif (the harness module replaces github.com/philpearl/avro with /repo, so every check compiles /repo's working tree)",
        "baseline_off_cmd": "cd /repo && go test -vet=off -count=1 ./...",
        "source_commits": [],
        "add_only": True,
    },
    "engines": [{
        "name": "harness",
        "path": "/verif/harness",
        "serves_properties": [c["property_id"] for c in checks],
        "kind_free_text": "Go test module (pgregory.net/rapid v1.3.0 property-based tests, enumerations and native fuzz targets) with an independent reference Avro implementation; driven by driver/verif.py",
    }],
    "checks": checks,
    "notes": "All checks are generated-input search against an explicit oracle (see DESIGN.md). Exit 2 = inconclusive (build failure/timeouts), never reported as a violation.",
    "not_applicable": na,
}
json.dump(m, open(os.path.join(ROOT, "MANIFEST.json"), "w"), indent=1)
print("MANIFEST.json: %d checks, %d not claimed" % (len(checks), len(na)))
