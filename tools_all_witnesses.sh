#!/bin/bash
# replays every fixed witness before/after its fix commit
python3 - <<'PY' | while read w c; do /verif/tools_witness_check.sh /verif/$w $c; done
import json
for e in json.load(open('/verif/known_findings.json'))['fixed']:
    print(e['witness'], e['commit'])
PY
