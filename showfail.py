#!/usr/bin/env python3
import json,sys
f=json.load(open(sys.argv[1]))
print("ENTRY", f['entry'])
print("MSG", f['message'][:int(sys.argv[2]) if len(sys.argv)>2 else 600])
c=f['case']
if isinstance(c,dict):
    for k,v in c.items():
        if k=='type': continue
        s=json.dumps(v)
        print(k,":",s[:1200])
else:
    print(json.dumps(c)[:1500])
