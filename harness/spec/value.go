package spec

import (
	"fmt"
	"math"
	"reflect"
	"time"
)

// ValueSpec is a Go value as data, interpreted against a TypeSpec.
type ValueSpec struct {
	Nil    bool        `json:"nil,omitempty"`   // ptr, slice, map, bytes: the nil value
	B      bool        `json:"b,omitempty"`     // bool, nullBool payload
	I      int64       `json:"i,omitempty"`     // integers, nullInt payload
	F      uint64      `json:"f,omitempty"`     // float bits (float32 bits for float32), nullFloat payload (float64 bits)
	S      []byte      `json:"s,omitempty"`     // string, bytes, barray, nullString payload
	TZero  bool        `json:"tzero,omitempty"` // time: the zero time.Time{}
	TSec   int64       `json:"tsec,omitempty"`  // time: unix seconds
	TNsec  int64       `json:"tnsec,omitempty"` // time: nanoseconds
	TOff   int         `json:"toff,omitempty"`  // time: zone offset, seconds east of UTC
	Valid  bool        `json:"valid,omitempty"` // null.* wrappers
	Fields []ValueSpec `json:"fields,omitempty"`
	Elems  []ValueSpec `json:"elems,omitempty"` // slice elements / map values
	Keys   [][]byte    `json:"keys,omitempty"`  // map keys (bytes: Go strings need not be UTF-8)
	P      *ValueSpec  `json:"p,omitempty"`     // pointee
	// Rep > len(Elems): the slice holds Rep items, Elems repeated in turn (tens of
	// thousands of items without tens of thousands of draws).
	Rep int `json:"rep,omitempty"`
}

func (v ValueSpec) Time() time.Time {
	if v.TZero {
		return time.Time{}
	}
	t := time.Unix(v.TSec, v.TNsec)
	if v.TOff == 0 {
		return t.UTC()
	}
	return t.In(time.FixedZone("", v.TOff))
}

// Materialise stores the value described by v into dst (settable, of type Build(t)).
func Materialise(t TypeSpec, v ValueSpec, dst reflect.Value) {
	switch t.K {
	case "bool":
		dst.SetBool(v.B)
	case "int", "int8", "int16", "int32", "int64":
		dst.SetInt(v.I)
	case "uint", "uint8", "uint16", "uint32", "uint64", "uintptr":
		dst.SetUint(uint64(v.I))
	case "float32":
		dst.SetFloat(float64(math.Float32frombits(uint32(v.F))))
		// SetFloat goes through a float64: signalling NaN payloads are quieted,
		// which is also what assigning through Go code would do.
	case "float64":
		dst.SetFloat(math.Float64frombits(v.F))
	case "string":
		dst.SetString(string(v.S))
	case "bytes":
		if v.Nil {
			dst.Set(reflect.Zero(dst.Type()))
		} else {
			dst.SetBytes(append([]byte{}, v.S...))
		}
	case "barray":
		for i := 0; i < t.N && i < len(v.S); i++ {
			dst.Index(i).SetUint(uint64(v.S[i]))
		}
	case "time":
		dst.Set(reflect.ValueOf(v.Time()))
	case "nullInt":
		dst.Field(0).Field(0).SetInt(v.I)
		dst.Field(0).Field(1).SetBool(v.Valid)
	case "nullBool":
		dst.Field(0).Field(0).SetBool(v.B)
		dst.Field(0).Field(1).SetBool(v.Valid)
	case "nullFloat":
		dst.Field(0).Field(0).SetFloat(math.Float64frombits(v.F))
		dst.Field(0).Field(1).SetBool(v.Valid)
	case "nullString":
		dst.Field(0).Field(0).SetString(string(v.S))
		dst.Field(0).Field(1).SetBool(v.Valid)
	case "nullTime":
		dst.Field(0).Field(0).Set(reflect.ValueOf(v.Time()))
		dst.Field(0).Field(1).SetBool(v.Valid)
	case "ptr":
		if v.Nil || v.P == nil {
			dst.Set(reflect.Zero(dst.Type()))
			return
		}
		p := reflect.New(dst.Type().Elem())
		Materialise(*t.Elem, *v.P, p.Elem())
		dst.Set(p)
	case "slice":
		if v.Nil {
			dst.Set(reflect.Zero(dst.Type()))
			return
		}
		n := len(v.Elems)
		if v.Rep > n && n > 0 {
			n = v.Rep
		}
		s := reflect.MakeSlice(dst.Type(), n, n)
		for i := 0; i < n; i++ {
			Materialise(*t.Elem, v.Elems[i%len(v.Elems)], s.Index(i))
		}
		dst.Set(s)
	case "map":
		if v.Nil {
			dst.Set(reflect.Zero(dst.Type()))
			return
		}
		m := reflect.MakeMapWithSize(dst.Type(), len(v.Keys))
		for i := range v.Keys {
			e := reflect.New(dst.Type().Elem()).Elem()
			Materialise(*t.Elem, v.Elems[i], e)
			m.SetMapIndex(reflect.ValueOf(string(v.Keys[i])).Convert(dst.Type().Key()), e)
		}
		dst.Set(m)
	case "struct":
		for i, f := range t.Fields {
			if f.Unexported || i >= len(v.Fields) {
				continue
			}
			Materialise(f.T, v.Fields[i], dst.Field(i))
		}
	default:
		if ck, ok := Custom[t.K]; ok {
			ck.Set(dst, v)
			return
		}
		panic(fmt.Sprintf("spec: cannot materialise kind %s", t.K))
	}
}

// New allocates a value of the type and fills it; returns the pointer.
func New(t TypeSpec, v ValueSpec) reflect.Value {
	p := reflect.New(Build(t))
	Materialise(t, v, p.Elem())
	return p
}
