package spec

import (
	"fmt"

	"verifh/ref"
)

// ErrUndocumented marks types whose mapping the documentation does not state
// (Go arrays, int8, non-string map keys ...): the model then only requires
// "an error, or some schema".
type ErrUndocumented struct{ What string }

func (e ErrUndocumented) Error() string { return "mapping not documented for " + e.What }

// ErrUnsupported marks types the documented mapping cannot express: schema
// generation must return an error.
type ErrUnsupported struct{ What string }

func (e ErrUnsupported) Error() string { return "type cannot be expressed: " + e.What }

// RegisteredSchemas is the model's view of the schema registry: the library's
// own registrations (time.Time and null.*), plus whatever a check adds.
func builtinRegistered(k string) (ref.Schema, bool) {
	switch k {
	case "time", "nullString", "nullTime":
		return ref.Nullable(ref.Prim("string")), true
	case "nullInt":
		return ref.Nullable(ref.Prim("long")), true
	case "nullBool":
		return ref.Nullable(ref.Prim("boolean")), true
	case "nullFloat":
		return ref.Nullable(ref.Prim("double")), true
	}
	return ref.Schema{}, false
}

// Naming supplies record names for struct nodes (reflect.StructOf types are
// anonymous: name "" and namespace "").
type Naming func(t TypeSpec) (name, namespace string)

// ModelSchema is the documented Go→Avro mapping: integers to long, floats to
// double, bool to boolean, string, []byte to bytes, slices to array,
// string-keyed maps to map, structs to record, pointers and omitempty to a
// [null, T] union with null first except that pointers to slices and maps stay
// plain arrays and maps, registered types to their registered schema.
func ModelSchema(t TypeSpec, naming Naming) (ref.Schema, error) {
	if s, ok := builtinRegistered(t.K); ok {
		return s, nil
	}
	if ck, ok := Custom[t.K]; ok {
		return ck.Schema, nil
	}
	switch t.K {
	case "bool":
		return ref.Prim("boolean"), nil
	case "int", "int16", "int32", "int64":
		return ref.Prim("long"), nil
	case "float32", "float64":
		return ref.Prim("double"), nil
	case "string":
		return ref.Prim("string"), nil
	case "bytes":
		return ref.Prim("bytes"), nil
	case "slice":
		it, err := ModelSchema(*t.Elem, naming)
		if err != nil {
			return ref.Schema{}, err
		}
		return ref.Schema{Kind: "array", Items: &it}, nil
	case "map":
		it, err := ModelSchema(*t.Elem, naming)
		if err != nil {
			return ref.Schema{}, err
		}
		return ref.Schema{Kind: "map", Values: &it}, nil
	case "ptr":
		u, err := ModelSchema(*t.Elem, naming)
		if err != nil {
			return ref.Schema{}, err
		}
		if u.Kind == "union" || u.Kind == "array" || u.Kind == "map" {
			return u, nil
		}
		return ref.Nullable(u), nil
	case "struct":
		s := ref.Schema{Kind: "record"}
		if naming != nil {
			s.Name, s.Namespace = naming(t)
		}
		for _, f := range t.Fields {
			name := f.AvroName()
			if name == "" {
				continue
			}
			fs, err := ModelSchema(f.T, naming)
			if err != nil {
				return ref.Schema{}, fmt.Errorf("field %s: %w", name, err)
			}
			if f.OmitEmpty() && fs.Kind != "union" {
				fs = ref.Nullable(fs)
			}
			s.Fields = append(s.Fields, ref.Field{Name: name, Type: fs})
		}
		return s, nil
	case "complex64", "complex128", "iface", "chan", "func", "unsafeptr":
		return ref.Schema{}, ErrUnsupported{t.K}
	case "int8", "uint", "uint8", "uint16", "uint32", "uint64", "uintptr":
		// "integers to long" is documented for the signed widths the decoder
		// supports; for the rest either an error or a long is acceptable
		return ref.Schema{}, ErrUndocumented{t.K}
	case "mapk":
		// a map whose key is not a string cannot be an Avro map; the documented
		// mapping speaks of "string-keyed maps" only
		return ref.Schema{}, ErrUndocumented{"map with " + t.Key + " keys"}
	}
	return ref.Schema{}, ErrUndocumented{t.K}
}

// Nullability describes, for a Go type in a field position, whether its schema
// is a union with null and why.
func IsCollectionBehindPtr(t TypeSpec) bool {
	if t.K != "ptr" {
		return false
	}
	b := t.StripPtr()
	return b.K == "slice" || b.K == "map"
}
