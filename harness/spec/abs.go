package spec

import (
	"bytes"
	"fmt"
	"math"
	"reflect"
	"sort"
	"strings"
	"sync/atomic"
	"time"

	"verifh/ref"
)

// AbsVal is the logical datum a Go value denotes, or that a decoded Avro datum
// is, in a common form. At every position whose schema is a union with null,
// Nullable is set and Null says which branch: NullNo (the value), NullYes, or
// NullEither where the property text does not decide (DESIGN.md §4.3).
type AbsVal struct {
	Nullable bool
	Null     int
	K        string // bool long double string bytes time record array map
	B        bool
	I        int64
	F        uint64 // float64 bits
	S        []byte
	TSec     int64
	TNsec    int64
	TOff     int
	// Zone is the name and abbreviation of the time's location, copied; only set by
	// AbsStrict, and only compared when both sides have it.
	Zone   *string
	Names  []string
	Fields []AbsVal
	Items  []AbsVal
	Keys   []string
	Vals   []AbsVal
}

const (
	NullNo = iota
	NullYes
	NullEither
)

func (a AbsVal) String() string {
	pre := ""
	if a.Nullable {
		pre = []string{"some:", "null/", "null|"}[a.Null]
		if a.Null == NullYes {
			return "null"
		}
	}
	switch a.K {
	case "bool":
		return fmt.Sprintf("%s%v", pre, a.B)
	case "long":
		return fmt.Sprintf("%s%d", pre, a.I)
	case "double":
		return fmt.Sprintf("%s%v(%#x)", pre, math.Float64frombits(a.F), a.F)
	case "string", "bytes":
		return fmt.Sprintf("%s%s%q", pre, a.K[:1], a.S)
	case "time":
		return fmt.Sprintf("%stime(%d.%09d %+d)", pre, a.TSec, a.TNsec, a.TOff)
	case "record":
		return fmt.Sprintf("%srecord%v%v", pre, a.Names, a.Fields)
	case "array":
		return fmt.Sprintf("%s%v", pre, a.Items)
	case "map":
		return fmt.Sprintf("%smap%v%v", pre, a.Keys, a.Vals)
	}
	return pre + "?" + a.K
}

func absTime(t time.Time) AbsVal {
	name, off := t.Zone()
	a := AbsVal{K: "time", TSec: t.Unix(), TNsec: int64(t.Nanosecond()), TOff: off}
	if absZones.Load() {
		z := strings.Clone(t.Location().String() + "/" + name)
		a.Zone = &z
	}
	return a
}

var absZones atomic.Bool

// AbsStrict is Abs that also records what else hangs off a value without being
// part of its Avro meaning (the name of a time's location), for checks that
// compare two snapshots of the same object.
func AbsStrict(ts TypeSpec, omit bool, v reflect.Value) AbsVal {
	absZones.Store(true)
	defer absZones.Store(false)
	return Abs(ts, omit, v)
}

// Abs computes the denotation of a Go value of type ts in a position that is a
// struct field with (omit=true) or without the omitempty option, or a
// collection element (omit=false).
func Abs(ts TypeSpec, omit bool, v reflect.Value) AbsVal {
	switch ts.K {
	case "ptr":
		base := ts
		cur := v
		nilAt := -1
		depth := 0
		for base.K == "ptr" {
			if nilAt < 0 {
				if cur.IsNil() {
					nilAt = depth
				} else {
					cur = cur.Elem()
				}
			}
			base = *base.Elem
			depth++
		}
		collKind := map[string]string{"slice": "array", "map": "map"}[base.K]
		if ck, ok := Custom[base.K]; ok && (ck.Schema.Kind == "array" || ck.Schema.Kind == "map") {
			collKind = ck.Schema.Kind // a named slice / map type without a nullable registered schema
		}
		if collKind != "" {
			// a pointer to a slice or map stays a plain array / map: a nil
			// pointer can only denote the empty collection
			var a AbsVal
			if nilAt >= 0 {
				a = AbsVal{K: collKind}
			} else {
				a = Abs(base, false, cur)
			}
			if omit {
				a.Nullable = true
				switch {
				case nilAt == 0:
					a.Null = NullYes
				case nilAt > 0:
					a.Null = NullEither
				default:
					a.Null = NullNo
				}
			}
			return a
		}
		if nilAt >= 0 {
			return AbsVal{Nullable: true, Null: NullYes}
		}
		a := Abs(base, false, cur)
		if a.Nullable {
			return a // registered union type: the pointer adds no second union
		}
		a.Nullable = true
		a.Null = NullNo
		return a
	case "time":
		t := v.Interface().(time.Time)
		a := absTime(t)
		a.Nullable = true
		if t.IsZero() {
			if omit {
				a.Null = NullYes
			} else {
				a.Null = NullEither
			}
		}
		return a
	case "nullInt", "nullBool", "nullFloat", "nullString", "nullTime":
		inner := v.Field(0)
		if !inner.Field(1).Bool() {
			return AbsVal{Nullable: true, Null: NullYes}
		}
		var a AbsVal
		switch ts.K {
		case "nullInt":
			a = AbsVal{K: "long", I: inner.Field(0).Int()}
		case "nullBool":
			a = AbsVal{K: "bool", B: inner.Field(0).Bool()}
		case "nullFloat":
			a = AbsVal{K: "double", F: math.Float64bits(inner.Field(0).Float())}
		case "nullString":
			a = AbsVal{K: "string", S: []byte(inner.Field(0).String())}
		case "nullTime":
			a = absTime(inner.Field(0).Interface().(time.Time))
		}
		a.Nullable = true
		return a
	}
	var a AbsVal
	null := NullNo
	switch ts.K {
	case "bool":
		a = AbsVal{K: "bool", B: v.Bool()}
		if !v.Bool() {
			null = NullYes
		}
	case "int", "int8", "int16", "int32", "int64":
		a = AbsVal{K: "long", I: v.Int()}
		if v.Int() == 0 {
			null = NullYes
		}
	case "float32", "float64":
		f := v.Float()
		a = AbsVal{K: "double", F: math.Float64bits(f)}
		if f == 0 {
			if math.Signbit(f) {
				null = NullEither
			} else {
				null = NullYes
			}
		}
	case "string":
		a = AbsVal{K: "string", S: []byte(v.String())}
		if v.Len() == 0 {
			null = NullYes
		}
	case "bytes":
		// copied: a denotation is a snapshot and must not alias the value
		a = AbsVal{K: "bytes", S: append([]byte(nil), v.Bytes()...)}
		if v.IsNil() {
			null = NullYes
		} else if v.Len() == 0 {
			null = NullEither
		}
	case "barray":
		b := make([]byte, v.Len())
		reflect.Copy(reflect.ValueOf(b), v)
		a = AbsVal{K: "bytes", S: b}
	case "slice":
		a = AbsVal{K: "array"}
		for i := 0; i < v.Len(); i++ {
			a.Items = append(a.Items, Abs(*ts.Elem, false, v.Index(i)))
		}
		if v.IsNil() {
			null = NullYes
		} else if v.Len() == 0 {
			null = NullEither
		}
	case "map":
		a = AbsVal{K: "map"}
		keys := v.MapKeys()
		sort.Slice(keys, func(i, j int) bool { return keys[i].String() < keys[j].String() })
		for _, k := range keys {
			a.Keys = append(a.Keys, strings.Clone(k.String()))
			a.Vals = append(a.Vals, Abs(*ts.Elem, false, v.MapIndex(k)))
		}
		if v.IsNil() {
			null = NullYes
		} else if v.Len() == 0 {
			null = NullEither
		}
	case "struct":
		a = AbsVal{K: "record"}
		for i, f := range ts.Fields {
			name := f.AvroName()
			if name == "" {
				continue
			}
			a.Names = append(a.Names, name)
			a.Fields = append(a.Fields, Abs(f.T, f.OmitEmpty(), v.Field(i)))
		}
		if v.IsZero() {
			null = NullEither
		}
	default:
		if ck, ok := Custom[ts.K]; ok {
			a = ck.Abs(v)
			if a.Nullable {
				return a // registered union schema
			}
			if v.IsZero() {
				null = NullEither // what "zero" means for a custom type is the custom codec's business
			}
		} else {
			a = AbsVal{K: "?" + ts.K}
		}
	}
	if omit {
		a.Nullable = true
		a.Null = null
	}
	return a
}

// AbsOfDatum converts a decoded datum (with its schema) to the common form.
func AbsOfDatum(s ref.Schema, d ref.Datum) AbsVal {
	switch s.Kind {
	case "union":
		if len(s.Branches) == 2 && (s.Branches[0].Kind == "null") != (s.Branches[1].Kind == "null") {
			if s.Branches[d.Branch].Kind == "null" {
				return AbsVal{Nullable: true, Null: NullYes}
			}
			a := AbsOfDatum(s.Branches[d.Branch], *d.U)
			if a.Nullable {
				return AbsVal{K: "?nested-union"}
			}
			a.Nullable = true
			return a
		}
		if len(s.Branches) == 1 {
			return AbsOfDatum(s.Branches[0], *d.U)
		}
		return AbsVal{K: "?union"}
	case "null":
		return AbsVal{K: "null"}
	case "boolean":
		return AbsVal{K: "bool", B: d.B}
	case "int", "long":
		return AbsVal{K: "long", I: d.I}
	case "float":
		return AbsVal{K: "double", F: math.Float64bits(float64(math.Float32frombits(uint32(d.F))))}
	case "double":
		return AbsVal{K: "double", F: d.F}
	case "string":
		return AbsVal{K: "string", S: d.S}
	case "bytes", "fixed":
		return AbsVal{K: "bytes", S: d.S}
	case "record":
		a := AbsVal{K: "record"}
		for i, f := range s.Fields {
			a.Names = append(a.Names, f.Name)
			a.Fields = append(a.Fields, AbsOfDatum(f.Type, d.Fields[i]))
		}
		return a
	case "array":
		a := AbsVal{K: "array"}
		for _, it := range d.Items {
			a.Items = append(a.Items, AbsOfDatum(*s.Items, it))
		}
		return a
	case "map":
		a := AbsVal{K: "map"}
		m := d.AsMap()
		keys := make([]string, 0, len(m))
		for k := range m {
			keys = append(keys, k)
		}
		sort.Strings(keys)
		for _, k := range keys {
			a.Keys = append(a.Keys, k)
			a.Vals = append(a.Vals, AbsOfDatum(*s.Values, m[k]))
		}
		return a
	}
	return AbsVal{K: "?" + s.Kind}
}

// Match reports whether two denotations can be the same logical datum: at a
// nullable position the sets {null?, value?} must intersect.
func Match(a, b AbsVal, path string) error {
	if a.Nullable != b.Nullable {
		return fmt.Errorf("%s: nullable(union) on one side only: %v vs %v", path, a, b)
	}
	if a.Nullable {
		aNull, bNull := a.Null != NullNo, b.Null != NullNo
		aVal, bVal := a.Null != NullYes, b.Null != NullYes
		if aNull && bNull {
			return nil
		}
		if !(aVal && bVal) {
			return fmt.Errorf("%s: null on one side, value on the other: %v vs %v", path, a, b)
		}
	}
	return matchValue(a, b, path)
}

func matchValue(a, b AbsVal, path string) error {
	if a.K != b.K {
		// a time written as an RFC 3339 string
		if a.K == "time" && b.K == "string" {
			return matchTimeString(a, b, path)
		}
		if a.K == "string" && b.K == "time" {
			return matchTimeString(b, a, path)
		}
		return fmt.Errorf("%s: kind %s vs %s", path, a.K, b.K)
	}
	switch a.K {
	case "null":
	case "bool":
		if a.B != b.B {
			return fmt.Errorf("%s: %v vs %v", path, a.B, b.B)
		}
	case "long":
		if a.I != b.I {
			return fmt.Errorf("%s: %d vs %d", path, a.I, b.I)
		}
	case "double":
		if a.F != b.F {
			fa, fb := math.Float64frombits(a.F), math.Float64frombits(b.F)
			if !(fa != fa && fb != fb) {
				return fmt.Errorf("%s: %v (%#x) vs %v (%#x)", path, fa, a.F, fb, b.F)
			}
		}
	case "string", "bytes":
		if !bytes.Equal(a.S, b.S) {
			return fmt.Errorf("%s: %q vs %q", path, a.S, b.S)
		}
	case "time":
		if a.TSec != b.TSec || a.TNsec != b.TNsec || a.TOff != b.TOff {
			return fmt.Errorf("%s: time %v vs %v", path, a, b)
		}
		if a.Zone != nil && b.Zone != nil && *a.Zone != *b.Zone {
			return fmt.Errorf("%s: the time's location is named %q, was %q", path, *b.Zone, *a.Zone)
		}
	case "record":
		if len(a.Fields) != len(b.Fields) {
			return fmt.Errorf("%s: record with fields %v vs %v", path, a.Names, b.Names)
		}
		for i := range a.Fields {
			if a.Names[i] != b.Names[i] {
				return fmt.Errorf("%s: field %d named %q vs %q", path, i, a.Names[i], b.Names[i])
			}
			if err := Match(a.Fields[i], b.Fields[i], path+"."+a.Names[i]); err != nil {
				return err
			}
		}
	case "array":
		if len(a.Items) != len(b.Items) {
			return fmt.Errorf("%s: array of %d vs %d items", path, len(a.Items), len(b.Items))
		}
		for i := range a.Items {
			if err := Match(a.Items[i], b.Items[i], fmt.Sprintf("%s[%d]", path, i)); err != nil {
				return err
			}
		}
	case "map":
		if len(a.Keys) != len(b.Keys) {
			return fmt.Errorf("%s: map with keys %q vs %q", path, a.Keys, b.Keys)
		}
		for i := range a.Keys {
			if a.Keys[i] != b.Keys[i] {
				return fmt.Errorf("%s: map with keys %q vs %q", path, a.Keys, b.Keys)
			}
			if err := Match(a.Vals[i], b.Vals[i], fmt.Sprintf("%s{%q}", path, a.Keys[i])); err != nil {
				return err
			}
		}
	default:
		return fmt.Errorf("%s: cannot compare kind %s", path, a.K)
	}
	return nil
}

func matchTimeString(t, s AbsVal, path string) error {
	pt, err := time.Parse(time.RFC3339Nano, string(s.S))
	if err != nil {
		return fmt.Errorf("%s: time written as %q which time.Parse(RFC3339Nano) rejects: %v", path, s.S, err)
	}
	p := absTime(pt)
	if p.TSec != t.TSec || p.TNsec != t.TNsec || p.TOff != t.TOff {
		return fmt.Errorf("%s: time %v written as %q = %v", path, t, s.S, p)
	}
	return nil
}
