// Package spec describes Go types and values as plain data (so that generated
// cases serialise, shrink and replay), builds the real Go types and values by
// reflection, and states — independently of the library — which Avro schema a
// type maps to and which logical datum a Go value denotes.
package spec

import (
	"encoding/json"
	"fmt"
	"reflect"
	"strconv"
	"strings"
	"time"
	"unsafe"

	null "github.com/unravelin/null/v5"

	"verifh/ref"
)

// TypeSpec is a Go type as data.
//
// Supported kinds (the quantifier of C01): bool int int16 int32 int64 float32
// float64 string bytes time nullInt nullBool nullFloat nullString nullTime
// struct slice map ptr. "barray" is [N]byte (targets of fixed). The remaining
// kinds exist for C05/C15: int8 uint uint8 uint16 uint32 uint64 uintptr
// complex64 complex128 array (N × Elem) mapk (map[Key]Elem, Key a non-string
// kind) iface chan func unsafeptr.
type TypeSpec struct {
	K      string      `json:"k"`
	Fields []FieldSpec `json:"fields,omitempty"`
	Elem   *TypeSpec   `json:"elem,omitempty"`
	N      int         `json:"n,omitempty"`
	Key    string      `json:"key,omitempty"`
	// Cat names a catalogue type; Build then returns that compile-time type.
	Cat string `json:"cat,omitempty"`
	// TName / TPkg are the Go type name and package path of a named struct
	// (catalogue-derived specs only; reflect.StructOf types are anonymous).
	TName string `json:"tname,omitempty"`
	TPkg  string `json:"tpkg,omitempty"`
}

// FieldSpec is one struct field with its tag, as components.
type FieldSpec struct {
	Go   string   `json:"go"`
	JSON string   `json:"json,omitempty"` // json tag name part; "-" skips the field
	Opts []string `json:"opts,omitempty"` // json tag options, e.g. omitempty, string
	BQ   string   `json:"bq,omitempty"`   // bq tag; "-" skips the field
	// Unexported / Embedded only occur in catalogue-derived specs.
	Unexported bool     `json:"unexported,omitempty"`
	Embedded   bool     `json:"embedded,omitempty"`
	T          TypeSpec `json:"t"`
}

func T(k string) TypeSpec                 { return TypeSpec{K: k} }
func Ptr(t TypeSpec) TypeSpec             { return TypeSpec{K: "ptr", Elem: &t} }
func Slice(t TypeSpec) TypeSpec           { return TypeSpec{K: "slice", Elem: &t} }
func Map(t TypeSpec) TypeSpec             { return TypeSpec{K: "map", Elem: &t} }
func Struct(fs ...FieldSpec) TypeSpec     { return TypeSpec{K: "struct", Fields: fs} }
func BArray(n int) TypeSpec               { return TypeSpec{K: "barray", N: n} }
func F(name string, t TypeSpec) FieldSpec { return FieldSpec{Go: name, T: t} }

// Tag renders the struct tag.
func (f FieldSpec) Tag() reflect.StructTag {
	var parts []string
	if f.JSON != "" || len(f.Opts) > 0 {
		v := f.JSON
		for _, o := range f.Opts {
			v += "," + o
		}
		parts = append(parts, "json:"+strconv.Quote(v))
	}
	if f.BQ != "" {
		parts = append(parts, "bq:"+strconv.Quote(f.BQ))
	}
	return reflect.StructTag(strings.Join(parts, " "))
}

// AvroName is the field's name in the schema, or "" if the field is excluded.
// This is the documented rule: exported fields only; bq:"-" and json:"-"
// exclude; otherwise the json name, or the Go name when the tag has none.
func (f FieldSpec) AvroName() string {
	if f.Unexported || f.BQ == "-" || f.JSON == "-" {
		return ""
	}
	if f.JSON != "" {
		return f.JSON
	}
	return f.Go
}

// OmitEmpty reports whether "omitempty" is among the json options.
func (f FieldSpec) OmitEmpty() bool {
	for _, o := range f.Opts {
		if o == "omitempty" {
			return true
		}
	}
	return false
}

var (
	timeType       = reflect.TypeOf(time.Time{})
	nullIntType    = reflect.TypeOf(null.Int{})
	nullBoolType   = reflect.TypeOf(null.Bool{})
	nullFloatType  = reflect.TypeOf(null.Float{})
	nullStringType = reflect.TypeOf(null.String{})
	nullTimeType   = reflect.TypeOf(null.Time{})
)

var basic = map[string]reflect.Type{
	"bool": reflect.TypeOf(false), "int": reflect.TypeOf(int(0)), "int8": reflect.TypeOf(int8(0)),
	"int16": reflect.TypeOf(int16(0)), "int32": reflect.TypeOf(int32(0)), "int64": reflect.TypeOf(int64(0)),
	"uint": reflect.TypeOf(uint(0)), "uint8": reflect.TypeOf(uint8(0)), "uint16": reflect.TypeOf(uint16(0)),
	"uint32": reflect.TypeOf(uint32(0)), "uint64": reflect.TypeOf(uint64(0)), "uintptr": reflect.TypeOf(uintptr(0)),
	"float32": reflect.TypeOf(float32(0)), "float64": reflect.TypeOf(float64(0)),
	"complex64": reflect.TypeOf(complex64(0)), "complex128": reflect.TypeOf(complex128(0)),
	"string": reflect.TypeOf(""), "bytes": reflect.TypeOf([]byte(nil)),
	"time": timeType, "nullInt": nullIntType, "nullBool": nullBoolType, "nullFloat": nullFloatType,
	"nullString": nullStringType, "nullTime": nullTimeType,
	"iface":     reflect.TypeOf((*interface{})(nil)).Elem(),
	"chan":      reflect.TypeOf((chan int)(nil)),
	"func":      reflect.TypeOf((func())(nil)),
	"unsafeptr": reflect.TypeOf(unsafe.Pointer(nil)),
}

// CustomKind is a TypeSpec leaf kind backed by a named Go type with a
// registered custom codec (C11's GCPoint, C20's custom types).
type CustomKind struct {
	Type reflect.Type
	// Schema is the schema registered for the type.
	Schema ref.Schema
	// Base is the built-in kind whose ValueSpec fields carry the value (int64, string, bytes).
	Base string
	Set  func(dst reflect.Value, v ValueSpec)
	Abs  func(v reflect.Value) AbsVal
}

// Custom holds the registered custom kinds by TypeSpec.K.
var Custom = map[string]*CustomKind{}

// NamedStr is a defined string type: maps keyed by it are string-keyed maps.
type NamedStr string

var namedStrType = reflect.TypeOf(NamedStr(""))

// Catalogue lets package cat register its compile-time types without an import cycle.
var Catalogue = map[string]reflect.Type{}

// namedStructs: every named struct type seen by FromType, by package path and name.
var namedStructs = map[string]reflect.Type{}

// sameFieldList: the spec still lists exactly the type's fields (a projection that
// removed or added fields is a new, anonymous type).
func sameFieldList(t TypeSpec, rt reflect.Type) bool {
	if rt.NumField() != len(t.Fields) {
		return false
	}
	for i, f := range t.Fields {
		if rt.Field(i).Name != f.Go {
			return false
		}
	}
	return true
}

// Build returns the real Go type.
func Build(t TypeSpec) reflect.Type {
	if t.Cat != "" {
		if ct, ok := Catalogue[t.Cat]; ok {
			return ct
		}
		panic("spec: unknown catalogue type " + t.Cat)
	}
	if bt, ok := basic[t.K]; ok {
		return bt
	}
	if ck, ok := Custom[t.K]; ok {
		return ck.Type
	}
	switch t.K {
	case "ptr":
		return reflect.PointerTo(Build(*t.Elem))
	case "slice":
		return reflect.SliceOf(Build(*t.Elem))
	case "map":
		if t.Key == "nstr" {
			return reflect.MapOf(namedStrType, Build(*t.Elem))
		}
		return reflect.MapOf(basic["string"], Build(*t.Elem))
	case "mapk":
		return reflect.MapOf(basic[t.Key], Build(*t.Elem))
	case "barray":
		return reflect.ArrayOf(t.N, basic["uint8"])
	case "array":
		return reflect.ArrayOf(t.N, Build(*t.Elem))
	case "struct":
		for _, f := range t.Fields {
			if f.Unexported {
				// only a type that exists has unexported fields: the one this description was taken from
				if rt, ok := structsByShape[shapeKey(t)]; ok {
					return rt
				}
				break
			}
		}
		if t.TName != "" {
			// a named struct met while a compile-time type was described: the type itself
			// (it may have unexported fields, which reflect.StructOf cannot make)
			if rt, ok := namedStructs[t.TPkg+"."+t.TName]; ok && sameFieldList(t, rt) {
				return rt
			}
		}
		fs := make([]reflect.StructField, len(t.Fields))
		for i, f := range t.Fields {
			fs[i] = reflect.StructField{Name: f.Go, Type: Build(f.T), Tag: f.Tag()}
		}
		return reflect.StructOf(fs)
	}
	panic("spec: cannot build kind " + t.K)
}

// FromType derives a TypeSpec from a compile-time type (catalogue types). The
// top level keeps Cat so that Build returns the named type itself.
func FromType(rt reflect.Type, catName string) TypeSpec {
	ts := fromType(rt, map[reflect.Type]bool{})
	ts.Cat = catName
	return ts
}

// structsByShape: every struct type seen by FromType, by the description taken from it.
var structsByShape = map[string]reflect.Type{}

func shapeKey(t TypeSpec) string {
	t.Cat = ""
	b, _ := json.Marshal(t)
	return string(b)
}

func fromType(rt reflect.Type, busy map[reflect.Type]bool) (ts TypeSpec) {
	switch rt {
	case timeType:
		return T("time")
	case nullIntType:
		return T("nullInt")
	case nullBoolType:
		return T("nullBool")
	case nullFloatType:
		return T("nullFloat")
	case nullStringType:
		return T("nullString")
	case nullTimeType:
		return T("nullTime")
	}
	switch rt.Kind() {
	case reflect.Ptr:
		e := fromType(rt.Elem(), busy)
		return Ptr(e)
	case reflect.Slice:
		if rt.Elem().Kind() == reflect.Uint8 {
			return T("bytes")
		}
		return Slice(fromType(rt.Elem(), busy))
	case reflect.Map:
		if rt.Key().Kind() == reflect.String {
			m := Map(fromType(rt.Elem(), busy))
			if rt.Key() == namedStrType {
				m.Key = "nstr"
			}
			return m
		}
		e := fromType(rt.Elem(), busy)
		return TypeSpec{K: "mapk", Key: rt.Key().Kind().String(), Elem: &e}
	case reflect.Array:
		if rt.Elem().Kind() == reflect.Uint8 {
			return BArray(rt.Len())
		}
		e := fromType(rt.Elem(), busy)
		return TypeSpec{K: "array", N: rt.Len(), Elem: &e}
	case reflect.Struct:
		if busy[rt] {
			return TypeSpec{K: "recursive", TName: rt.Name(), TPkg: rt.PkgPath()}
		}
		busy[rt] = true
		defer delete(busy, rt)
		if rt.Name() != "" {
			namedStructs[rt.PkgPath()+"."+rt.Name()] = rt
		}
		defer func() { structsByShape[shapeKey(ts)] = rt }()
		ts = TypeSpec{K: "struct", TName: rt.Name(), TPkg: rt.PkgPath()}
		for i := 0; i < rt.NumField(); i++ {
			sf := rt.Field(i)
			fs := FieldSpec{Go: sf.Name, Unexported: !sf.IsExported(), Embedded: sf.Anonymous, BQ: sf.Tag.Get("bq")}
			if j, ok := sf.Tag.Lookup("json"); ok {
				parts := strings.Split(j, ",")
				fs.JSON = parts[0]
				fs.Opts = parts[1:]
			}
			if fs.Unexported {
				fs.T = TypeSpec{K: "opaque"}
			} else {
				fs.T = fromType(sf.Type, busy)
			}
			ts.Fields = append(ts.Fields, fs)
		}
		return ts
	case reflect.Interface:
		return T("iface")
	case reflect.Chan:
		return T("chan")
	case reflect.Func:
		return T("func")
	case reflect.UnsafePointer:
		return T("unsafeptr")
	}
	if _, ok := basic[rt.Kind().String()]; ok {
		return T(rt.Kind().String())
	}
	return TypeSpec{K: "opaque"}
}

// GoString prints Go source for the type (for evidence samples and messages).
func (t TypeSpec) GoString() string {
	switch t.K {
	case "bytes":
		return "[]byte"
	case "time":
		return "time.Time"
	case "nullInt", "nullBool", "nullFloat", "nullString", "nullTime":
		return "null." + strings.TrimPrefix(t.K, "null")
	case "ptr":
		return "*" + t.Elem.GoString()
	case "slice":
		return "[]" + t.Elem.GoString()
	case "map":
		if t.Key == "nstr" {
			return "map[spec.NamedStr]" + t.Elem.GoString()
		}
		return "map[string]" + t.Elem.GoString()
	case "mapk":
		return "map[" + t.Key + "]" + t.Elem.GoString()
	case "barray":
		return fmt.Sprintf("[%d]byte", t.N)
	case "array":
		return fmt.Sprintf("[%d]%s", t.N, t.Elem.GoString())
	case "iface":
		return "interface{}"
	case "chan":
		return "chan int"
	case "func":
		return "func()"
	case "unsafeptr":
		return "unsafe.Pointer"
	case "struct":
		var sb strings.Builder
		if t.Cat != "" {
			sb.WriteString("/*cat." + t.Cat + "*/ ")
		}
		sb.WriteString("struct{")
		for i, f := range t.Fields {
			if i > 0 {
				sb.WriteString("; ")
			}
			sb.WriteString(f.Go + " " + f.T.GoString())
			if tag := f.Tag(); tag != "" {
				sb.WriteString(" `" + string(tag) + "`")
			}
		}
		sb.WriteString("}")
		return sb.String()
	}
	return t.K
}

// Contains reports whether any node of the type satisfies pred.
func (t TypeSpec) Contains(pred func(TypeSpec) bool) bool {
	if pred(t) {
		return true
	}
	if t.Elem != nil && t.Elem.Contains(pred) {
		return true
	}
	for _, f := range t.Fields {
		if f.AvroName() != "" && f.T.Contains(pred) {
			return true
		}
	}
	return false
}

// Depth is the nesting depth of the type tree.
func (t TypeSpec) Depth() int {
	d := 0
	if t.Elem != nil {
		d = t.Elem.Depth()
	}
	for _, f := range t.Fields {
		if fd := f.T.Depth(); fd > d {
			d = fd
		}
	}
	return d + 1
}

// StripPtr removes all leading pointer levels.
func (t TypeSpec) StripPtr() TypeSpec {
	for t.K == "ptr" {
		t = *t.Elem
	}
	return t
}

func (t TypeSpec) IsRegistered() bool {
	switch t.K {
	case "time", "nullInt", "nullBool", "nullFloat", "nullString", "nullTime":
		return true
	}
	return false
}
