module verifh

go 1.24

toolchain go1.24.0

require (
	github.com/go-json-experiment/json v0.0.0-20250213060926-925ba3f173fa
	github.com/golang/snappy v1.0.0
	github.com/philpearl/avro v0.0.0
	github.com/unravelin/null/v5 v5.0.1
	pgregory.net/rapid v1.3.0
)

require (
	github.com/josharian/intern v1.0.0 // indirect
	github.com/mailru/easyjson v0.7.7 // indirect
)

replace github.com/philpearl/avro => /repo
