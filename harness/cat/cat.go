// Package cat is the committed catalogue of named Go types: what
// reflect.StructOf cannot express (names, reuse of a named struct, recursion,
// embedded and unexported fields, an awkward package path) and a compile-time T
// for the real generic Encoder[T].
package cat

import (
	"io"
	"reflect"
	"sort"
	"time"
	"unsafe"

	"github.com/philpearl/avro"
	null "github.com/unravelin/null/v5"

	sub "verifh/cat/sub-pkg"
	"verifh/spec"
)

// Enc is Encoder[T] with the type parameter erased.
type Enc interface {
	Encode(p unsafe.Pointer) error
	Flush() error
}

type encAdapter[T any] struct{ e *avro.Encoder[T] }

func (a encAdapter[T]) Encode(p unsafe.Pointer) error { return a.e.Encode((*T)(p)) }
func (a encAdapter[T]) Flush() error                  { return a.e.Flush() }

// Entry is one catalogue type.
type Entry struct {
	Name string
	Type reflect.Type
	Spec spec.TypeSpec
	// Encodable: in the supported domain of C01 (no recursion, no unsupported kinds).
	Encodable  bool
	NewEncoder func(w io.Writer, c avro.Compression, blockSize int) (Enc, error)
}

var entries = map[string]*Entry{}

func reg[T any](name string, encodable bool) {
	rt := reflect.TypeFor[T]()
	spec.Catalogue[name] = rt
	entries[name] = &Entry{
		Name: name, Type: rt, Spec: spec.FromType(rt, name), Encodable: encodable,
		NewEncoder: func(w io.Writer, c avro.Compression, bs int) (Enc, error) {
			e, err := avro.NewEncoderFor[T](w, c, bs)
			if err != nil {
				return nil, err
			}
			return encAdapter[T]{e}, nil
		},
	}
}

func Get(name string) *Entry {
	if e, ok := entries[name]; ok {
		return e
	}
	return genEntries[name]
}

// genEntries are the types of zz_named_gen.go (written by verifh/gencat), kept apart
// from the hand-written catalogue so that the units drawing from it are unaffected.
var genEntries = map[string]*Entry{}

func regGen[T any](name string) {
	reg[T](name, true)
	genEntries[name] = entries[name]
	delete(entries, name)
}

// GenNames lists the generated named types.
func GenNames() []string {
	var out []string
	for n := range genEntries {
		out = append(out, n)
	}
	sort.Strings(out)
	return out
}

func Names(encodableOnly bool) []string {
	var out []string
	for n, e := range entries {
		if !encodableOnly || e.Encodable {
			out = append(out, n)
		}
	}
	sort.Strings(out)
	return out
}

// ---------------------------------------------------------------------------

type Inner struct {
	A int64  `json:"a"`
	B string `json:"b,omitempty"`
}

type Simple struct {
	ID    int64   `json:"id"`
	Name  string  `json:"name"`
	Score float64 `json:"score"`
	OK    bool    `json:"ok"`
	Data  []byte  `json:"data"`
}

type Empty struct{}

// WideRecord has a schema of well over a kilobyte (larger than any fixed header buffer).
type WideRecord struct {
	Identifier0         int64       `json:"identifier_number_zero"`
	DescriptionText1    string      `json:"description_text_number_one"`
	MeasurementValue2   float64     `json:"measurement_value_number_two,omitempty"`
	BooleanFlag3        bool        `json:"boolean_flag_number_three"`
	BinaryPayload4      []byte      `json:"binary_payload_number_four"`
	OptionalCounter5    *int64      `json:"optional_counter_number_five"`
	CreationTimestamp6  time.Time   `json:"creation_timestamp_number_six"`
	NullableInteger7    null.Int    `json:"nullable_integer_number_seven"`
	NullableString8     null.String `json:"nullable_string_number_eight"`
	ListOfNames9        []string    `json:"list_of_names_number_nine"`
	SmallInteger10      int16       `json:"small_integer_number_ten"`
	MediumInteger11     int32       `json:"medium_integer_number_eleven,omitempty"`
	SinglePrecision12   float32     `json:"single_precision_number_twelve"`
	NestedRecord13      Inner       `json:"nested_record_number_thirteen"`
	OptionalNested14    *Inner      `json:"optional_nested_number_fourteen"`
	ListOfRecords15     []Inner     `json:"list_of_records_number_fifteen"`
	SecondDescription16 string      `json:"second_description_number_sixteen,omitempty"`
	SecondIdentifier17  int64       `json:"second_identifier_number_seventeen"`
	NullableFloat18     null.Float  `json:"nullable_float_number_eighteen"`
	NullableBool19      null.Bool   `json:"nullable_bool_number_nineteen"`
	OptionalText20      *string     `json:"optional_text_number_twenty"`
	ListOfNumbers21     []int64     `json:"list_of_numbers_number_twenty_one"`
}

// EmbedMid embeds a struct that is not the first field; EmbedPtr embeds by pointer.
// The embedded struct is ONE field (named by its type); its inner fields are not
// fields of the outer record even when the file has fields with their names.
type EmbedMid struct {
	X int64 `json:"x"`
	Inner
	Y string `json:"y"`
}

type EmbedPtr struct {
	X int64 `json:"x"`
	*Inner
	Y string `json:"y"`
}

type BigStrings struct {
	K string `json:"k"`
	V string `json:"v"`
}

type Widths struct {
	A int16   `json:"a"`
	B int16   `json:"b"`
	C int32   `json:"c"`
	D int     `json:"d"`
	E float32 `json:"e"`
	F int16   `json:"f,omitempty"`
	G float32 `json:"g,omitempty"`
}

// AllFixed: every field has a fixed width on the wire (a float32 is carried as a double).
type AllFixed struct {
	A float32 `json:"a"`
	B float64 `json:"b"`
	C bool    `json:"c"`
	D float32 `json:"d"`
	E struct {
		X float64 `json:"x"`
		Y bool    `json:"y"`
	} `json:"e"`
}

type Nested struct {
	In  Inner            `json:"in"`
	PIn *Inner           `json:"pin"`
	Ins []Inner          `json:"ins"`
	M   map[string]Inner `json:"m"`
}

type PtrShapes struct {
	PS  *[]int64           `json:"ps"`
	PM  *map[string]string `json:"pm"`
	PP  **int64            `json:"pp"`
	SP  []*string          `json:"sp"`
	MP  map[string]*int64  `json:"mp"`
	PPS **string           `json:"pps,omitempty"`
}

type MapShapes struct {
	MM map[string]map[string]int64 `json:"mm"`
	MS map[string][]string         `json:"ms"`
	MN map[string]null.Int         `json:"mn"`
	MT map[string]time.Time        `json:"mt"`
	SM []map[string]float64        `json:"sm"`
}

type Registered struct {
	T   time.Time     `json:"t"`
	PT  *time.Time    `json:"pt"`
	TO  time.Time     `json:"to,omitempty"`
	NI  null.Int      `json:"ni"`
	NB  null.Bool     `json:"nb"`
	NF  null.Float    `json:"nf"`
	NS  null.String   `json:"ns"`
	NT  null.Time     `json:"nt"`
	PNI *null.Int     `json:"pni"`
	STs []time.Time   `json:"sts"`
	SNs []null.String `json:"sns"`
}

type Omit struct {
	I  int64             `json:"i,omitempty"`
	S  string            `json:"s,omitempty"`
	B  bool              `json:"b,omitempty"`
	F  float64           `json:"f,omitempty"`
	Bs []byte            `json:"bs,omitempty"`
	L  []int64           `json:"l,omitempty"`
	M  map[string]string `json:"m,omitempty"`
	P  *int64            `json:"p,omitempty"`
	In Inner             `json:"in,omitempty"`
	S2 string            `json:"s2,omitempty,string"`
	S3 string            `json:"s3,string,omitempty"`
}

type Skips struct {
	Keep  int64  `json:"keep"`
	J     string `json:"-"`
	Q     string `bq:"-"`
	JQ    string `json:"jq" bq:"-"`
	lower int64
	Other string `json:"other" bq:"other_col"`
	NoTag float64
}

// Touch keeps the unexported field from being reported unused.
func (s *Skips) Touch() { s.lower++ }

// TaggedUnexported: unexported fields that carry json names (a struct shared with
// other serialisers), one of them of a type Avro cannot express, and an embedded
// unexported struct type with a name of its own. None of them is a field of the record.
type hiddenInner struct {
	Q int64 `json:"q"`
}

type TaggedUnexported struct {
	ID          int64    `json:"id"`
	etag        string   `json:"etag"`
	pending     chan int `json:"pending"`
	hiddenInner `json:"inner"`
	Name        string `json:"name,omitempty"`
	count       int64  `json:"count,omitempty"`
}

// Touch keeps the unexported fields from being reported unused.
func (t *TaggedUnexported) Touch() { t.etag, t.count = "x", 1; t.pending = nil; t.hiddenInner.Q++ }

// Registered types in embedded position: the field is named after the type and
// carries the type's registered schema and codec.
type EmbedsTime struct {
	time.Time
	ID int64 `json:"id"`
}

type EmbedsNullMid struct {
	ID int64 `json:"id"`
	null.String
	Tail float64 `json:"tail"`
}

type Embeds struct {
	Inner
	X int64 `json:"x"`
}

// ReuseTwice uses the same named struct in two positions.
type ReuseTwice struct {
	A Inner `json:"a"`
	B Inner `json:"b"`
}

// ReuseOmit: the same struct type first under omitempty, then plain, then in collections.
type ReuseOmit struct {
	O  Inner            `json:"o,omitempty"`
	P  Inner            `json:"p"`
	L  []Inner          `json:"l"`
	M  map[string]Inner `json:"m"`
	PP *Inner           `json:"pp"`
	Q  Inner            `json:"q"`
}

type ReuseDeep struct {
	A  Inner   `json:"a"`
	Bs []Inner `json:"bs"`
	C  *Inner  `json:"c"`
}

// SelfRef is self-referential.
type SelfRef struct {
	V    int64    `json:"v"`
	Next *SelfRef `json:"next"`
}

type MutualA struct {
	B *MutualB `json:"b"`
}
type MutualB struct {
	As []MutualA `json:"as"`
}

type SelfSlice struct {
	Kids []SelfSlice `json:"kids"`
}

type SelfMap struct {
	Kids map[string]SelfMap `json:"kids"`
}

// Cycles that pass through a NAMED map, slice or pointer type while every struct
// on the cycle is anonymous.
type TreeMap map[string]struct {
	Kids TreeMap `json:"kids"`
}
type AnonCycleMap struct {
	T TreeMap `json:"t"`
}
type TreeSlice []struct {
	Kids TreeSlice `json:"kids"`
}
type AnonCycleSlice struct {
	T TreeSlice `json:"t"`
}
type NodePtr *struct {
	V    int64   `json:"v"`
	Next NodePtr `json:"next"`
}
type AnonCyclePtr struct {
	P NodePtr `json:"p"`
}

type Unsupported struct {
	U uint32 `json:"u"`
}

type WithArray struct {
	A [4]byte `json:"a"`
}

type WithIface struct {
	A interface{} `json:"a"`
}

func init() {
	reg[Simple]("Simple", true)
	reg[Empty]("Empty", true)
	reg[WideRecord]("WideRecord", true)
	reg[EmbedMid]("EmbedMid", true)
	reg[EmbedPtr]("EmbedPtr", true)
	reg[BigStrings]("BigStrings", true)
	reg[Widths]("Widths", true)
	reg[AllFixed]("AllFixed", true)
	reg[Nested]("Nested", true)
	reg[PtrShapes]("PtrShapes", true)
	reg[MapShapes]("MapShapes", true)
	reg[Registered]("Registered", true)
	reg[Omit]("Omit", true)
	reg[Skips]("Skips", true)
	reg[Embeds]("Embeds", true)
	reg[EmbedsTime]("EmbedsTime", true)
	reg[EmbedsNullMid]("EmbedsNullMid", true)
	reg[TaggedUnexported]("TaggedUnexported", true)
	reg[ReuseTwice]("ReuseTwice", true)
	reg[ReuseDeep]("ReuseDeep", true)
	reg[ReuseOmit]("ReuseOmit", true)
	reg[sub.Odd]("SubOdd", true)
	// row types that are not records: registered struct types used as T itself
	reg[time.Time]("RowTime", true)
	reg[null.Int]("RowNullInt", true)
	reg[null.String]("RowNullString", true)
	reg[SelfRef]("SelfRef", false)
	reg[MutualA]("MutualA", false)
	reg[SelfSlice]("SelfSlice", false)
	reg[SelfMap]("SelfMap", false)
	reg[AnonCycleMap]("AnonCycleMap", false)
	reg[AnonCycleSlice]("AnonCycleSlice", false)
	reg[AnonCyclePtr]("AnonCyclePtr", false)
	reg[Unsupported]("Unsupported", false)
	reg[WithArray]("WithArray", false)
	reg[WithIface]("WithIface", false)
}
