// Package sub lives at an import path containing '/' and '-', so the namespace
// derived from it has to be rewritten to a valid Avro namespace.
package sub

type Leaf struct {
	N int64 `json:"n"`
}

type Odd struct {
	L  Leaf   `json:"l"`
	Ls []Leaf `json:"ls"`
	S  string `json:"s"`
}
