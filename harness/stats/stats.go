// Package stats collects what a check run actually covered: evaluations, the
// set of distinct non-trivial cases (64-bit hashes of the canonical case JSON),
// label counts describing the generator distribution, and sample cases. One
// file per process, merged by the driver.
package stats

import (
	"encoding/binary"
	"encoding/json"
	"fmt"
	"hash/fnv"
	"os"
	"path/filepath"
	"sort"
	"sync"
)

type Collector struct {
	mu          sync.Mutex
	Property    string
	Evaluations int64
	hashes      map[uint64]struct{}
	Labels      map[string]int64
	Samples     []json.RawMessage
	sampleSeen  int64
	Excluded    int64
	Exhaustive  bool
	Extra       map[string]interface{}
	Rule        string
	Level       string
}

const maxSamples = 6

func New(property string) *Collector {
	return &Collector{Property: property, hashes: map[uint64]struct{}{}, Labels: map[string]int64{}, Extra: map[string]interface{}{}}
}

func hashOf(b []byte) uint64 {
	h := fnv.New64a()
	h.Write(b)
	return h.Sum64()
}

// Record counts one evaluated case. c is marshalled to JSON (canonical for our
// struct types: fixed field order, no maps) for hashing and sampling.
func (c *Collector) Record(cs interface{}, nontrivial bool, labels ...string) {
	b, err := json.Marshal(cs)
	if err != nil {
		panic(fmt.Sprintf("stats: cannot marshal case: %v", err))
	}
	c.RecordJSON(b, nontrivial, labels...)
}

func (c *Collector) RecordJSON(b []byte, nontrivial bool, labels ...string) {
	c.mu.Lock()
	defer c.mu.Unlock()
	c.Evaluations++
	for _, l := range labels {
		c.Labels[l]++
	}
	if nontrivial {
		c.Labels["nontrivial"]++
		c.hashes[hashOf(b)] = struct{}{}
		c.sampleSeen++
		// keep the first three and then a deterministic thinning sample
		if len(c.Samples) < maxSamples/2 {
			c.Samples = append(c.Samples, trim(b))
		} else if c.sampleSeen&(c.sampleSeen-1) == 0 { // powers of two
			if len(c.Samples) < maxSamples {
				c.Samples = append(c.Samples, trim(b))
			} else {
				c.Samples[maxSamples/2+int(c.sampleSeen%int64(maxSamples/2))] = trim(b)
			}
		}
	}
}

// RecordKey counts an evaluation whose identity is a short key (used by the
// enumerations, where marshalling every case would dominate the cost).
func (c *Collector) RecordKey(key uint64, nontrivial bool) {
	c.mu.Lock()
	c.Evaluations++
	if nontrivial {
		c.hashes[key] = struct{}{}
	}
	c.mu.Unlock()
}

// Bulk adds evaluations counted by the caller, with the number of distinct
// non-trivial ones given as explicit keys range [base, base+n) — used by the
// 2^32 enumerations where a hash set would not fit; see AddDistinct.
func (c *Collector) Bulk(evals int64) {
	c.mu.Lock()
	c.Evaluations += evals
	c.mu.Unlock()
}

var extraDistinct int64

// AddDistinct adds n distinct non-trivial cases that are distinct by
// construction (an enumeration that visits each value once).
func (c *Collector) AddDistinct(n int64) {
	c.mu.Lock()
	extraDistinct += n
	c.mu.Unlock()
}

func (c *Collector) Label(l string) { c.LabelN(l, 1) }
func (c *Collector) LabelN(l string, n int64) {
	c.mu.Lock()
	c.Labels[l] += n
	c.mu.Unlock()
}

func (c *Collector) Sample(v interface{}) {
	b, err := json.Marshal(v)
	if err != nil {
		return
	}
	c.mu.Lock()
	if len(c.Samples) < maxSamples {
		c.Samples = append(c.Samples, trim(b))
	}
	c.mu.Unlock()
}

func trim(b []byte) json.RawMessage {
	if len(b) > 6000 {
		s, _ := json.Marshal(string(b[:6000]) + "…(truncated)")
		return s
	}
	return append(json.RawMessage(nil), b...)
}

type fileFormat struct {
	Property      string                 `json:"property"`
	Evaluations   int64                  `json:"evaluations"`
	Labels        map[string]int64       `json:"labels"`
	Samples       []json.RawMessage      `json:"samples"`
	Excluded      int64                  `json:"excluded_known"`
	Exhaustive    bool                   `json:"exhaustive"`
	ExtraDistinct int64                  `json:"extra_distinct"`
	Rule          string                 `json:"rule"`
	Level         string                 `json:"level"`
	Extra         map[string]interface{} `json:"extra"`
}

// Flush writes <dir>/stats-<property>.json and <dir>/hashes-<property>.bin.
// dir comes from VERIF_OUT; with no VERIF_OUT nothing is written.
func (c *Collector) Flush() {
	dir := os.Getenv("VERIF_OUT")
	if dir == "" {
		return
	}
	c.mu.Lock()
	defer c.mu.Unlock()
	os.MkdirAll(dir, 0o755)
	ff := fileFormat{c.Property, c.Evaluations, c.Labels, c.Samples, c.Excluded, c.Exhaustive, extraDistinct, c.Rule, c.Level, c.Extra}
	b, _ := json.MarshalIndent(ff, "", " ")
	os.WriteFile(filepath.Join(dir, "stats-"+c.Property+".json"), b, 0o644)
	keys := make([]uint64, 0, len(c.hashes))
	for k := range c.hashes {
		keys = append(keys, k)
	}
	sort.Slice(keys, func(i, j int) bool { return keys[i] < keys[j] })
	hb := make([]byte, 8*len(keys))
	for i, k := range keys {
		binary.LittleEndian.PutUint64(hb[8*i:], k)
	}
	os.WriteFile(filepath.Join(dir, "hashes-"+c.Property+".bin"), hb, 0o644)
}

// Failure is what a failing property writes for the driver.
type Failure struct {
	Property string          `json:"property"`
	Entry    string          `json:"entry"` // which Run function replays it
	Message  string          `json:"message"`
	Case     json.RawMessage `json:"case"`
	// GenCatalogue names the generated catalogue of named types the test binary
	// was built with ("<seed>/<n>"): the driver regenerates it before a replay.
	GenCatalogue string `json:"gen_catalogue,omitempty"`
}

// GenCatalogue is set by the checks package from the generated catalogue's constants.
var GenCatalogue string

var failMu sync.Mutex

// WriteFailure stores the failing case (overwriting: rapid runs the shrunk
// example last) and also keeps the smallest one seen.
func WriteFailure(property, entry, msg string, cs interface{}) {
	dir := os.Getenv("VERIF_OUT")
	if dir == "" {
		return
	}
	b, err := json.Marshal(cs)
	if err != nil {
		b, _ = json.Marshal(fmt.Sprintf("%+v", cs))
	}
	f := Failure{Property: property, Entry: entry, Message: msg, Case: b, GenCatalogue: GenCatalogue}
	out, _ := json.MarshalIndent(f, "", " ")
	failMu.Lock()
	defer failMu.Unlock()
	os.MkdirAll(dir, 0o755)
	os.WriteFile(filepath.Join(dir, "fail-"+property+"-last.json"), out, 0o644)
	small := filepath.Join(dir, "fail-"+property+"-smallest.json")
	if old, err := os.ReadFile(small); err != nil || len(old) > len(out) {
		os.WriteFile(small, out, 0o644)
	}
}
