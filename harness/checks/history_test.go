package checks

import (
	"bytes"
	"errors"
	"fmt"
	"io"
	"io/fs"
	"reflect"
	"strings"
	"syscall"
	"testing"

	"github.com/philpearl/avro"
	"pgregory.net/rapid"

	"verifh/cat"
	"verifh/gen"
	"verifh/ref"
	"verifh/spec"
	"verifh/stats"
)

// C09 (encoder output is an exact, gap-free block sequence for any call
// history) and C16 (write failures surface as errors and leave a clean prefix).
// Histories are drawn as data and interpreted step by step against a model.

type histOp struct {
	Flush bool           `json:"flush,omitempty"`
	Value spec.ValueSpec `json:"value"`
}

type histCase struct {
	Cat         string   `json:"cat"`
	Compression string   `json:"compression"`
	BlockSize   int      `json:"block_size"`
	Ops         []histOp `json:"ops"`
	// C16 only: for the k-th write, the failing writer accepts J[k mod len] permille of the bytes.
	J []int `json:"j,omitempty"`
	// FileWriter-level history (C16): blocks of raw payload bytes.
	FW       bool     `json:"fw,omitempty"`
	Payloads [][]byte `json:"payloads,omitempty"`
	Counts   []int    `json:"counts,omitempty"`
	// PayloadSizes[i] > 0: payload i is that many incompressible bytes, generated
	// (blocks well above 64 KiB also after compression).
	PayloadSizes []int `json:"payload_sizes,omitempty"`
	// Fault restricts a replay to one fault index (-1 = all).
	Fault int `json:"fault"`
	// Companion > 0 (C09): after step Companion-1 a second Encoder for the same type is
	// created on a sink of its own and from then on fed the same values, turn and turn
	// about with the first (two files written side by side by one goroutine).
	Companion int `json:"companion,omitempty"`
}

var mapFree = []string{"AllFixed", "Simple", "Empty", "BigStrings", "Widths", "Registered", "Skips", "Embeds", "ReuseTwice", "SubOdd", "WideRecord", "WideRecord", "EmbedMid", "RowTime", "RowNullInt", "RowNullString"}

var genNamesCache = map[bool][]string{}

// genNamesFor lists the generated named types (all of them, or those without maps).
func genNamesFor(mapFreeOnly bool) []string {
	if v, ok := genNamesCache[mapFreeOnly]; ok {
		return v
	}
	var out []string
	for _, n := range cat.GenNames() {
		if !mapFreeOnly || !cat.Get(n).Spec.Contains(func(t spec.TypeSpec) bool { return t.K == "map" }) {
			out = append(out, n)
		}
	}
	genNamesCache[mapFreeOnly] = out
	return out
}

func drawHistCase(t *rapid.T, mapFreeOnly bool) histCase {
	var c histCase
	names := cat.Names(true)
	if mapFreeOnly {
		names = mapFree
	}
	// the zero-byte record and the big-string record get extra weight
	switch gen.Uniform(t, "typecls", 4) {
	case 0:
		c.Cat = "Empty"
	case 1:
		c.Cat = "BigStrings"
	case 2:
		// a generated named type (any shape; for the fault-injection histories one without maps)
		gn := genNamesFor(mapFreeOnly)
		if len(gn) == 0 {
			c.Cat = rapid.SampledFrom(names).Draw(t, "cat")
		} else {
			c.Cat = gn[gen.Uniform(t, "genCat", len(gn))]
		}
	default:
		c.Cat = rapid.SampledFrom(names).Draw(t, "cat")
	}
	ts := cat.Get(c.Cat).Spec
	c.Compression = drawCompression(t)
	c.BlockSize = []int{0, 1, 7, 64, 300, 1000, 1000000, 250, 4070, 4090}[gen.Uniform(t, "blocksize", 10)]
	if gen.Uniform(t, "anyBlockSize", 3) == 0 {
		c.BlockSize = gen.UniformRange(t, "blocksizeAny", 2, 400) // no particular relation to the record size
	}
	n := gen.UniformRange(t, "nops", 1, 30)
	if thorough() {
		n = gen.UniformRange(t, "nops", 1, 60)
	}
	if !mapFreeOnly && gen.Uniform(t, "hugeBlocks", 150) == 0 {
		// a block size above 1 MiB with enough data to fill it more than once
		c.BlockSize = 1<<20 + 4096*gen.Uniform(t, "hugeExtra", 64)
		c.Cat = "BigStrings"
		ts = cat.Get(c.Cat).Spec
		n = gen.UniformRange(t, "nopsHuge", 24, 40)
	}
	if !mapFreeOnly && gen.Uniform(t, "midBlocks", 60) == 0 {
		// blocks of 64-256 KiB holding records of about 1 KiB and now and then one of 40-200 KiB
		c.BlockSize = []int{64 << 10, 65537, 100000, 128 << 10, 200000, 256 << 10}[gen.Uniform(t, "midBlockSize", 6)]
		c.Cat = "BigStrings"
		ts = cat.Get(c.Cat).Spec
		n = gen.UniformRange(t, "nopsMid", 40, 160)
		for i := 0; i < n; i++ {
			if gen.Uniform(t, "opMid", 12) == 0 {
				c.Ops = append(c.Ops, histOp{Flush: true})
				continue
			}
			ln := 900 + gen.Uniform(t, "midLen", 300)
			if gen.Uniform(t, "midBig", 15) == 0 {
				ln = 40000 + 1000*gen.Uniform(t, "midBigLen", 160)
			}
			b := make([]byte, ln)
			for j := range b {
				b[j] = byte('a' + (i*29+j*5+j/311)%26)
			}
			c.Ops = append(c.Ops, histOp{Value: spec.ValueSpec{Fields: []spec.ValueSpec{{S: []byte("k")}, {S: b}}}})
		}
		c.Fault = -1
		return c
	}
	if c.BlockSize >= 4000 && c.BlockSize < 5000 {
		// enough large records to fill several blocks of about 4 KiB (a common buffer size)
		c.Cat = "BigStrings"
		ts = cat.Get(c.Cat).Spec
		n = gen.UniformRange(t, "nopsBig", 30, 70)
	}
	for i := 0; i < n; i++ {
		if gen.Uniform(t, "op", 4) == 0 {
			c.Ops = append(c.Ops, histOp{Flush: true})
		} else if c.BlockSize >= 1<<20 && c.BlockSize < 1<<22 {
			// records of about 100 KiB
			b := make([]byte, 90000+1000*gen.Uniform(t, "hugeLen", 40))
			for j := range b {
				b[j] = byte('a' + (i*17+j*3+j/509)%26)
			}
			c.Ops = append(c.Ops, histOp{Value: spec.ValueSpec{Fields: []spec.ValueSpec{{S: []byte("k")}, {S: b}}}})
		} else if c.BlockSize >= 4000 && c.BlockSize < 5000 {
			// records of 100-800 bytes
			mk := func(label string) spec.ValueSpec {
				n := gen.UniformRange(t, label, 50, 400)
				b := make([]byte, n)
				for j := range b {
					b[j] = byte('a' + (i*31+j*7)%26)
				}
				return spec.ValueSpec{S: b}
			}
			c.Ops = append(c.Ops, histOp{Value: spec.ValueSpec{Fields: []spec.ValueSpec{mk("klen"), mk("vlen")}}})
		} else {
			c.Ops = append(c.Ops, histOp{Value: gen.Value(t, ts, gen.ValueOpts{MaxElems: 3})})
		}
	}
	c.Fault = -1
	if !mapFreeOnly && gen.Uniform(t, "companion", 5) == 0 {
		c.Companion = 1 + gen.Uniform(t, "companionAt", len(c.Ops))
	}
	return c
}

// ---------------------------------------------------------------------------
// C09

const c09Rule = "rapid draws of histories over the real generic Encoder[T] (catalogue types incl. a zero-byte record and one with large strings): 1-30 (thorough 1-60) steps of encode(value)/flush, " +
	"block size in {0,1,7,64,250,300,1000,4070,4090,1e6, rarely 1 MiB + k*4 KiB with ~100 KiB records}, all codecs; model = records pending since the last block; after EVERY call the bytes newly appended to the sink are parsed by the reference reader: " +
	"nothing, or exactly one well-formed block whose count = |pending|, whose payload decodes (exact fit) to the pending records in order and whose sync is the header's; never count 0; " +
	"a block must appear in the call in which the cumulative encoded size (from the decoded payload spans) reaches the block size and in every flush with records pending; flush twice appends nothing; " +
	"non-trivial = history with >=1 size-triggered block, >=1 flush with pending records and >=1 flush with none; distinct by case JSON hash"

func init() { registerReplay("c09", func(c histCase) error { _, _, err := runC09(c); return err }) }

// recordSizes decodes n records from payload and returns each record's encoded size.
func recordSizes(s ref.Schema, payload []byte, n int) ([]int, []ref.Datum, error) {
	d := ref.Decoder{Buf: payload}
	var sizes []int
	var ds []ref.Datum
	for i := 0; i < n; i++ {
		start := d.Pos
		v, err := d.Decode(s)
		if err != nil {
			return nil, nil, fmt.Errorf("record %d of block: %v", i, err)
		}
		sizes = append(sizes, d.Pos-start)
		ds = append(ds, v)
	}
	if d.Pos != len(payload) {
		return nil, nil, fmt.Errorf("%d bytes left in block payload after %d records", len(payload)-d.Pos, n)
	}
	return sizes, ds, nil
}

func runC09(c histCase) (bool, []string, error) {
	entry := cat.Get(c.Cat)
	if entry == nil {
		return false, nil, fmt.Errorf("VERIF-INCONCLUSIVE unknown catalogue type %q", c.Cat)
	}
	ts := entry.Spec
	var sink bytes.Buffer
	enc, err := entry.NewEncoder(&sink, avro.Compression(c.Compression), c.BlockSize)
	if err != nil {
		return false, nil, fmt.Errorf("NewEncoderFor: %v", err)
	}
	header := append([]byte(nil), sink.Bytes()...)
	hl, err := ref.ParseFile(header)
	if err != nil {
		return false, nil, fmt.Errorf("header is not a valid container header: %v", err)
	}
	if len(hl.Blocks) != 0 || hl.HeaderEnd != len(header) {
		return false, nil, fmt.Errorf("NewEncoderFor wrote more than a header")
	}
	schema, err := ref.ParseSchema(hl.Meta["avro.schema"])
	if err != nil {
		return false, nil, fmt.Errorf("embedded schema: %v", err)
	}
	seen := sink.Len()
	var pending []spec.AbsVal
	var all []spec.AbsVal
	sizeTriggered, flushPending, flushEmpty := 0, 0, 0

	// parseNew checks what one call appended; returns whether a block was emitted
	parseNew := func(step int, what string) (bool, []int, error) {
		fresh := append([]byte(nil), sink.Bytes()[seen:]...)
		seen = sink.Len()
		if len(fresh) == 0 {
			return false, nil, nil
		}
		lay, err := ref.ParseFile(append(append([]byte(nil), header...), fresh...))
		if err != nil {
			return false, nil, fmt.Errorf("step %d (%s): appended bytes are not a well-formed block: %v", step, what, err)
		}
		if len(lay.Blocks) != 1 {
			return false, nil, fmt.Errorf("step %d (%s): one call appended %d blocks", step, what, len(lay.Blocks))
		}
		bl := lay.Blocks[0]
		if bl.Count == 0 {
			return false, nil, fmt.Errorf("step %d (%s): an empty block was written", step, what)
		}
		if int(bl.Count) != len(pending) {
			return false, nil, fmt.Errorf("step %d (%s): block declares %d records, %d were encoded since the previous block", step, what, bl.Count, len(pending))
		}
		sizes, ds, err := recordSizes(schema, bl.Decompressed, int(bl.Count))
		if err != nil {
			return false, nil, fmt.Errorf("step %d (%s): %v", step, what, err)
		}
		for i := range ds {
			if err := spec.Match(pending[i], spec.AbsOfDatum(schema, ds[i]), fmt.Sprintf("block record %d", i)); err != nil {
				return false, nil, fmt.Errorf("step %d (%s): block content differs from the records encoded: %v", step, what, err)
			}
		}
		return true, sizes, nil
	}
	checkCum := func(step int, sizes []int, byEncode bool) error {
		cum := 0
		for j, s := range sizes {
			cum += s
			last := j == len(sizes)-1
			if cum >= c.BlockSize && !last {
				return fmt.Errorf("step %d: buffered size reached %d >= block size %d after record %d of the block, but the block was only written %d records later", step, cum, c.BlockSize, j, len(sizes)-1-j)
			}
			if last && byEncode && cum < c.BlockSize {
				return fmt.Errorf("step %d: Encode wrote a block with only %d bytes buffered (block size %d)", step, cum, c.BlockSize)
			}
			if last && !byEncode && cum >= c.BlockSize {
				return fmt.Errorf("step %d: %d bytes were buffered (block size %d) yet no block was written until Flush", step, cum, c.BlockSize)
			}
		}
		return nil
	}
	var compSink bytes.Buffer
	var comp cat.Enc
	var compAll []spec.AbsVal
	for step, op := range c.Ops {
		if c.Companion > 0 && step == c.Companion-1 {
			if comp, err = entry.NewEncoder(&compSink, avro.Compression(c.Compression), 37+c.BlockSize/3); err != nil {
				return false, nil, fmt.Errorf("step %d: NewEncoderFor for a second file: %v", step, err)
			}
		}
		if comp != nil {
			if op.Flush {
				if step%2 == 0 {
					if err := comp.Flush(); err != nil {
						return false, nil, fmt.Errorf("step %d: Flush of the second file: %v", step, err)
					}
				}
			} else {
				v := spec.New(ts, op.Value)
				compAll = append(compAll, spec.Abs(ts, false, v.Elem()))
				if err := comp.Encode(v.UnsafePointer()); err != nil {
					return false, nil, fmt.Errorf("step %d: Encode into the second file: %v", step, err)
				}
			}
		}
		if op.Flush {
			had := len(pending)
			if err := enc.Flush(); err != nil {
				return false, nil, fmt.Errorf("step %d: Flush: %v", step, err)
			}
			emitted, sizes, err := parseNew(step, "flush")
			if err != nil {
				return false, nil, err
			}
			if had > 0 {
				flushPending++
				if !emitted {
					return false, nil, fmt.Errorf("step %d: Flush with %d records pending wrote nothing", step, had)
				}
				if err := checkCum(step, sizes, false); err != nil {
					return false, nil, err
				}
				pending = nil
			} else {
				flushEmpty++
				if emitted {
					return false, nil, fmt.Errorf("step %d: Flush with nothing pending wrote a block", step)
				}
			}
			continue
		}
		v := spec.New(ts, op.Value)
		a := spec.Abs(ts, false, v.Elem())
		pending = append(pending, a)
		all = append(all, a)
		if err := enc.Encode(v.UnsafePointer()); err != nil {
			return false, nil, fmt.Errorf("step %d: Encode: %v", step, err)
		}
		emitted, sizes, err := parseNew(step, "encode")
		if err != nil {
			return false, nil, err
		}
		if emitted {
			sizeTriggered++
			if err := checkCum(step, sizes, true); err != nil {
				return false, nil, err
			}
			pending = nil
		}
	}
	if comp != nil {
		if err := comp.Flush(); err != nil {
			return false, nil, fmt.Errorf("final Flush of the second file: %v", err)
		}
		_, _, blocks, err := ref.ReadRecords(compSink.Bytes())
		if err != nil {
			return false, nil, fmt.Errorf("the second file, written turn and turn about with the first, is not a valid file: %v", err)
		}
		i := 0
		for _, b := range blocks {
			for _, d := range b {
				if i >= len(compAll) {
					return false, nil, fmt.Errorf("the second file holds more records than were encoded into it (%d)", len(compAll))
				}
				if err := spec.Match(compAll[i], spec.AbsOfDatum(schema, d), fmt.Sprintf("second file, record %d", i)); err != nil {
					return false, nil, fmt.Errorf("the second file, written turn and turn about with the first, differs from what was encoded into it: %v", err)
				}
				i++
			}
		}
		if i != len(compAll) {
			return false, nil, fmt.Errorf("the second file holds %d records, %d were encoded into it", i, len(compAll))
		}
	}
	// final flush and whole-file check
	had := len(pending)
	if err := enc.Flush(); err != nil {
		return false, nil, fmt.Errorf("final Flush: %v", err)
	}
	emitted, sizes, err := parseNew(len(c.Ops), "final flush")
	if err != nil {
		return false, nil, err
	}
	if had > 0 {
		if !emitted {
			return false, nil, fmt.Errorf("final Flush with %d records pending wrote nothing", had)
		}
		if err := checkCum(len(c.Ops), sizes, false); err != nil {
			return false, nil, err
		}
	} else if emitted {
		return false, nil, fmt.Errorf("final Flush with nothing pending wrote a block")
	}
	if err := enc.Flush(); err != nil {
		return false, nil, fmt.Errorf("second Flush: %v", err)
	}
	if sink.Len() != seen {
		return false, nil, fmt.Errorf("a second Flush appended %d bytes", sink.Len()-seen)
	}
	_, _, blocks, err := ref.ReadRecords(sink.Bytes())
	if err != nil {
		return false, nil, fmt.Errorf("whole output is not a valid file: %v", err)
	}
	i := 0
	for _, b := range blocks {
		for _, d := range b {
			if i >= len(all) {
				return false, nil, fmt.Errorf("file holds more records than were encoded (%d)", len(all))
			}
			if err := spec.Match(all[i], spec.AbsOfDatum(schema, d), fmt.Sprintf("record %d", i)); err != nil {
				return false, nil, fmt.Errorf("whole-file check: %v", err)
			}
			i++
		}
	}
	if i != len(all) {
		return false, nil, fmt.Errorf("%d records encoded, file holds %d", len(all), i)
	}
	labels := []string{"codec_" + c.Compression, fmt.Sprintf("blocksize_%d", c.BlockSize), "type_" + c.Cat}
	if sizeTriggered > 0 {
		labels = append(labels, "size_triggered_block")
	}
	if flushPending > 0 {
		labels = append(labels, "flush_with_pending")
	}
	if flushEmpty > 0 {
		labels = append(labels, "flush_with_none")
	}
	return sizeTriggered > 0 && flushPending > 0 && flushEmpty > 0, labels, nil
}

func TestC09(t *testing.T) {
	col := stats.New("C09")
	col.Rule = c09Rule
	propCheck(t, col, "c09", func(t *rapid.T) histCase { return drawHistCase(t, false) }, runC09)
}

// ---------------------------------------------------------------------------
// C16

const c16Rule = "rapid draws of histories (as C09, map-free types so that two runs produce identical payload bytes; plus FileWriter-level histories WriteHeader, WriteBlock x n) and, for each history, " +
	"EVERY write index k = 0..W-1 of the fault-free run as a fault point: the k-th Write accepts a drawn j in [0,len] bytes and returns a sentinel error (alternately a sticky failure, after which every write fails, and a transient one, after which writes succeed again; every other history writes to a destination that also implements io.ByteWriter); " +
	"oracle: the call that issued write k returns an error with errors.Is(err, sentinel), no earlier call failed, no panic, and the bytes accepted are a prefix of the fault-free output " +
	"with its sync markers (positions known from the reference parser) replaced by the faulty run's marker; " +
	"evaluations = fault points; non-trivial = k > 0 with a partial acceptance in a history with >= 2 blocks; distinct by (history hash, k)"

func init() {
	registerReplay("c16", func(c histCase) error { _, _, err := runC16(c, nil); return err })
}

var errWriteSentinel = errors.New("injected write failure")

// writerErrors: what a real destination returns. A plain error value, an *fs.PathError
// around an errno (what *os.File gives), and an error that itself wraps another:
// the caller must be able to find exactly this value (errors.Is) in what the
// library returns, and through it whatever the value wraps.
var writerErrors = []error{
	errWriteSentinel,
	&fs.PathError{Op: "write", Path: "/data/out.avro", Err: syscall.ENOSPC},
	fmt.Errorf("upload part 7: %w", errWriteSentinel),
	io.EOF, // a pipe or connection whose other end has gone: just another error to a writer
	fmt.Errorf("peer closed: %w", io.EOF),
	io.ErrUnexpectedEOF,
	io.ErrShortWrite,
}

// faultWriter accepts everything until its k-th Write, of which it accepts j
// permille and returns errWriteSentinel; later writes fail too.
type faultWriter struct {
	buf    bytes.Buffer
	writes int
	failAt int // -1 never
	permil int
	fired  bool
	// sticky: every write after the failing one fails too (a broken pipe);
	// otherwise only the k-th write fails (a transient error) and a caller that
	// drops the error would carry on writing.
	sticky bool
	lens   []int
	err    error // the error returned by failing writes (default errWriteSentinel)
	// a second, later failing write with an error of its own (transient failures only)
	failAt2 int
	err2    error
	fired2  bool
}

// problems is an error whose dynamic type cannot be compared with == (a list of
// causes, as multi-error packages have them).
type problems []string

func (p problems) Error() string { return "problems: " + strings.Join(p, "; ") }

func (f *faultWriter) failure() error {
	if f.err != nil {
		return f.err
	}
	return errWriteSentinel
}

func (f *faultWriter) Write(p []byte) (int, error) {
	k := f.writes
	f.writes++
	f.lens = append(f.lens, len(p))
	if f.fired && f.sticky {
		return 0, f.failure()
	}
	if f.failAt >= 0 && k == f.failAt {
		f.fired = true
		n := len(p) * f.permil / 1000
		f.buf.Write(p[:n])
		return n, f.failure()
	}
	if f.err2 != nil && f.fired && !f.fired2 && k >= f.failAt2 {
		f.fired2 = true
		return 0, f.err2
	}
	return f.buf.Write(p)
}

// faultByteWriter is a faultWriter that also implements io.ByteWriter, as
// bufio.Writer and bytes.Buffer do: a single byte handed over through WriteByte
// is a write like any other and may fail.
type faultByteWriter struct{ *faultWriter }

func (f faultByteWriter) WriteByte(b byte) error {
	_, err := f.faultWriter.Write([]byte{b})
	return err
}

type callResult struct {
	name string
	err  error
}

// runHistory executes the history against w; it stops at the first error.
// It returns the per-call results and, for each call, how many writes had been
// issued when it returned.
func runHistory(c histCase, w io.Writer, fw *faultWriter) (calls []callResult, writesAfter []int, perr error) {
	return runHistoryOn(c, w, fw, true)
}

// runHistoryOn: with stopAtError false the caller carries on after a failed call
// (a transient failure, a retrying application).
func runHistoryOn(c histCase, w io.Writer, fw *faultWriter, stopAtError bool) (calls []callResult, writesAfter []int, perr error) {
	perr = protect(func() error {
		done := func(name string, err error) bool {
			calls = append(calls, callResult{name, err})
			writesAfter = append(writesAfter, fw.writes)
			return err != nil && (stopAtError || name == "NewEncoderFor" || name == "WriteHeader")
		}
		if c.FW {
			f, err := avro.NewFileWriter([]byte(`{"type":"record","name":"r","fields":[]}`), avro.Compression(c.Compression))
			if err != nil {
				return fmt.Errorf("NewFileWriter: %v", err)
			}
			if done("WriteHeader", f.WriteHeader(w)) {
				return nil
			}
			for i, p := range c.Payloads {
				if done(fmt.Sprintf("WriteBlock#%d", i), f.WriteBlock(w, c.Counts[i], p)) {
					return nil
				}
			}
			return nil
		}
		entry := cat.Get(c.Cat)
		ts := entry.Spec
		enc, err := entry.NewEncoder(w, avro.Compression(c.Compression), c.BlockSize)
		if done("NewEncoderFor", err) {
			return nil
		}
		for i, op := range c.Ops {
			if op.Flush {
				if done(fmt.Sprintf("Flush#%d", i), enc.Flush()) {
					return nil
				}
				continue
			}
			v := spec.New(ts, op.Value)
			if done(fmt.Sprintf("Encode#%d", i), enc.Encode(v.UnsafePointer())) {
				return nil
			}
		}
		done("Flush#final", enc.Flush())
		return nil
	})
	return
}

func runC16(c histCase, col *stats.Collector) (bool, []string, error) {
	if len(c.PayloadSizes) > 0 {
		ps := append([][]byte(nil), c.Payloads...)
		for i, n := range c.PayloadSizes {
			if n > 0 && i < len(ps) {
				b := make([]byte, n)
				x := uint64(n)*0x9e3779b97f4a7c15 + uint64(i)
				for j := range b {
					x ^= x << 13
					x ^= x >> 7
					x ^= x << 17
					b[j] = byte(x)
				}
				ps[i] = b
			}
		}
		c.Payloads = ps
	}
	// every other history writes to a destination that is also an io.ByteWriter
	byteWriter := (len(c.Ops)+len(c.Payloads)+len(c.J))%2 == 1
	dest := func(fw *faultWriter) io.Writer {
		if byteWriter {
			return faultByteWriter{fw}
		}
		return fw
	}
	clean := &faultWriter{failAt: -1}
	calls, _, perr := runHistory(c, dest(clean), clean)
	if perr != nil {
		return false, nil, fmt.Errorf("fault-free run: %v", perr)
	}
	for _, cr := range calls {
		if cr.err != nil {
			return false, nil, fmt.Errorf("fault-free run: %s failed: %v", cr.name, cr.err)
		}
	}
	full := append([]byte(nil), clean.buf.Bytes()...)
	lay, err := ref.ParseFile(full)
	if err != nil {
		return false, nil, fmt.Errorf("fault-free output is not a valid file: %v", err)
	}
	W := clean.writes
	hk := fileKey(mustJSON(c), 0, 'h')
	labels := []string{"codec_" + c.Compression}
	if c.FW {
		labels = append(labels, "filewriter_level")
	}
	multi := len(lay.Blocks) >= 2
	for k := 0; k < W; k++ {
		if c.Fault >= 0 && k != c.Fault {
			continue
		}
		permil := 0
		if len(c.J) > 0 {
			permil = c.J[k%len(c.J)]
		}
		fw := &faultWriter{failAt: k, permil: permil, sticky: (k+len(c.Ops)+len(c.Payloads))%2 == 0, err: writerErrors[(k/2+len(c.Ops))%len(writerErrors)]}
		calls, writesAfter, perr := runHistory(c, dest(fw), fw)
		fail := func(format string, args ...interface{}) (bool, []string, error) {
			return true, labels, fmt.Errorf("fault at write %d of %d (accepting %d permille): %s", k, W, permil, fmt.Sprintf(format, args...))
		}
		if perr != nil {
			return fail("%v", perr)
		}
		if !fw.fired {
			return fail("VERIF-INCONCLUSIVE the faulty run issued fewer writes than the fault-free run")
		}
		// the call during which write k was issued
		culprit := -1
		for i := range calls {
			before := 0
			if i > 0 {
				before = writesAfter[i-1]
			}
			if k >= before && k < writesAfter[i] {
				culprit = i
			}
		}
		if culprit < 0 {
			return fail("VERIF-INCONCLUSIVE cannot attribute the write to a call")
		}
		for i := 0; i < culprit; i++ {
			if calls[i].err != nil {
				return fail("%s returned %v before any write had failed", calls[i].name, calls[i].err)
			}
		}
		cerr := calls[culprit].err
		if cerr == nil {
			return fail("%s issued the failing write but returned nil", calls[culprit].name)
		}
		if !errors.Is(cerr, fw.failure()) {
			return fail("%s returned %q which does not wrap the writer's error %q (%T)", calls[culprit].name, cerr, fw.failure(), fw.failure())
		}
		var pe *fs.PathError
		if errors.As(fw.failure(), &pe) && (!errors.As(cerr, &pe) || !errors.Is(cerr, syscall.ENOSPC)) {
			return fail("%s returned %q: the writer's *fs.PathError / ENOSPC cannot be found in it", calls[culprit].name, cerr)
		}
		// prefix check with the sync marker substituted
		got := fw.buf.Bytes()
		want := append([]byte(nil), full...)
		limit := len(got)
		if len(got) >= lay.SyncStart+16 {
			marker := got[lay.SyncStart : lay.SyncStart+16]
			copy(want[lay.SyncStart:], marker)
			for _, b := range lay.Blocks {
				copy(want[b.PayloadEnd:b.End], marker)
			}
		} else if limit > lay.SyncStart {
			limit = lay.SyncStart
		}
		if len(got) > len(want) {
			return fail("the writer accepted %d bytes, the fault-free output has only %d", len(got), len(want))
		}
		if !bytes.Equal(got[:limit], want[:limit]) {
			i := 0
			for i < limit && got[i] == want[i] {
				i++
			}
			return fail("accepted bytes diverge from the fault-free output at offset %d", i)
		}
		if !fw.sticky && k+1 < W {
			// the failure was transient and the application carries on: a later write fails
			// too, with an error of its own. The call that issued THAT write reports THAT
			// error (and nothing panics on the way); what is accepted in between is not judged.
			var e2 error = fmt.Errorf("second failure, write %d: %w", k, io.ErrClosedPipe)
			if k%3 == 1 {
				e2 = problems{"disk full", fmt.Sprintf("write %d", k)}
			}
			fw2 := &faultWriter{failAt: k, permil: permil, err: fw.err, failAt2: k + 1 + (k/3+len(c.Ops))%6, err2: e2}
			if k%3 == 2 {
				// both failures are values of one uncomparable type
				fw2.err = problems{"first failure"}
				e2 = problems{"disk full", fmt.Sprintf("write %d", k)}
				fw2.err2 = e2
			}
			calls2, _, perr := runHistoryOn(c, dest(fw2), fw2, false)
			if perr != nil {
				return fail("carrying on after a transient failure (second failure %q): %v", e2, perr)
			}
			if fw2.fired2 {
				found := false
				for _, cr := range calls2 {
					if cr.err == nil {
						continue
					}
					var pr problems
					if errors.Is(cr.err, io.ErrClosedPipe) && errors.Is(e2, io.ErrClosedPipe) {
						found = true
					}
					if errors.As(cr.err, &pr) && reflect.DeepEqual(error(pr), e2) {
						found = true
					}
				}
				if !found {
					return fail("after a first, transient failure a later write failed with %q, but no call returned an error wrapping it (calls: %v)", e2, summariseCalls(calls2))
				}
				if col != nil {
					col.Label("second_failure_after_transient")
				}
			}
		}
		if col != nil {
			partial := permil > 0 && permil < 1000
			col.RecordKey(hk+uint64(k)*0x9e3779b97f4a7c15, k > 0 && partial && multi)
			col.Label("fault_in_" + callKind(calls[culprit].name))
		}
	}
	if col != nil {
		col.Label(labels[0])
		if multi {
			col.Label("multi_block_history")
		}
	}
	return multi && W > 1, labels, nil
}

func summariseCalls(calls []callResult) string {
	var sb strings.Builder
	for _, c := range calls {
		if c.err != nil {
			fmt.Fprintf(&sb, "%s: %v; ", c.name, c.err)
		}
	}
	return sb.String()
}

func callKind(name string) string {
	for i, r := range name {
		if r == '#' {
			return name[:i]
		}
	}
	return name
}

func mustJSON(v interface{}) []byte {
	b, err := jsonMarshal(v)
	if err != nil {
		panic(err)
	}
	return b
}

func drawC16Case(t *rapid.T) histCase {
	var c histCase
	if gen.Uniform(t, "level", 4) == 0 {
		c.FW = true
		c.Compression = drawCompression(t)
		n := gen.UniformRange(t, "nblocks", 0, 5)
		for i := 0; i < n; i++ {
			c.Payloads = append(c.Payloads, rapid.SliceOfN(rapid.Byte(), 0, 80).Draw(t, "payload"))
			c.Counts = append(c.Counts, gen.UniformRange(t, "count", 0, 200))
		}
		if n > 0 && gen.Uniform(t, "bigPayload", 6) == 0 {
			c.PayloadSizes = make([]int, n)
			c.PayloadSizes[gen.Uniform(t, "bigAt", n)] = []int{65536, 70001, 100000, 300000}[gen.Uniform(t, "bigSize", 4)]
		}
	} else {
		c = drawHistCase(t, true)
		if len(c.Ops) > 14 {
			c.Ops = c.Ops[:14]
		}
	}
	for i := 0; i < 8; i++ {
		c.J = append(c.J, []int{0, 1000, 500, 1, 999, 250, 750, 100}[gen.Uniform(t, "j", 8)])
	}
	c.Fault = -1
	return c
}

func TestC16(t *testing.T) {
	col := stats.New("C16")
	col.Rule = c16Rule
	defer col.Flush()
	n := 0
	rapid.Check(t, func(rt *rapid.T) {
		c := drawC16Case(rt)
		var nt bool
		err := protect(func() error {
			var e error
			nt, _, e = runC16(c, col)
			return e
		})
		n++
		if nt && n%5 == 1 {
			col.Sample(c)
		}
		if err != nil {
			col.Flush()
			failCase(rt, "C16", "c16", c, err)
		}
	})
	col.LabelN("histories", int64(n))
	_ = reflect.TypeOf
}
