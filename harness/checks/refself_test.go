package checks

import (
	"encoding/binary"
	"os"
	"testing"

	"pgregory.net/rapid"

	"verifh/gen"
	"verifh/ref"
	"verifh/spec"
)

var zeroTS spec.TypeSpec

// TestRefSelf checks the reference implementation before it is trusted as an
// oracle: encode/decode round trip over all encoding choices, agreement of the
// varint code with encoding/binary, and acceptance of the Avro files checked
// into the repository (written by other Avro implementations). A failure here
// is a harness defect: it is reported as inconclusive, never as a violation.
func TestRefSelf(t *testing.T) {
	rapid.Check(t, func(rt *rapid.T) {
		o := &gen.WireOpts{MaxDepth: 3, MultiUnion: true, Logical: true}
		s := gen.WireRecord(rt, o, 0)
		d := gen.WireDatum(rt, s, zeroTS, false)
		c := &ref.Choices{Bits: gen.ChoiceBytes(rt, "choices", gen.UniformRange(rt, "n", 0, 40))}
		b, err := ref.Encode(s, d, c)
		if err != nil {
			rt.Fatalf("VERIF-INCONCLUSIVE ref.Encode: %v", err)
		}
		back, err := ref.DecodeExact(s, b)
		if err != nil {
			rt.Fatalf("VERIF-INCONCLUSIVE ref.Decode of ref.Encode output: %v", err)
		}
		if diff := back.Diff(d, ""); diff != "" {
			rt.Fatalf("VERIF-INCONCLUSIVE ref round trip: %s", diff)
		}
		// schema render / parse
		doc := ref.Render(s, &ref.Layout{Bits: c.Bits, Extras: true})
		ps, err := ref.ParseSchema([]byte(doc))
		if err != nil || !ps.Equal(s) {
			rt.Fatalf("VERIF-INCONCLUSIVE ref schema render/parse: %v %s", err, doc)
		}
		// varints against encoding/binary
		v := rapid.Int64().Draw(rt, "v")
		if got, want := ref.AppendLong(nil, v), binary.AppendVarint(nil, v); string(got) != string(want) {
			rt.Fatalf("VERIF-INCONCLUSIVE ref.AppendLong(%d) = % x, encoding/binary % x", v, got, want)
		}
		rv, n, err := ref.ReadLong(binary.AppendVarint(nil, v))
		if err != nil || rv != v || n != len(binary.AppendVarint(nil, v)) {
			rt.Fatalf("VERIF-INCONCLUSIVE ref.ReadLong(%d) = %d,%d,%v", v, rv, n, err)
		}
		// container round trip, all codecs
		for _, codec := range []string{"null", "deflate", "snappy"} {
			fs := ref.FileSpec{Schema: []byte(ref.Render(s, nil)), Codec: codec, Blocks: []ref.Block{{Count: 1, Payload: b}, {Count: 2, Payload: append(append([]byte{}, b...), b...)}}}
			file, _, err := ref.WriteFile(fs)
			if err != nil {
				rt.Fatalf("VERIF-INCONCLUSIVE ref.WriteFile: %v", err)
			}
			_, _, blocks, err := ref.ReadRecords(file)
			if err != nil || len(blocks) != 2 || len(blocks[1]) != 2 || !blocks[1][1].Equal(d) {
				rt.Fatalf("VERIF-INCONCLUSIVE ref container round trip (%s): %v", codec, err)
			}
		}
	})
	for _, f := range []string{"/repo/testdata/avro1", "/repo/null/testdata/nullavro"} {
		data, err := os.ReadFile(f)
		if err != nil {
			continue // the file is not part of what is being verified
		}
		if _, _, blocks, err := ref.ReadRecords(data); err != nil || len(blocks) == 0 {
			t.Fatalf("VERIF-INCONCLUSIVE the reference reader rejects %s: %v", f, err)
		}
	}
}
