package checks

import (
	"bytes"
	"fmt"
	"math"
	"reflect"
	"testing"
	"time"

	"github.com/philpearl/avro"

	"verifh/cat"
	"verifh/iso"
	"verifh/ref"
	"verifh/spec"
	"verifh/stats"
)

// C05 — decoder construction is type-sound and decoding stays inside the destination.

const c05Rule = "complete enumeration, every run, of the matrix schema type {null, boolean, int, long, float, double, bytes, string, fixed(0,1,3,4,8,16,40), record, enum, array, map, union, date, timestamp-millis, timestamp-micros} x " +
	"Go kind {bool, every signed/unsigned integer width, uintptr, float32/64, complex64/128, string, []byte, [N]byte (N in 0,1,3,4,8,16,40), slices, Go arrays, string- and int-keyed maps, struct, pointer, interface, chan, func, unsafe.Pointer, time.Time, null.*} x " +
	"position {field, *field, **field, slice element, pointer slice element, map value} x canary width k in 1..8; the cell is field F of struct{Pre [k]byte; F G; Post [k]byte} placed between two 64-byte guards in a reflect-allocated wrapper; " +
	"per cell 6-10 in-range and out-of-range datums encoded by the reference encoder; evaluated in a worker subprocess; oracle: Schema.Codec returns an error, OR every decode leaves guards and Pre/Post byte-identical " +
	"and either returns an error or leaves in F exactly the datum's value, every bool holding the byte 0 or 1 (also for boolean bytes other than 0/1 fed as raw bodies); non-trivial = codec built and a value with a non-zero bit pattern decoded next to a canary; distinct by (schema type, Go kind, position, k)"

type c05Case struct {
	X      ref.Schema    `json:"x"` // schema of the cell
	G      spec.TypeSpec `json:"g"` // Go type of the cell
	GoType string        `json:"go_type"`
	Pos    string        `json:"pos"` // field, ptr, ptrptr, elem, mapval
	K      int           `json:"k"`
	Datums []ref.Datum   `json:"datums"`
	// Raw: extra record bodies given as bytes (boolean bytes other than 0/1)
	Raw [][]byte `json:"raw,omitempty"`
}

type c05Result struct {
	Built    bool `json:"built"`
	Decoded  int  `json:"decoded"`  // decodes that returned nil
	Rejected int  `json:"rejected"` // decodes that returned an error
}

func init() {
	registerIsoResult("c05", runC05InWorker)
	registerReplay("c05", func(c c05Case) error {
		w, err := iso.NewWorker()
		if err != nil {
			return fmt.Errorf("VERIF-INCONCLUSIVE cannot start worker: %v", err)
		}
		defer w.Close()
		_, err = c05Verdict(w, c)
		return err
	})
}

// cellSchemaAndType wraps the cell according to its position.
func (c c05Case) cellSchemaAndType() (ref.Schema, spec.TypeSpec) {
	x, g := c.X, c.G
	switch c.Pos {
	case "ptr":
		g = spec.Ptr(g)
	case "ptrptr":
		g = spec.Ptr(spec.Ptr(g))
	case "elem":
		x = ref.Schema{Kind: "array", Items: &c.X}
		g = spec.Slice(g)
	case "elemptr":
		// every element is allocated through the codec's New
		x = ref.Schema{Kind: "array", Items: &c.X}
		g = spec.Slice(spec.Ptr(g))
	case "mapval":
		x = ref.Schema{Kind: "map", Values: &c.X}
		g = spec.Map(g)
	}
	s := ref.Schema{Kind: "record", Name: "Cell", Fields: []ref.Field{{Name: "f", Type: x}}}
	t := spec.Struct(
		spec.FieldSpec{Go: "Pre", T: spec.BArray(c.K)},
		spec.FieldSpec{Go: "F", JSON: "f", T: g},
		spec.FieldSpec{Go: "Post", T: spec.BArray(c.K)},
	)
	return s, t
}

func (c c05Case) wrapDatum(d ref.Datum) ref.Datum {
	switch c.Pos {
	case "elem":
		// three elements, so that an over-wide store into one element lands in its neighbour
		d = ref.Datum{K: "array", Items: []ref.Datum{d, d, d}}
	case "elemptr":
		// different neighbours (the cell's other datums), so that a value written
		// over a neighbouring allocation shows
		items := []ref.Datum{d}
		for i := 0; i < 4 && i < len(c.Datums); i++ {
			items = append(items, c.Datums[(i*3+1)%len(c.Datums)])
		}
		items = append(items, d)
		d = ref.Datum{K: "array", Items: items}
	case "mapval":
		d = ref.Datum{K: "map", Keys: []string{"a", "b"}, Vals: []ref.Datum{d, d}}
	}
	return ref.Datum{K: "record", Fields: []ref.Datum{d}}
}

// pairKnown: the (schema kind, Go kind) pairs for which "the datum's value as a
// value of G" is defined by the documentation. For any other pair that the
// library nevertheless accepts only memory safety is checked.
func pairKnown(x ref.Schema, g spec.TypeSpec) bool {
	switch x.Kind {
	case "boolean":
		return g.K == "bool" || g.K == "nullBool"
	case "int", "long":
		if g.K == "time" {
			return x.LogicalType == "date" && x.Kind == "int" || x.Kind == "long"
		}
		switch g.K {
		case "int", "int16", "int32", "int64", "nullInt":
			return true
		}
	case "float":
		return g.K == "float32" || g.K == "nullFloat"
	case "double":
		return g.K == "float32" || g.K == "float64" || g.K == "nullFloat"
	case "bytes":
		return g.K == "bytes"
	case "string":
		return g.K == "string" || g.K == "nullString"
	case "fixed":
		return g.K == "barray" && g.N == x.Size
	case "record":
		return g.K == "struct"
	case "array":
		return g.K == "slice" && pairKnown(*x.Items, *g.Elem)
	case "map":
		return g.K == "map" && pairKnown(*x.Values, *g.Elem)
	case "union":
		if len(x.Branches) == 2 && x.Branches[0].Kind == "null" {
			return pairKnown(x.Branches[1], g.StripPtr())
		}
	case "null":
		return true
	}
	return false
}

// mustReject: pairs the property names as mismatched whatever the library supports
// (a fixed schema with an array of another size, or with an array whose elements are
// not bytes): building a decoder for them has to fail.
func mustReject(x ref.Schema, g spec.TypeSpec) string {
	switch x.Kind {
	case "fixed":
		if g.K == "barray" && g.N != x.Size {
			return "wrong fixed size"
		}
		if g.K == "array" {
			return "fixed data into an array whose elements are not bytes"
		}
	}
	// "unsupported integer widths" are not listed here: which widths are supported is the
	// library's choice, so for int8 and the unsigned kinds the check demands only what it
	// demands of every accepted pair (nothing outside the field is written).
	return ""
}

const canaryByte = 0xA5

func runC05InWorker(c c05Case) (c05Result, error) {
	var res c05Result
	agreeIgnoreAbsent = true
	defer func() { agreeIgnoreAbsent = false }()
	s, t := c.cellSchemaAndType()
	cellType := spec.Build(t)
	lib, err := avro.SchemaFromString(ref.Render(s, nil))
	if err != nil {
		return res, nil // refusing the schema is sound
	}
	codec, err := lib.Codec(reflect.New(cellType).Elem().Interface())
	if err != nil {
		return res, nil
	}
	res.Built = true
	if why := mustReject(c.X, c.G); why != "" {
		return res, fmt.Errorf("a decoder was built for %s into %s (%s): %s must be rejected when the decoder is built", ref.Render(c.X, nil), c.G.GoString(), c.Pos, why)
	}
	guard := reflect.ArrayOf(64, reflect.TypeOf(byte(0)))
	wrapType := reflect.StructOf([]reflect.StructField{
		{Name: "G0", Type: guard}, {Name: "S", Type: cellType}, {Name: "G1", Type: guard},
	})
	known := pairKnown(c.X, c.G)
	type input struct {
		d    ref.Datum
		rec  ref.Datum
		body []byte
		raw  bool
	}
	var inputs []input
	for _, d := range c.Datums {
		rec := c.wrapDatum(d)
		body, err := ref.Encode(s, rec, nil)
		if err != nil {
			return res, fmt.Errorf("VERIF-INCONCLUSIVE harness: %v", err)
		}
		inputs = append(inputs, input{d: d, rec: rec, body: body})
		// the same datum as other writers may encode it: collections as one sized
		// block, and split into several blocks
		for _, bits := range [][]byte{{0, 1, 0, 1, 0, 1, 0, 1}, {1, 0, 1, 1, 1, 0, 0, 1, 1, 1}} {
			alt, err := ref.Encode(s, rec, &ref.Choices{Bits: bits})
			if err == nil && !bytes.Equal(alt, body) {
				inputs = append(inputs, input{d: d, rec: rec, body: alt})
			}
		}
	}
	for _, rb := range c.Raw {
		inputs = append(inputs, input{d: ref.Datum{K: "bytes", S: rb}, body: rb, raw: true})
	}
	for di, in := range inputs {
		d, rec, body := in.d, in.rec, in.body
		w := reflect.New(wrapType).Elem()
		fill := func(v reflect.Value) {
			for i := 0; i < v.Len(); i++ {
				v.Index(i).SetUint(canaryByte)
			}
		}
		cell := w.Field(1)
		fill(w.Field(0))
		fill(w.Field(2))
		fill(cell.Field(0))
		fill(cell.Field(2))
		outside := func() error { return nil }
		var holder reflect.Value
		switch {
		case c.Pos == "field":
			outside = markOutside(c.G, c.X, cell.Field(1), "the struct decoded in place")
		case (c.Pos == "ptr" || c.Pos == "ptrptr") && di%2 == 1:
			// the caller prepared the destination: F already points at a value of its
			// own, which sits between guards and whose fields outside the schema are set
			holder = reflect.New(reflect.StructOf([]reflect.StructField{{Name: "G0", Type: guard}, {Name: "V", Type: spec.Build(c.G)}, {Name: "G1", Type: guard}})).Elem()
			fill(holder.Field(0))
			fill(holder.Field(2))
			outside = markOutside(c.G, c.X, holder.Field(1), "the value the destination pointer pointed at")
			p := holder.Field(1).Addr()
			if c.Pos == "ptrptr" {
				pp := reflect.New(p.Type())
				pp.Elem().Set(p)
				p = pp
			}
			cell.Field(1).Set(p)
		}
		rerr := codec.Read(avro.NewReadBuf(body), cell.Addr().UnsafePointer())
		if err := outside(); err != nil {
			return res, fmt.Errorf("datum %d (%v): decoding %s into %s (%s): %v", di, briefDatum(d), c.X.Kind, c.G.GoString(), c.Pos, err)
		}
		check := func(name string, v reflect.Value) error {
			for i := 0; i < v.Len(); i++ {
				if v.Index(i).Uint() != canaryByte {
					return fmt.Errorf("datum %d (%v): %s byte %d was overwritten with %#02x while decoding %s into %s (%s)",
						di, briefDatum(d), name, i, v.Index(i).Uint(), c.X.Kind, c.G.GoString(), c.Pos)
				}
			}
			return nil
		}
		for _, chk := range []struct {
			n string
			v reflect.Value
		}{{"guard before the struct", w.Field(0)}, {"sibling field Pre", cell.Field(0)}, {"sibling field Post", cell.Field(2)}, {"guard after the struct", w.Field(2)}} {
			if err := check(chk.n, chk.v); err != nil {
				return res, err
			}
		}
		if holder.IsValid() {
			for i, n := range []string{"guard before the prepared pointee", "", "guard after the prepared pointee"} {
				if n != "" {
					if err := check(n, holder.Field(i)); err != nil {
						return res, err
					}
				}
			}
		}
		if rerr != nil {
			res.Rejected++
			// refused part-way: what is left in the field is still a value of its type (a
			// slice whose length its array can hold, booleans that are 0 or 1), which the
			// caller can look at, overwrite or hand to the next decode
			if err := validRepr(cell.Field(1), "F"); err != nil {
				return res, fmt.Errorf("datum %d (%v): decode of %s into %s (%s) returned an error and left behind something that is not a value of the field's type: %v",
					di, briefDatum(d), c.X.Kind, c.G.GoString(), c.Pos, err)
			}
			continue
		}
		res.Decoded++
		if err := validRepr(cell.Field(1), "F"); err != nil {
			return res, fmt.Errorf("datum %d (%v): decode of %s into %s (%s) left a value that is not a value of the field's own type: %v",
				di, briefDatum(d), c.X.Kind, c.G.GoString(), c.Pos, err)
		}
		if in.raw {
			continue
		}
		if known && !holder.IsValid() {
			if err := agree(s, rec, t, false, cell, dirRead, "cell"); err != nil {
				return res, fmt.Errorf("datum %d (%v): decode of %s into %s (%s) returned no error but F does not hold the datum's value: %v",
					di, briefDatum(d), c.X.Kind, c.G.GoString(), c.Pos, err)
			}
		}
	}
	return res, nil
}

// markOutside fills the fields of v (a struct of type g) that the record schema x
// does not name with non-zero values and returns a function that verifies they
// still hold them: "sibling fields not named in the schema" also exist one level
// down, in a nested struct decoded in place or behind a pointer the caller prepared.
func markOutside(g spec.TypeSpec, x ref.Schema, v reflect.Value, where string) func() error {
	none := func() error { return nil }
	if x.Kind == "union" {
		for _, b := range x.Branches {
			if b.Kind == "record" {
				x = b
			}
		}
	}
	if g.K != "struct" || x.Kind != "record" || v.Kind() != reflect.Struct {
		return none
	}
	named := map[string]bool{}
	for _, f := range x.Fields {
		named[f.Name] = true
	}
	type kept struct {
		i    int
		copy reflect.Value
	}
	var ks []kept
	for i, f := range g.Fields {
		if f.Unexported || i >= v.NumField() || !v.Field(i).CanSet() {
			continue
		}
		if n := f.AvroName(); n != "" && named[n] {
			continue
		}
		junkFill(v.Field(i), 2)
		cp := reflect.New(v.Field(i).Type()).Elem()
		cp.Set(v.Field(i))
		ks = append(ks, kept{i, cp})
	}
	return func() error {
		for _, k := range ks {
			if !reflect.DeepEqual(k.copy.Interface(), v.Field(k.i).Interface()) {
				return fmt.Errorf("%s: field %s, which the schema does not name, was changed from %v to %v", where, g.Fields[k.i].Go, k.copy.Interface(), v.Field(k.i).Interface())
			}
		}
		return nil
	}
}

// validRepr checks that every bool reachable from v holds a legal bool
// representation (the byte 0 or 1): anything else is not a value of type bool.
func validRepr(v reflect.Value, path string) error {
	if v.Kind() == reflect.Slice {
		if v.Len() > v.Cap() || (v.Len() > 0 && v.IsNil()) {
			return fmt.Errorf("%s: slice of length %d, capacity %d, data %#x", path, v.Len(), v.Cap(), v.Pointer())
		}
	}
	switch v.Kind() {
	case reflect.Bool:
		if v.CanAddr() {
			if b := *(*byte)(v.Addr().UnsafePointer()); b > 1 {
				return fmt.Errorf("%s: bool field holds the byte %#02x", path, b)
			}
		}
	case reflect.Ptr:
		if !v.IsNil() {
			return validRepr(v.Elem(), path)
		}
	case reflect.Slice, reflect.Array:
		if v.Type().Elem().Kind() == reflect.Uint8 {
			return nil
		}
		for i := 0; i < v.Len(); i++ {
			if err := validRepr(v.Index(i), fmt.Sprintf("%s[%d]", path, i)); err != nil {
				return err
			}
		}
	case reflect.Struct:
		for i := 0; i < v.NumField(); i++ {
			if v.Type().Field(i).IsExported() {
				if err := validRepr(v.Field(i), path+"."+v.Type().Field(i).Name); err != nil {
					return err
				}
			}
		}
	case reflect.Map:
		for _, k := range v.MapKeys() {
			e := reflect.New(v.Type().Elem()).Elem()
			e.Set(v.MapIndex(k))
			if err := validRepr(e, path+"{"+k.String()+"}"); err != nil {
				return err
			}
		}
	}
	return nil
}

// rawBodies: record bodies for the cell that no conformant writer produces but
// that a decoder may meet: boolean bytes other than 0 and 1.
func (c c05Case) rawBodies() [][]byte {
	if c.X.Kind != "boolean" {
		return nil
	}
	var out [][]byte
	for _, b := range []byte{2, 0x80, 0xff} {
		switch c.Pos {
		case "elem", "elemptr":
			out = append(out, []byte{4, b, 1, 0}) // array of two items, end
		case "mapval":
			out = append(out, []byte{2, 2, 'k', b, 0})
		default:
			out = append(out, []byte{b})
		}
	}
	return out
}

func briefDatum(d ref.Datum) string {
	switch d.K {
	case "int", "long":
		return fmt.Sprint(d.I)
	case "float", "double":
		return fmt.Sprintf("%#x", d.F)
	case "string", "bytes", "fixed":
		return fmt.Sprintf("%q", d.S)
	}
	return d.K
}

func c05Verdict(w *iso.Worker, c c05Case) (c05Result, error) {
	var res c05Result
	resp, outcome, text := callTwice(w, "c05", c, 30*time.Second)
	if outcome != iso.Returned {
		return res, fmt.Errorf("decoding %s into %s (%s): %s", c.X.Kind, c.G.GoString(), c.Pos, iso.Describe(outcome, resp, text))
	}
	if resp.Panic != "" {
		// a panic while decoding a pair the builder accepted is "discovered when it runs"
		return res, fmt.Errorf("decoding %s into %s (%s) panicked: %s", c.X.Kind, c.G.GoString(), c.Pos, resp.Panic)
	}
	if resp.Err != "" {
		return res, fmt.Errorf("%s", resp.Err)
	}
	jsonUnmarshal(resp.Result, &res)
	return res, nil
}

func c05Schemas() []ref.Schema {
	long := ref.Prim("long")
	str := ref.Prim("string")
	dbl, flt, boolS := ref.Prim("double"), ref.Prim("float"), ref.Prim("boolean")
	out := []ref.Schema{
		ref.Prim("null"), ref.Prim("boolean"), ref.Prim("int"), ref.Prim("long"), ref.Prim("float"), ref.Prim("double"), ref.Prim("bytes"), ref.Prim("string"),
		{Kind: "record", Name: "Inner", Fields: []ref.Field{{Name: "A", Type: long}}},
		{Kind: "enum", Name: "E", Symbols: []string{"A", "B"}},
		// fields named like the inner fields of an embedded struct (see the catalogue's EmbedMid / EmbedPtr)
		{Kind: "record", Name: "Outer", Fields: []ref.Field{{Name: "x", Type: long}, {Name: "a", Type: long}, {Name: "y", Type: str}, {Name: "b", Type: ref.Nullable(str)}}},
		{Kind: "array", Items: &long},
		{Kind: "array", Items: &str},
		{Kind: "map", Values: &long},
		ref.Nullable(long),
		ref.Nullable(str),
		{Kind: "union", Branches: []ref.Schema{long, ref.Prim("null")}},
		// unions of more than two branches: some fit a given Go type, others do not
		{Kind: "union", Branches: []ref.Schema{ref.Prim("null"), ref.Prim("boolean"), long}},
		{Kind: "union", Branches: []ref.Schema{ref.Prim("null"), ref.Prim("int"), str}},
		{Kind: "union", Branches: []ref.Schema{long, str}},
		{Kind: "union", Branches: []ref.Schema{ref.Prim("null"), ref.Prim("int"), long}},
		{Kind: "union", Branches: []ref.Schema{ref.Prim("float"), ref.Prim("double")}},
		// arrays and maps of the fixed-width primitives
		{Kind: "array", Items: &dbl}, {Kind: "array", Items: &flt}, {Kind: "array", Items: &boolS}, {Kind: "map", Values: &dbl},
	}
	for _, n := range []int{0, 1, 3, 4, 8, 16, 40} {
		out = append(out, ref.Schema{Kind: "fixed", Name: fmt.Sprintf("fx%d", n), Size: n})
	}
	// a wide table (more columns than one machine word has bits), longs and a few strings
	wide := ref.Schema{Kind: "record", Name: "Wide"}
	for i := 0; i < 70; i++ {
		ft := long
		if i%16 == 15 {
			ft = str
		}
		wide.Fields = append(wide.Fields, ref.Field{Name: fmt.Sprintf("w%d", i), Type: ft})
	}
	out = append(out, wide)
	out = append(out,
		ref.Schema{Kind: "int", LogicalType: "date", ObjectForm: true},
		ref.Schema{Kind: "long", LogicalType: "timestamp-millis", ObjectForm: true},
		ref.Schema{Kind: "long", LogicalType: "timestamp-micros", ObjectForm: true},
		ref.Nullable(ref.Schema{Kind: "int", LogicalType: "date", ObjectForm: true}),
	)
	return out
}

func c05GoTypes() []spec.TypeSpec {
	var out []spec.TypeSpec
	for _, k := range []string{"bool", "int8", "int16", "int32", "int64", "int", "uint8", "uint16", "uint32", "uint64", "uint", "uintptr",
		"float32", "float64", "complex64", "complex128", "string", "bytes", "iface", "chan", "func", "unsafeptr",
		"time", "nullInt", "nullBool", "nullFloat", "nullString", "nullTime"} {
		out = append(out, spec.T(k))
	}
	for _, n := range []int{0, 1, 3, 4, 8, 16, 40} {
		out = append(out, spec.BArray(n))
	}
	i64, i16, str := spec.T("int64"), spec.T("int16"), spec.T("string")
	boolT, u64, pi64 := spec.T("bool"), spec.T("uint64"), spec.Ptr(spec.T("int64"))
	out = append(out,
		spec.Slice(i64), spec.Slice(i16), spec.Slice(str), spec.Slice(spec.T("float32")), spec.Slice(spec.T("float64")), spec.Slice(boolT), spec.Map(spec.T("float32")),
		spec.TypeSpec{K: "array", N: 2, Elem: &i64},
		// arrays of the byte size of a fixed schema in the list whose elements are not bytes
		spec.TypeSpec{K: "array", N: 4, Elem: &boolT}, spec.TypeSpec{K: "array", N: 2, Elem: &pi64}, spec.TypeSpec{K: "array", N: 1, Elem: &str},
		spec.TypeSpec{K: "array", N: 2, Elem: &u64}, spec.TypeSpec{K: "array", N: 8, Elem: &i16},
		spec.Map(i64), spec.Map(i16),
		spec.TypeSpec{K: "mapk", Key: "int", Elem: &i64},
		spec.Struct(spec.FieldSpec{Go: "A", T: i64}),
		spec.Struct(spec.FieldSpec{Go: "A", T: i16}, spec.FieldSpec{Go: "B", T: i16}),
		// a struct with fields of its own that no schema in the list names, around the one that is named
		spec.Struct(spec.FieldSpec{Go: "Keep", T: spec.BArray(3)}, spec.FieldSpec{Go: "A", T: i64}, spec.FieldSpec{Go: "Note", T: str}, spec.FieldSpec{Go: "Skipped", JSON: "-", T: i64}),
		spec.Ptr(i64),
		// a narrow view of the wide table: a few of its columns, and fields of its own between them
		spec.Struct(spec.FieldSpec{Go: "Own", T: spec.TypeSpec{K: "array", N: 2, Elem: &i64}}, spec.FieldSpec{Go: "W1", JSON: "w1", T: i64}, spec.FieldSpec{Go: "Mine", T: str},
			spec.FieldSpec{Go: "W66", JSON: "w66", T: i64}, spec.FieldSpec{Go: "W63", JSON: "w63", T: str}, spec.FieldSpec{Go: "Tail", T: spec.BArray(5)}),
		// named types with an embedded struct, by value and by pointer
		cat.Get("EmbedMid").Spec, cat.Get("EmbedPtr").Spec,
	)
	return out
}

// c05Datums: in-range and out-of-range values with all-distinct byte patterns
// so that a partial or over-wide store is visible.
func c05Datums(x ref.Schema, rot int) []ref.Datum {
	var out []ref.Datum
	switch x.Kind {
	case "null":
		out = []ref.Datum{ref.Null()}
	case "boolean":
		out = []ref.Datum{ref.Bool(true), ref.Bool(false)}
	case "int":
		if x.LogicalType == "date" {
			for _, v := range []int64{0, 1, -1, 573, 19000, -25567, 106751, 365, 20000, 12345} {
				out = append(out, ref.Datum{K: "int", I: v})
			}
			break
		}
		for _, v := range []int64{0, 1, -1, 127, 128, -129, 32767, 32768, -32769, 0x01020304, math.MaxInt32, math.MinInt32, 0x7a6b5c4d} {
			out = append(out, ref.Datum{K: "int", I: v})
		}
	case "long", "enum":
		if x.LogicalType != "" {
			for _, v := range []int64{0, 1, -1, 1700000000000, 86400000, -86400000, 0x0102030405, 951782400123, 4102444800000, 7} {
				out = append(out, ref.Datum{K: "long", I: v})
			}
			break
		}
		for _, v := range []int64{0, 1, -1, 127, 128, 32767, 32768, -32769, math.MaxInt32, math.MaxInt32 + 1, math.MinInt32 - 1, 0x0102030405060708, math.MaxInt64, math.MinInt64, 1 << 40} {
			out = append(out, ref.Datum{K: x.Kind, I: v})
		}
		if x.Kind == "enum" {
			out = []ref.Datum{{K: "enum", I: 0}, {K: "enum", I: 1}}
		}
	case "float":
		for _, v := range []uint32{0x3fc00000, 0x01020304, 0x7f800000, 0xffc00001, 0} {
			out = append(out, ref.Datum{K: "float", F: uint64(v)})
		}
	case "double":
		for _, v := range []uint64{0x3ff8000000000000, 0x0102030405060708, 0x7ff0000000000000, 0xfff8000000000001, 0, 0x47efffffe0000000, 0x47f0000000000000} {
			out = append(out, ref.Datum{K: "double", F: v})
		}
	case "bytes", "string":
		for _, v := range []string{"", "a", "abc", "0123456789abcdef0123456789abcdef01234567", "\x01\x02\x03\x04\x05\x06\x07\x08\x09"} {
			out = append(out, ref.Datum{K: x.Kind, S: []byte(v)})
		}
	case "fixed":
		b := make([]byte, x.Size)
		for i := range b {
			b[i] = byte(i + 1)
		}
		z := make([]byte, x.Size)
		out = []ref.Datum{{K: "fixed", S: b}, {K: "fixed", S: z}}
	case "record":
		per := make([][]ref.Datum, len(x.Fields))
		n := 0
		for i, f := range x.Fields {
			per[i] = c05Datums(f.Type, rot+i)
			if len(per[i]) > n {
				n = len(per[i])
			}
		}
		for j := 0; j < n; j++ {
			d := ref.Datum{K: "record"}
			for i := range x.Fields {
				d.Fields = append(d.Fields, per[i][(j+i)%len(per[i])])
			}
			out = append(out, d)
		}
	case "array":
		its := c05Datums(*x.Items, rot)
		out = []ref.Datum{{K: "array"}, {K: "array", Items: its[:1]}, {K: "array", Items: its}}
	case "map":
		its := c05Datums(*x.Values, rot)
		out = []ref.Datum{{K: "map"}, {K: "map", Keys: []string{"k"}, Vals: its[:1]}}
		d := ref.Datum{K: "map"}
		for i, it := range its {
			d.Keys = append(d.Keys, fmt.Sprintf("k%d", i))
			d.Vals = append(d.Vals, it)
		}
		out = append(out, d)
	case "union":
		// round robin over the branches, so that the cap below keeps every branch
		var per [][]ref.Datum
		for _, b := range x.Branches {
			per = append(per, c05Datums(b, rot))
		}
		for i := 0; i < 10; i++ {
			for bi := range per {
				if i < len(per[bi]) {
					out = append(out, ref.Union(bi, per[bi][i]))
				}
			}
		}
		if len(out) > 10 {
			out = out[:10]
		}
		return out
	}
	// rotate by the seed so that different runs start from different values; cap at 10
	if len(out) > 1 {
		r := rot % len(out)
		out = append(out[r:], out[:r]...)
	}
	if len(out) > 10 {
		out = out[:10]
	}
	return out
}

func TestC05(t *testing.T) {
	col := stats.New("C05")
	col.Rule = c05Rule
	col.Exhaustive = true
	defer col.Flush()
	si, sn := shard()
	nworkers := 1
	_ = nworkers
	w, err := iso.NewWorker()
	if err != nil {
		t.Fatalf("VERIF-INCONCLUSIVE cannot start worker: %v", err)
	}
	defer w.Close()
	positions := []string{"field", "ptr", "ptrptr", "elem", "elemptr", "mapval"}
	ks := []int{1, 2, 3, 4, 5, 6, 7, 8}
	cell := 0
	for _, x := range c05Schemas() {
		for _, g := range c05GoTypes() {
			for _, pos := range positions {
				cell++
				// every cell in every run; the canary width rotates with the seed (all widths in thorough, spread over shards)
				var widths []int
				if thorough() {
					for _, k := range ks {
						if (cell+k)%sn == si {
							widths = append(widths, k)
						}
					}
				} else {
					widths = []int{ks[(cell+int(seedVal()))%len(ks)]}
				}
				for _, k := range widths {
					c := c05Case{X: x, G: g, GoType: g.GoString(), Pos: pos, K: k, Datums: c05Datums(x, int(seedVal()))}
					c.Raw = c.rawBodies()
					res, err := c05Verdict(w, c)
					nt := res.Built && res.Decoded > 0
					labels := []string{"pos_" + pos}
					if res.Built {
						labels = append(labels, "codec_built")
						if !pairKnown(x, g) {
							labels = append(labels, "accepted_pair_outside_documented_table")
						}
					} else {
						labels = append(labels, "codec_refused")
					}
					col.Record(struct {
						X, G, Pos string
						K         int
					}{ref.Render(x, nil), g.GoString(), pos, k}, nt, labels...)
					col.LabelN("decodes_ok", int64(res.Decoded))
					col.LabelN("decodes_rejected", int64(res.Rejected))
					if err != nil {
						col.Flush()
						failCase(t, "C05", "c05", c, err)
					}
				}
			}
		}
	}
	col.Extra["matrix_cells"] = cell
}
