package checks

import (
	"bytes"
	"encoding/json"
	"fmt"
	"math"
	"os"
	"reflect"
	"runtime"
	"runtime/debug"
	"sort"
	"strings"
	"testing"
	"time"
	"unsafe"

	"github.com/philpearl/avro"
	"pgregory.net/rapid"

	"verifh/cat"
	"verifh/gen"
	"verifh/iso"
	"verifh/ref"
	"verifh/spec"
	"verifh/stats"
)

// C06 — malformed input yields errors, never panics, hangs or runaway allocation.

const c06Rule = "five entry points (container file -> ReadFile, record body -> Codec.Read and Codec.Skip, schema JSON -> SchemaFromString, decoder construction -> Schema.Codec of parsed schemas against catalogue targets and of arbitrary generated schemas against arbitrary generated Go types followed by a decode, timestamp text); " +
	"inputs: structure-aware mutations of valid encodings (every length / count / block size / union selector / metadata length / file block count / file block length token located by the reference decoder's spans is replaced by one of " +
	"-1, MinInt64, 0, 1, v+1, 2^31, 2^32, 2^62-1, MaxInt64, an 11-byte varint, a truncated varint; count and block size of a size-prefixed block set together to one large value), truncation at a drawn byte, single-bit flips, header variants (no codec, unknown codec, snappy block < 4 bytes), random bytes; " +
	"evaluated in a worker subprocess (6 GiB address space): verdict = value or error, no panic, no process death, answer within 20 s, growth of the heap footprint (MemStats.HeapSys) <= 32 MiB + 4096 x len(input) + 64 x (bytes the file's blocks expand to), bytes allocated in total (garbage included) <= 128 MiB + 4096 x (len(input) + bytes the blocks expand to); " +
	"arrays whose items encode to zero bytes and zero-width top-level records are excluded (legal unbounded amplification); " +
	"non-trivial = the input differs from a valid encoding in exactly one token, or is a strict prefix of one; distinct by (entry point, input bytes)"

type c06Case struct {
	Entry  string        `json:"entry"` // file, body, skip, schema, time
	Schema ref.Schema    `json:"schema,omitempty"`
	Target spec.TypeSpec `json:"target,omitempty"`
	GoType string        `json:"go_type,omitempty"`
	Data   []byte        `json:"data"`
	What   string        `json:"what"` // description of the mutation, for the reader
	// Valid (body, skip): the unaltered encoding; it is decoded with the same codec
	// object right after the altered one (a codec is built once and used for every
	// message: what an input that was refused leaves behind must not be paid for by the next).
	Valid []byte `json:"valid,omitempty"`
	// Projections: the file is also read into the target with every other top-level
	// field removed and into a struct with no fields at all (everything is skipped).
	Projections bool `json:"projections,omitempty"`
	// Big describes a file of more than a megabyte with one altered length; Data is
	// built from it on both sides of the worker pipe instead of being transported.
	Big *c06Big `json:"big,omitempty"`
}

// c06Big: a valid file {p: bytes} with one record of Pad incompressible bytes, then
// one length altered to Claim. What makes it different from the small files: a
// megabyte or more of genuine bytes follows the altered length.
type c06Big struct {
	Pad   int    `json:"pad"`
	Codec string `json:"codec"`
	Site  string `json:"site"` // block_len, block_count, schema_len, bytes_len, meta_count, none
	Claim int64  `json:"claim"`
	// Items > 0: instead, a valid file of records {a: array of {x: long}} with Items,
	// 1, Items/2 and 3 items, decoded into []*struct by a consumer that closes each
	// record's bank; the file is read twice. (Site "count" alters the first array's
	// item count to Claim.)
	Items int `json:"items,omitempty"`
	// BlockItems > 0 (with Items): every array is written as blocks of BlockItems
	// items, alternately plain and size-prefixed — legal, and what a streaming
	// writer that cannot buffer an array produces.
	BlockItems int `json:"block_items,omitempty"`
}

var c06ItemsTarget = spec.Struct(spec.FieldSpec{Go: "A", JSON: "a", T: spec.Slice(spec.Ptr(spec.Struct(spec.FieldSpec{Go: "X", JSON: "x", T: spec.T("int64")})))})

func buildItemsFile(b c06Big) ([]byte, error) {
	item := ref.Schema{Kind: "record", Name: "it", Fields: []ref.Field{{Name: "x", Type: ref.Prim("long")}}}
	schema := ref.Schema{Kind: "record", Name: "many", Fields: []ref.Field{{Name: "a", Type: ref.Schema{Kind: "array", Items: &item}}}}
	fs := ref.FileSpec{Schema: []byte(ref.Render(schema, nil)), Codec: b.Codec}
	copy(fs.Sync[:], "0123456789abcdef")
	for bi, n := range []int{b.Items, 1, b.Items / 2, 3} {
		// the body by hand (a datum tree of this size would dominate the measurement)
		count := int64(n)
		if bi == 0 && b.Site == "count" {
			count = b.Claim
		}
		var body []byte
		if b.BlockItems > 0 {
			body = make([]byte, 0, 8*n+16)
			for i, blk := 0, 0; i < n; blk++ {
				k := min(b.BlockItems, n-i)
				var items []byte
				for j := 0; j < k; j++ {
					items = ref.AppendLong(items, int64((i+j)*7+bi))
				}
				if blk%2 == 1 {
					body = ref.AppendLong(ref.AppendLong(body, int64(-k)), int64(len(items)))
				} else {
					body = ref.AppendLong(body, int64(k))
				}
				body = append(body, items...)
				i += k
			}
			body = ref.AppendLong(body, 0)
			fs.Blocks = append(fs.Blocks, ref.Block{Count: 1, Payload: body})
			continue
		}
		body = ref.AppendLong(make([]byte, 0, 4*n+16), count)
		if count < 0 {
			body = ref.AppendLong(body, 1) // sized block form: the byte size follows a negative count (not checked by readers that do not skip)
		}
		for i := 0; i < n; i++ {
			body = ref.AppendLong(body, int64(i*7+bi))
		}
		if n > 0 {
			body = ref.AppendLong(body, 0)
		}
		fs.Blocks = append(fs.Blocks, ref.Block{Count: 1, Payload: body})
	}
	file, _, err := ref.WriteFile(fs)
	return file, err
}

var c06BigTarget = spec.Struct(spec.FieldSpec{Go: "P", JSON: "p", T: spec.T("bytes")})

func buildBigFile(b c06Big) ([]byte, error) {
	schema := ref.Schema{Kind: "record", Name: "big", Fields: []ref.Field{{Name: "p", Type: ref.Prim("bytes")}}}
	pad := make([]byte, b.Pad)
	x := uint32(2463534242)
	for i := range pad {
		x ^= x << 13
		x ^= x >> 17
		x ^= x << 5
		pad[i] = byte(x)
	}
	body, err := ref.Encode(schema, ref.Datum{K: "record", Fields: []ref.Datum{ref.Bytes(pad)}}, nil)
	if err != nil {
		return nil, err
	}
	fs := ref.FileSpec{Schema: []byte(ref.Render(schema, nil)), Codec: b.Codec, Blocks: []ref.Block{{Count: 1, Payload: body}}}
	copy(fs.Sync[:], "0123456789abcdef")
	file, lay, err := ref.WriteFile(fs)
	if err != nil {
		return nil, err
	}
	splice := func(from, to int) []byte {
		out := append([]byte(nil), file[:from]...)
		out = ref.AppendLong(out, b.Claim)
		return append(out, file[to:]...)
	}
	bl := lay.Blocks[0]
	switch b.Site {
	case "none":
		return file, nil
	case "block_len":
		return splice(bl.CountEnd, bl.SizeEnd), nil
	case "block_count":
		return splice(bl.Start, bl.CountEnd), nil
	case "bytes_len":
		if b.Codec != "null" {
			return splice(bl.CountEnd, bl.SizeEnd), nil
		}
		_, n, _ := ref.ReadLong(file[bl.SizeEnd:])
		return splice(bl.SizeEnd, bl.SizeEnd+n), nil
	case "meta_count":
		return splice(4, 5), nil
	case "schema_len":
		// the length in front of the avro.schema value (or whichever value comes first)
		i := 5
		_, n, _ := ref.ReadLong(file[i:]) // key length
		kl, _, _ := ref.ReadLong(file[i:])
		i += n + int(kl)
		_, n, _ = ref.ReadLong(file[i:])
		return splice(i, i+n), nil
	}
	return nil, fmt.Errorf("unknown site %q", b.Site)
}

func init() {
	registerIso("c06", runC06InWorker)
	registerReplay("c06", func(c c06Case) error {
		w, err := iso.NewWorker()
		if err != nil {
			return fmt.Errorf("VERIF-INCONCLUSIVE cannot start worker: %v", err)
		}
		defer w.Close()
		return c06Verdict(w, c)
	})
}

var c06Targets = []string{"Simple", "Nested", "MapShapes", "Registered", "Omit", "PtrShapes", "Widths", "Empty"}

// runC06InWorker performs the call inside the worker. Any returned error or
// value is fine; the verdict is about panics, death, time and memory, which
// the parent observes.
func runC06InWorker(c c06Case) error {
	// collect early and often while the input is evaluated: the footprint measured
	// by the parent is then what the input needs at a time, not how far the
	// collector happened to lag behind short-lived garbage
	defer debug.SetGCPercent(debug.SetGCPercent(10))
	if os.Getenv("VERIF_C06_NOLIMIT") == "" {
		// and a soft memory limit a little above what is in use now: short-lived garbage
		// is collected before the footprint grows past it (however far a starved
		// collector lags behind on a saturated machine), memory the input really needs
		// at one time — one huge allocation, a large live set — grows it all the same
		var ms runtime.MemStats
		runtime.ReadMemStats(&ms)
		allow := int64(16<<20) + 2048*int64(len(c.Data))
		if c.Big != nil {
			allow = int64(32<<20) + 8*int64(c.Big.Pad) + 128*int64(c.Big.Items)
		}
		defer debug.SetMemoryLimit(debug.SetMemoryLimit(int64(ms.Sys-ms.HeapReleased) + allow))
	}
	if c.Big != nil && c.Big.Items > 0 {
		data, err := buildItemsFile(*c.Big)
		if err != nil {
			return fmt.Errorf("VERIF-INCONCLUSIVE harness: %v", err)
		}
		typ := spec.Build(c06ItemsTarget)
		for round := 0; round < 2; round++ {
			_ = avro.ReadFile(bytes.NewReader(data), reflect.New(typ).Elem().Interface(), func(val unsafe.Pointer, rb *avro.ResourceBank) error {
				rb.Close()
				return nil
			})
		}
		return nil
	}
	if c.Big != nil {
		data, err := buildBigFile(*c.Big)
		if err != nil {
			return fmt.Errorf("VERIF-INCONCLUSIVE harness: %v", err)
		}
		c.Data, c.Target, c.Entry = data, c06BigTarget, "file"
	}
	switch c.Entry {
	case "file":
		targets := []spec.TypeSpec{c.Target}
		if c.Projections {
			half := spec.TypeSpec{K: "struct"}
			for i, f := range c.Target.Fields {
				if i%2 == 1 && !f.Unexported {
					half.Fields = append(half.Fields, f)
				}
			}
			targets = append(targets, half, spec.TypeSpec{K: "struct"})
		}
		for _, ts := range targets {
			typ := spec.Build(ts)
			n := 0
			_ = avro.ReadFile(bytes.NewReader(c.Data), reflect.New(typ).Elem().Interface(), func(val unsafe.Pointer, rb *avro.ResourceBank) error {
				n++
				if n > 1<<22 {
					return fmt.Errorf("VERIF-INCONCLUSIVE more than 4M records delivered")
				}
				rb.Close()
				return nil
			})
		}
		// whatever became of that input, the process is as good as before: two
		// independent reads of a small valid file, the first record of the first read
		// kept (its bank open) across the second, still deliver and keep what the file holds
		if err := c06Canary(); err != nil {
			return fmt.Errorf("after the %s input (%s) had been dealt with: %v", c.Entry, c.What, err)
		}
	case "body", "skip":
		lib, err := avro.SchemaFromString(ref.Render(c.Schema, nil))
		if err != nil {
			return nil
		}
		typ := spec.Build(c.Target)
		codec, err := lib.Codec(reflect.New(typ).Elem().Interface())
		if err != nil {
			return nil
		}
		rb := avro.NewReadBuf(c.Data)
		if c.Entry == "skip" {
			_ = codec.Skip(rb)
		} else {
			_ = codec.Read(rb, reflect.New(typ).UnsafePointer())
		}
		if c.Valid != nil {
			if err := codec.Read(avro.NewReadBuf(c.Valid), reflect.New(typ).UnsafePointer()); err != nil {
				return fmt.Errorf("a valid record body, decoded with the same codec right after the altered one (%s), is refused: %v", c.What, err)
			}
		}
	case "pair":
		// an arbitrary generated schema against an arbitrary generated Go type:
		// construction must return a codec or an error, and a codec that was
		// built must survive both valid encodings of the schema and random bytes
		lib, err := avro.SchemaFromString(ref.Render(c.Schema, nil))
		if err != nil {
			return nil
		}
		typ := spec.Build(c.Target)
		codec, err := lib.Codec(reflect.New(typ).Elem().Interface())
		if err != nil {
			return nil
		}
		_ = codec.Read(avro.NewReadBuf(c.Data), reflect.New(typ).UnsafePointer())
		_ = codec.Skip(avro.NewReadBuf(c.Data))
	case "schema":
		s, err := avro.SchemaFromString(string(c.Data))
		if err != nil {
			return nil
		}
		_, _ = s.Marshal()
		for _, name := range c06Targets {
			_, _ = s.Codec(reflect.New(cat.Get(name).Type).Elem().Interface())
		}
		type anon struct {
			F0 int64             `json:"f0"`
			F1 string            `json:"f1"`
			F2 []int64           `json:"f2"`
			F3 map[string]string `json:"f3"`
			F4 [4]byte           `json:"f4"`
			F5 *float64          `json:"f5"`
		}
		_, _ = s.Codec(anon{})
	case "time":
		_, _, _, _, _ = decodeTime(c.Data)
	default:
		return fmt.Errorf("VERIF-INCONCLUSIVE unknown entry %q", c.Entry)
	}
	return nil
}

type c06CanaryRow struct {
	ID   int64    `json:"id"`
	Name string   `json:"name"`
	P    *int64   `json:"p"`
	Tags []string `json:"tags"`
}

var c06CanaryFile []byte

func c06Canary() error {
	if c06CanaryFile == nil {
		var buf bytes.Buffer
		enc, err := avro.NewEncoderFor[c06CanaryRow](&buf, avro.CompressionNull, 40)
		if err != nil {
			return fmt.Errorf("VERIF-INCONCLUSIVE %v", err)
		}
		for i := 0; i < 4; i++ {
			x := int64(900 + i)
			if err := enc.Encode(&c06CanaryRow{ID: int64(i), Name: fmt.Sprintf("canary-%d-abcdefghijklmnop", i), P: &x, Tags: []string{"t", fmt.Sprint(i)}}); err != nil {
				return fmt.Errorf("VERIF-INCONCLUSIVE %v", err)
			}
		}
		if err := enc.Flush(); err != nil {
			return fmt.Errorf("VERIF-INCONCLUSIVE %v", err)
		}
		c06CanaryFile = buf.Bytes()
	}
	check := func(r *c06CanaryRow, i int, when string) error {
		if r.ID != int64(i) || r.Name != fmt.Sprintf("canary-%d-abcdefghijklmnop", i) || r.P == nil || *r.P != int64(900+i) || len(r.Tags) != 2 || r.Tags[1] != fmt.Sprint(i) {
			return fmt.Errorf("a valid four-record file, %s: record %d is %+v", when, i, *r)
		}
		return nil
	}
	var kept c06CanaryRow
	var keptBank *avro.ResourceBank
	i := 0
	if err := avro.ReadFile(bytes.NewReader(c06CanaryFile), c06CanaryRow{}, func(p unsafe.Pointer, rb *avro.ResourceBank) error {
		r := (*c06CanaryRow)(p)
		if err := check(r, i, "first read"); err != nil {
			return err
		}
		if i == 0 {
			kept, keptBank = *r, rb
		} else {
			rb.Close()
		}
		i++
		return nil
	}); err != nil {
		return err
	}
	j := 0
	if err := avro.ReadFile(bytes.NewReader(c06CanaryFile), c06CanaryRow{}, func(p unsafe.Pointer, rb *avro.ResourceBank) error {
		if err := check((*c06CanaryRow)(p), j, "second read"); err != nil {
			return err
		}
		j++
		rb.Close()
		return nil
	}); err != nil {
		return err
	}
	if i != 4 || j != 4 {
		return fmt.Errorf("a valid four-record file delivered %d and %d records", i, j)
	}
	err := check(&kept, 0, "record kept (bank open) across an independent second read")
	keptBank.Close()
	return err
}

const c06Watchdog = 20 * time.Second

// fileAmplifies: the (possibly mutated) file carries a schema with an array of
// zero-width items or a zero-width top-level record. Such inputs are excluded
// by construction (DESIGN.md, C06): a few bytes may legally declare 2^62 items.
func fileAmplifies(data []byte) bool {
	lay, _ := ref.ParseHeader(data) // the header only: the blocks of a mutated file are not to be trusted with memory
	sj, ok := lay.Meta["avro.schema"]
	if !ok {
		return false
	}
	s, err := ref.ParseSchema(sj)
	if err != nil {
		// not a schema the reference parser accepts (an edited document: a fixed
		// without a size, a record without fields ...): a reader that makes something
		// of it all the same may arrive at zero-width items, so the document is read
		// leniently, every doubt counting as width zero
		return lenientAmplifies(sj)
	}
	return amplifies(s) || minWidth(s) == 0
}

// lenientAmplifies: could ANY reading of this JSON document hold an array whose
// items take no bytes, or be a zero-width record at the top?
func lenientAmplifies(doc []byte) bool {
	var root interface{}
	if json.Unmarshal(doc, &root) != nil {
		return false
	}
	amp := false
	var width func(v interface{}) int
	width = func(v interface{}) int {
		switch x := v.(type) {
		case string:
			switch x {
			case "boolean", "int", "long", "bytes", "string":
				return 1
			case "float":
				return 4
			case "double":
				return 8
			}
			return 0 // null, a name (of a type that may be zero-width), anything else
		case []interface{}:
			if len(x) == 0 {
				return 0
			}
			m := 1 << 30
			for _, b := range x {
				if w := width(b); w < m {
					m = w
				}
			}
			return m + 1
		case map[string]interface{}:
			t, _ := x["type"].(string)
			switch t {
			case "record", "error":
				total := 0
				fields, _ := x["fields"].([]interface{})
				for _, f := range fields {
					if fm, ok := f.(map[string]interface{}); ok {
						total += width(fm["type"])
					}
				}
				return total
			case "array":
				if width(x["items"]) == 0 {
					amp = true
				}
				return 1
			case "map":
				width(x["values"])
				return 1
			case "fixed":
				if n, ok := x["size"].(float64); ok && n >= 1 {
					return int(n)
				}
				return 0
			case "enum":
				return 1
			case "":
				if inner, ok := x["type"]; ok {
					return width(inner)
				}
				return 0
			}
			return width(t)
		}
		return 0
	}
	top := width(root)
	return amp || top == 0
}

var c06Excluded int64

func c06Verdict(w *iso.Worker, c c06Case) error {
	if c.Big == nil && c.Entry == "file" && fileAmplifies(c.Data) {
		c06Excluded++
		return nil
	}
	resp, outcome, text := callTwice(w, "c06", c, c06Watchdog)
	switch {
	case outcome == iso.Died:
		return fmt.Errorf("%s input (%s, %d bytes) killed the process: %s", c.Entry, c.What, len(c.Data), text)
	case outcome == iso.TimedOut:
		return fmt.Errorf("%s input (%s, %d bytes) did not terminate within %v, nor within %v in a second attempt: %s", c.Entry, c.What, len(c.Data), c06Watchdog, 3*c06Watchdog, text)
	case resp.Panic != "":
		return fmt.Errorf("%s input (%s, %d bytes) panicked: %s", c.Entry, c.What, len(c.Data), resp.Panic)
	case resp.Err != "":
		return fmt.Errorf("%s", resp.Err)
	}
	if os.Getenv("VERIF_C06_PRINT") != "" {
		fmt.Fprintf(os.Stderr, "c06: %s input of %d bytes: heap growth %d KiB, %d KiB allocated, %d ms\n", c.Entry, len(c.Data), resp.HeapGrowth>>10, resp.TotalAlloc>>10, resp.ElapsedNs/1e6)
	}
	limit := int64(32<<20) + 4096*int64(len(c.Data))
	if c.Entry == "file" && c.Big == nil {
		// a compressed block has to be expanded before it can be decoded, and one wire
		// byte can stand for a 24-byte value (a date read into a time.Time): what the
		// blocks expand to counts as input as well
		if lay, _ := ref.ParseFile(c.Data); len(lay.Blocks) > 0 {
			for _, bl := range lay.Blocks {
				limit += 64 * int64(len(bl.Decompressed))
			}
		}
	}
	if c.Big != nil {
		// incompressible content of known size: a handful of copies of the input is all a reader needs
		limit = int64(64<<20) + 16*int64(c.Big.Pad) + 256*int64(c.Big.Items)
	}
	// what is allocated in total (garbage included) stays proportional as well: a reader
	// that copies everything it has decoded so far once per block of an array allocates,
	// and spends, the square of the input
	expanded := int64(0)
	if c.Entry == "file" && c.Big == nil {
		if lay, _ := ref.ParseFile(c.Data); len(lay.Blocks) > 0 {
			for _, bl := range lay.Blocks {
				expanded += int64(len(bl.Decompressed))
			}
		}
	}
	totalLimit := int64(128<<20) + 4096*(int64(len(c.Data))+expanded)
	if c.Big != nil {
		totalLimit = int64(256<<20) + 64*int64(c.Big.Pad) + 4096*int64(c.Big.Items)
	}
	if resp.TotalAlloc > totalLimit {
		w.Restart()
		return fmt.Errorf("%s input (%s) of %d bytes (blocks expanding to %d) made the reader allocate %d MiB in total (limit %d MiB): not proportional to the input",
			c.Entry, c.What, len(c.Data), expanded, resp.TotalAlloc>>20, totalLimit>>20)
	}
	if resp.HeapGrowth > limit {
		w.Restart()
		return fmt.Errorf("%s input (%s) of %d bytes grew the heap footprint by %d MiB (limit %d MiB; %d MiB allocated in total)",
			c.Entry, c.What, len(c.Data), resp.HeapGrowth>>20, limit>>20, resp.TotalAlloc>>20)
	}
	if resp.HeapGrowth > 8<<20 {
		w.Restart() // keep the high-water mark low for the next measurement
	}
	return nil
}

// minWidth is the least number of bytes a datum of the schema occupies.
func minWidth(s ref.Schema) int {
	switch s.Kind {
	case "null":
		return 0
	case "fixed":
		return s.Size
	case "float":
		return 4
	case "double":
		return 8
	case "record":
		n := 0
		for _, f := range s.Fields {
			n += minWidth(f.Type)
		}
		return n
	case "union":
		m := math.MaxInt32
		for _, b := range s.Branches {
			if w := 1 + minWidth(b); w < m {
				m = w
			}
		}
		return m
	}
	return 1
}

// amplifies reports schemas excluded by construction: an array whose items can
// encode to zero bytes.
func amplifies(s ref.Schema) bool {
	if s.Kind == "array" && minWidth(*s.Items) == 0 {
		return true
	}
	if s.Items != nil && amplifies(*s.Items) {
		return true
	}
	if s.Values != nil && amplifies(*s.Values) {
		return true
	}
	for _, f := range s.Fields {
		if amplifies(f.Type) {
			return true
		}
	}
	for _, b := range s.Branches {
		if amplifies(b) {
			return true
		}
	}
	return false
}

var hostileVarints = [][]byte{
	ref.AppendLong(nil, -1), ref.AppendLong(nil, math.MinInt64), ref.AppendLong(nil, 0), ref.AppendLong(nil, 1),
	nil, // placeholder: v+1
	ref.AppendLong(nil, 1<<31), ref.AppendLong(nil, 1<<32), ref.AppendLong(nil, 1<<62-1), ref.AppendLong(nil, math.MaxInt64),
	{0xff, 0xff, 0xff, 0xff, 0xff, 0xff, 0xff, 0xff, 0xff, 0xff, 0x01}, // 11 bytes
	{0x80}, // truncated
	ref.AppendLong(nil, -2), ref.AppendLong(nil, 1<<40), ref.AppendLong(nil, 1<<28), ref.AppendLong(nil, 1<<24), ref.AppendLong(nil, -(1 << 40)),
	{0xff, 0xff, 0xff, 0xff, 0xff, 0xff, 0xff, 0xff, 0xff, 0x02}, // overflows 64 bits
	nil, nil, nil, nil, nil, // placeholders: v + 2^60, v + 2^61, v + 2^62, -(v + 2^62), v + 2^59: the true value plus a multiple of 2^64 / item size
}
var hostileNames = []string{"-1", "MinInt64", "0", "1", "v+1", "2^31", "2^32", "2^62-1", "MaxInt64", "11-byte varint", "truncated varint", "-2", "2^40", "2^28", "2^24", "-2^40", "overflowing varint",
	"v+2^60", "v+2^61", "v+2^62", "-(v+2^62)", "v+2^59"}

func replaceSpan(b []byte, sp ref.Span, which int) ([]byte, string) {
	rep := hostileVarints[which]
	abs := sp.Val
	if abs < 0 {
		abs = -abs
	}
	switch which {
	case 4:
		rep = ref.AppendLong(nil, sp.Val+1)
	case 17:
		rep = ref.AppendLong(nil, abs+1<<60)
	case 18:
		rep = ref.AppendLong(nil, abs+1<<61)
	case 19:
		rep = ref.AppendLong(nil, abs+1<<62)
	case 20:
		rep = ref.AppendLong(nil, -(abs + 1<<62))
	case 21:
		rep = ref.AppendLong(nil, abs+1<<59)
	}
	out := append([]byte{}, b[:sp.Start]...)
	out = append(out, rep...)
	out = append(out, b[sp.End:]...)
	return out, fmt.Sprintf("%s token at %d := %s", sp.Kind, sp.Start, hostileNames[which])
}

func varintSpans(spans []ref.Span) []ref.Span {
	var out []ref.Span
	for _, s := range spans {
		switch s.Kind {
		case "length", "count", "size", "selector", "varint":
			out = append(out, s)
		}
	}
	return out
}

// drawC06 draws one malformed (or at least arbitrary) input.
func drawC06(t *rapid.T) c06Case {
	switch gen.Uniform(t, "entry", 10) {
	case 0:
		return drawC06Schema(t)
	case 1:
		return c06Case{Entry: "time", Data: drawC18(t).S, What: "timestamp text"}
	case 2:
		return drawC06Pair(t)
	}
	// a valid wire case to start from
	o := &gen.WireOpts{MaxDepth: 3, MultiUnion: true, Drop: 10, Logical: true}
	var w wireCase
	for tries := 0; ; tries++ {
		w = drawWireCase(t, o)
		fits := true
		for _, d := range w.Datums {
			if !datumFits(w.Schema, d, w.Target) {
				fits = false
			}
		}
		if fits && !amplifies(w.Schema) && minWidth(w.Schema) > 0 && len(w.Datums) > 0 {
			break
		}
		if tries > 20 {
			w.Schema = ref.Schema{Kind: "record", Name: "R", Fields: []ref.Field{{Name: "f0", Type: ref.Prim("string")}, {Name: "f1", Type: ref.Schema{Kind: "array", Items: &ref.Schema{Kind: "long"}}}}}
			w.Target = spec.Struct(spec.FieldSpec{Go: "F0", JSON: "f0", T: spec.T("string")}, spec.FieldSpec{Go: "F1", JSON: "f1", T: spec.Slice(spec.T("int64"))})
			w.Datums = []ref.Datum{{K: "record", Fields: []ref.Datum{ref.Str("hello"), {K: "array", Items: []ref.Datum{ref.Long(1), ref.Long(2)}}}}}
			break
		}
	}
	c := c06Case{Schema: w.Schema, Target: w.Target, GoType: w.Target.GoString()}
	enc := ref.Encoder{C: &ref.Choices{Bits: w.Choices}}
	if gen.Uniform(t, "bodyOrFile", 2) == 0 {
		// record body
		c.Entry = "body"
		if rapid.Bool().Draw(t, "skip") {
			c.Entry = "skip"
		}
		body, err := enc.Encode(nil, w.Schema, w.Datums[0])
		if err != nil {
			panic(err)
		}
		c.Data, c.What = mutateBytes(t, body, func(b []byte) []ref.Span {
			_, spans, _, _ := ref.DecodeSpans(w.Schema, b)
			return varintSpans(spans)
		})
		c.Valid = body
		return c
	}
	c.Entry = "file"
	c.Schema = ref.Schema{} // the file carries it
	// mutate inside the payload (then re-frame and re-compress), or the container framing itself
	if gen.Uniform(t, "level", 3) == 0 {
		var blocks []ref.Block
		hit := gen.Uniform(t, "hitRecord", len(w.Datums))
		what := ""
		for i, d := range w.Datums {
			body, err := enc.Encode(nil, w.Schema, d)
			if err != nil {
				panic(err)
			}
			if i == hit {
				body, what = mutateBytes(t, body, func(b []byte) []ref.Span {
					_, spans, _, _ := ref.DecodeSpans(w.Schema, b)
					return varintSpans(spans)
				})
			}
			blocks = append(blocks, ref.Block{Count: 1, Payload: body})
		}
		fs := ref.FileSpec{Schema: []byte(ref.Render(w.Schema, nil)), Codec: w.Codec, Blocks: blocks}
		copy(fs.Sync[:], w.Sync)
		file, _, err := ref.WriteFile(fs)
		if err != nil {
			panic(err)
		}
		c.Data, c.What = file, "record "+fmt.Sprint(hit)+" of file: "+what
		return c
	}
	if gen.Uniform(t, "schemaEdit", 4) == 0 {
		// the data stays as it is, one attribute of the schema document in the header is
		// altered (a size, a type name, an items / values / fields / symbols member ...):
		// whatever the reader makes of the document, it must not trust it with memory
		// or with its read position, whether the fields are decoded or skipped
		doc, what := editSchemaDoc(t, ref.Render(w.Schema, nil))
		var blocks []ref.Block
		for _, d := range w.Datums {
			body, err := enc.Encode(nil, w.Schema, d)
			if err != nil {
				panic(err)
			}
			blocks = append(blocks, ref.Block{Count: 1, Payload: body})
		}
		fs := ref.FileSpec{Schema: []byte(doc), Codec: w.Codec, Blocks: blocks}
		copy(fs.Sync[:], w.Sync)
		file, _, err := ref.WriteFile(fs)
		if err != nil {
			panic(err)
		}
		c.Data, c.What, c.Projections = file, "schema document in the header edited: "+what, true
		return c
	}
	file, lay, _, err := buildWireFile(w)
	if err != nil {
		panic(err)
	}
	if gen.Uniform(t, "headerVariant", 8) == 0 {
		fs := ref.FileSpec{Schema: []byte(ref.Render(w.Schema, nil)), Codec: "snappy"}
		copy(fs.Sync[:], w.Sync)
		switch gen.Uniform(t, "variant", 5) {
		case 4:
			// a snappy block that declares a huge decoded length in its own header
			big := []uint64{1 << 26, 1 << 28, 1 << 31, 1<<32 - 1, 1 << 24}[gen.Uniform(t, "declared", 5)]
			var body []byte
			for v := big; ; v >>= 7 {
				if v < 0x80 {
					body = append(body, byte(v))
					break
				}
				body = append(body, byte(v)|0x80)
			}
			body = append(body, 0x00, 'x', 0x00, 0x00, 0x00, 0x00) // one literal byte, then a CRC
			out, l2, _ := ref.WriteFile(fs)
			out = append(out, ref.AppendLong(nil, 1)...)
			out = append(out, ref.AppendLong(nil, int64(len(body)))...)
			out = append(out, body...)
			out = append(out, l2.Sync[:]...)
			c.Data, c.What = out, fmt.Sprintf("snappy block of %d bytes declaring a decoded length of %d", len(body), big)
		case 0:
			// a snappy block shorter than its checksum
			n := gen.Uniform(t, "shortLen", 4)
			out, l2, _ := ref.WriteFile(fs)
			out = append(out, ref.AppendLong(nil, 1)...)
			out = append(out, ref.AppendLong(nil, int64(n))...)
			out = append(out, make([]byte, n)...)
			out = append(out, l2.Sync[:]...)
			c.Data, c.What = out, fmt.Sprintf("snappy block of %d bytes", n)
		case 1:
			fs.Codec, fs.CodecRaw = "null", []byte("lzo")
			c.Data, _, _ = ref.WriteFile(fs)
			c.What = "unknown codec"
		case 2:
			fs.NoSchema = true
			c.Data, _, _ = ref.WriteFile(fs)
			c.What = "no schema"
		default:
			fs.Schema = drawC06Schema(t).Data
			fs.Codec = "null"
			fs.Blocks = []ref.Block{{Count: 1, Payload: rapid.SliceOfN(rapid.Byte(), 0, 30).Draw(t, "payload")}}
			c.Data, _, _ = ref.WriteFile(fs)
			c.What = "arbitrary schema document in header + random block"
		}
		return c
	}
	c.Data, c.What = mutateBytes(t, file, func(b []byte) []ref.Span {
		// the container's own tokens: metadata count / lengths, block counts and sizes
		d := ref.Decoder{Buf: b, Pos: 4, Trace: true}
		var spans []ref.Span
		add := func(kind string, start, end int, v int64) {
			spans = append(spans, ref.Span{Kind: kind, Start: start, End: end, Val: v})
		}
		_ = d
		pos := 4
		rd := func(kind string) (int64, bool) {
			v, n, err := ref.ReadLong(b[pos:])
			if err != nil {
				return 0, false
			}
			add(kind, pos, pos+n, v)
			pos += n
			return v, true
		}
		// metadata map (written as one block by the reference writer)
		if cnt, ok := rd("count"); ok {
			for i := int64(0); i < cnt && i < 8; i++ {
				kl, ok := rd("length")
				if !ok {
					break
				}
				pos += int(kl)
				vl, ok := rd("length")
				if !ok {
					break
				}
				pos += int(vl)
			}
		}
		for _, bl := range lay.Blocks {
			v, n, _ := ref.ReadLong(b[bl.Start:])
			add("count", bl.Start, bl.Start+n, v)
			v2, n2, _ := ref.ReadLong(b[bl.CountEnd:])
			add("size", bl.CountEnd, bl.CountEnd+n2, v2)
		}
		return spans
	})
	return c
}

var hostileJSON = []string{`-1`, `-8`, `0`, `1`, `1e9`, `2147483648`, `9223372036854775807`, `-9223372036854775808`, `1.5`, `"3"`, `null`, `true`,
	`[]`, `{}`, `"long"`, `"string"`, `"bytes"`, `"null"`, `"boolean"`, `"double"`, `"nosuch"`, `["null","long"]`, `{"type":"array","items":"long"}`,
	`{"type":"map","values":"string"}`, `{"type":"fixed","name":"hx","size":-2}`, `{"type":"fixed","name":"hy","size":4611686018427387904}`, `{"type":"record","name":"hz","fields":[]}`}

// editSchemaDoc alters one member of one object (or one element of one array) of a
// schema document: the value is replaced by a hostile literal, or the member removed.
func editSchemaDoc(t *rapid.T, doc string) (string, string) {
	var root interface{}
	dec := json.NewDecoder(strings.NewReader(doc))
	dec.UseNumber()
	if err := dec.Decode(&root); err != nil {
		return doc, "unparsable (unchanged)"
	}
	// collect the editable sites
	type site struct {
		obj  map[string]interface{}
		key  string
		arr  []interface{}
		idx  int
		path string
	}
	var sites []site
	var walk func(v interface{}, path string)
	walk = func(v interface{}, path string) {
		switch x := v.(type) {
		case map[string]interface{}:
			keys := make([]string, 0, len(x))
			for k := range x {
				keys = append(keys, k)
			}
			sort.Strings(keys)
			for _, k := range keys {
				sites = append(sites, site{obj: x, key: k, path: path + "." + k})
				walk(x[k], path+"."+k)
			}
		case []interface{}:
			for i := range x {
				sites = append(sites, site{arr: x, idx: i, path: fmt.Sprintf("%s[%d]", path, i)})
				walk(x[i], fmt.Sprintf("%s[%d]", path, i))
			}
		}
	}
	walk(root, "$")
	if len(sites) == 0 {
		return doc, "no site (unchanged)"
	}
	// sizes first: they are the numbers a reader is most tempted to trust
	var sizes []int
	for i, st := range sites {
		if st.key == "size" {
			sizes = append(sizes, i)
		}
	}
	si := gen.Uniform(t, "editSite", len(sites))
	if len(sizes) > 0 && gen.Uniform(t, "editSize", 2) == 0 {
		si = sizes[gen.Uniform(t, "editSizeSite", len(sizes))]
	}
	st := sites[si]
	var what string
	if st.obj != nil && gen.Uniform(t, "editRemove", 5) == 0 {
		delete(st.obj, st.key)
		what = st.path + " removed"
	} else {
		lit := hostileJSON[gen.Uniform(t, "editLiteral", len(hostileJSON))]
		if st.obj != nil {
			st.obj[st.key] = json.RawMessage(lit)
		} else {
			st.arr[st.idx] = json.RawMessage(lit)
		}
		what = st.path + " := " + lit
	}
	out, err := json.Marshal(root)
	if err != nil {
		return doc, "unmarshalable (unchanged)"
	}
	return string(out), what
}

// mutateBytes applies one drawn mutation to a valid encoding.
func mutateBytes(t *rapid.T, valid []byte, spansOf func([]byte) []ref.Span) ([]byte, string) {
	switch gen.Uniform(t, "mutation", 10) {
	case 0: // truncation
		if len(valid) == 0 {
			return valid, "empty"
		}
		cut := gen.Uniform(t, "cut", len(valid))
		return append([]byte{}, valid[:cut]...), fmt.Sprintf("truncated to %d of %d bytes", cut, len(valid))
	case 1: // bit flip
		if len(valid) == 0 {
			return valid, "empty"
		}
		pos := gen.Uniform(t, "flipPos", len(valid))
		out := append([]byte{}, valid...)
		out[pos] ^= 1 << uint(gen.Uniform(t, "flipBit", 8))
		return out, fmt.Sprintf("bit flip in byte %d", pos)
	case 2: // random bytes
		return rapid.SliceOfN(rapid.Byte(), 0, 64).Draw(t, "random"), "random bytes"
	}
	spans := spansOf(valid)
	// two cooperating tokens: the count and the byte size of a size-prefixed
	// block set to the same large value (a bound derived from one of them is
	// only as good as the other)
	if gen.Uniform(t, "pairMutation", 4) == 0 {
		for i := 0; i+1 < len(spans); i++ {
			if spans[i].Kind == "count" && spans[i].Val < 0 && spans[i+1].Kind == "size" && spans[i+1].Start == spans[i].End {
				big := []int64{1 << 28, 1 << 40, 1<<62 - 1, 1 << 24, math.MaxInt64, 1 << 31}[gen.Uniform(t, "pairValue", 6)]
				out := append([]byte{}, valid[:spans[i].Start]...)
				out = ref.AppendLong(out, -big)
				out = ref.AppendLong(out, big)
				out = append(out, valid[spans[i+1].End:]...)
				return out, fmt.Sprintf("count and size tokens at %d := -%d / %d", spans[i].Start, big, big)
			}
		}
		// no size-prefixed block in this encoding: turn the first plain count into a sized one
		for i := range spans {
			if spans[i].Kind == "count" && spans[i].Val > 0 {
				big := []int64{1 << 28, 1 << 40, 1<<62 - 1, 1 << 24}[gen.Uniform(t, "pairValue", 4)]
				out := append([]byte{}, valid[:spans[i].Start]...)
				out = ref.AppendLong(out, -big)
				out = ref.AppendLong(out, big)
				out = append(out, valid[spans[i].End:]...)
				return out, fmt.Sprintf("count token at %d := -%d followed by an inserted size %d", spans[i].Start, big, big)
			}
		}
	}
	if len(spans) == 0 {
		pos := 0
		if len(valid) > 0 {
			pos = gen.Uniform(t, "insPos", len(valid))
		}
		out := append([]byte{}, valid[:pos]...)
		out = append(out, hostileVarints[gen.Uniform(t, "hostile", 17)]...)
		return append(out, valid[pos:]...), "hostile varint inserted"
	}
	sp := spans[gen.Uniform(t, "span", len(spans))]
	which := gen.Uniform(t, "hostile", len(hostileVarints))
	if sp.Kind == "count" && gen.Uniform(t, "congruentCount", 2) == 0 {
		which = 17 + gen.Uniform(t, "congruent", 5) // the items really are there: only a size computed from the count can tell
	}
	return replaceSpan(valid, sp, which)
}

// drawC06Pair: an arbitrary record schema (every kind, logical types, any
// unions) against an arbitrary Go struct whose field names match the schema's.
func drawC06Pair(t *rapid.T) c06Case {
	so := &gen.SchemaOpts{MaxDepth: 3, Enum: true, Logical: true, AnyUnion: true, ObjectPrims: true}
	var s ref.Schema
	for tries := 0; ; tries++ {
		s = gen.RecordSchema(t, so, 0)
		if (!amplifies(s) && minWidth(s) > 0) || tries > 10 {
			break
		}
	}
	if amplifies(s) || minWidth(s) == 0 {
		s = ref.Schema{Kind: "record", Name: "R", Fields: []ref.Field{{Name: "f0", Type: ref.Prim("long")}}}
	}
	ts := gen.StructType(t, gen.TypeOpts{MaxDepth: 3, MaxFields: 5, Wide: true, NoTags: true}, 1)
	for i := range ts.Fields {
		ts.Fields[i].JSON = fmt.Sprintf("f%d", i)
	}
	c := c06Case{Entry: "pair", Schema: s, Target: ts, GoType: ts.GoString(), What: "arbitrary schema x arbitrary Go type"}
	if rapid.Bool().Draw(t, "validBody") && !hasEnumOrUnknown(s) {
		d := gen.WireDatum(t, s, spec.TypeSpec{}, false)
		if b, err := ref.Encode(s, d, &ref.Choices{Bits: gen.ChoiceBytes(t, "choices", 8)}); err == nil {
			c.Data = b
			c.What += ", valid encoding"
			return c
		}
	}
	c.Data = rapid.SliceOfN(rapid.Byte(), 0, 48).Draw(t, "random")
	return c
}

func hasEnumOrUnknown(s ref.Schema) bool {
	if s.Kind == "enum" {
		return true
	}
	if s.Items != nil && hasEnumOrUnknown(*s.Items) {
		return true
	}
	if s.Values != nil && hasEnumOrUnknown(*s.Values) {
		return true
	}
	for _, f := range s.Fields {
		if hasEnumOrUnknown(f.Type) {
			return true
		}
	}
	for _, b := range s.Branches {
		if hasEnumOrUnknown(b) {
			return true
		}
	}
	return false
}

var schemaFragments = []string{
	`"array"`, `"map"`, `"fixed"`, `"record"`, `"enum"`, `"union"`, `"long"`, `"nosuchtype"`, `""`,
	`{"type":"array"}`, `{"type":"map"}`, `{"type":"fixed"}`, `{"type":"fixed","size":-1}`, `{"type":"fixed","size":1e9}`, `{"type":"fixed","size":9223372036854775807,"name":"x"}`,
	`{"type":"record"}`, `{"type":"record","fields":null}`, `{"type":"record","name":"r","fields":[{"name":"a"}]}`, `{"type":"record","name":"r","fields":[{"type":"long"}]}`,
	`["null"]`, `["null","null"]`, `["long"]`, `["string","string"]`, `["null","long","null"]`, `{"type":"array","items":["null"]}`, `{"type":"map","values":["null"]}`,
	`{"type":"enum","symbols":[]}`, `{"type":["null","long"]}`, `{"type":{"type":"long"}}`, `[]`, `[[]]`, `["null",["null","long"]]`, `{}`, `null`, `1`, `true`, `"\ud800"`,
	`{"type":"array","items":"array"}`, `{"type":"map","values":"map"}`, `{"type":"array","items":{"type":"array","items":"fixed"}}`,
	`{"type":"long","logicalType":5}`, `{"type":"long","logicalType":"timestamp-millis"}`, `{"type":"int","logicalType":"date"}`, `{"type":"string","logicalType":"date"}`,
	`{"type":"record","name":"r","fields":[{"name":"f0","type":"array"},{"name":"f1","type":"map"},{"name":"f2","type":"fixed"},{"name":"f3","type":"record"}]}`,
	`{"type":"record","name":"r","fields":[{"name":"id","type":"array"},{"name":"name","type":"map"},{"name":"score","type":"fixed"},{"name":"in","type":"record"},{"name":"t","type":"enum"}]}`,
	`{"type":"record","name":"r","fields":[{"name":"id","type":["long","null","string"]},{"name":"a","type":{"type":"fixed","name":"f","size":3}},{"name":"f4","type":{"type":"fixed","name":"f","size":5}}]}`,
	// references to named types, as other implementations write them: the specification's own
	// recursive example, a tree through an array, a map of itself, two records referring to each
	// other, a reference to an earlier sibling, full names, a reference to a name never defined
	`{"type":"record","name":"LongList","fields":[{"name":"value","type":"long"},{"name":"next","type":["null","LongList"]}]}`,
	`{"type":"record","name":"Tree","fields":[{"name":"id","type":"long"},{"name":"ins","type":{"type":"array","items":"Tree"}}]}`,
	`{"type":"record","name":"M","namespace":"a.b","fields":[{"name":"m","type":{"type":"map","values":"a.b.M"}}]}`,
	`{"type":"record","name":"A","fields":[{"name":"in","type":{"type":"record","name":"B","fields":[{"name":"a","type":["null","A"]},{"name":"b","type":["null","B"]}]}}]}`,
	`{"type":"record","name":"r","fields":[{"name":"a","type":{"type":"fixed","name":"f","size":3}},{"name":"f4","type":"f"},{"name":"in","type":{"type":"record","name":"Inner","fields":[{"name":"a","type":"long"}]}},{"name":"pin","type":["null","Inner"]}]}`,
	`{"type":"record","name":"r","fields":[{"name":"id","type":"r"}]}`,
	`{"type":"record","name":"r","fields":[{"name":"id","type":"NeverDefined"},{"name":"name","type":["null","also.NeverDefined"]}]}`,
	`"LongList"`, `["null","Tree"]`,
}

// deepNullable: a nullable array of nullable arrays ... depth levels deep, as the
// type of a field (named so that no catalogue target has it, or so that some do).
func deepNullable(depth int, inner string, field string) string {
	doc := inner
	for i := 0; i < depth; i++ {
		switch i % 3 {
		case 0:
			doc = `["null",{"type":"array","items":` + doc + `}]`
		case 1:
			doc = `["null",{"type":"map","values":` + doc + `}]`
		default:
			doc = `[{"type":"record","name":"n` + fmt.Sprint(i) + `","fields":[{"name":"v","type":` + doc + `}]},"null"]`
		}
	}
	return `{"type":"record","name":"deep","fields":[{"name":"id","type":"long"},{"name":"` + field + `","type":` + doc + `}]}`
}

func drawC06Schema(t *rapid.T) c06Case {
	if gen.Uniform(t, "deepNullable", 25) == 0 {
		depth := []int{12, 24, 40, 64, 100}[gen.Uniform(t, "deepDepth", 5)]
		field := []string{"zz_absent", "name", "ins", "f2"}[gen.Uniform(t, "deepField", 4)]
		return c06Case{Entry: "schema", Data: []byte(deepNullable(depth, `"long"`, field)), What: fmt.Sprintf("nullable collections nested %d levels deep", depth)}
	}
	switch gen.Uniform(t, "schemaCls", 4) {
	case 0:
		return c06Case{Entry: "schema", Data: []byte(rapid.SampledFrom(schemaFragments).Draw(t, "fragment")), What: "schema fragment"}
	case 1:
		// a fragment placed as a field type of a record whose field names match the catalogue targets
		names := []string{"id", "name", "score", "ok", "data", "in", "pin", "ins", "m", "mm", "t", "ni", "i", "s", "ps", "pm", "a", "f0", "f1", "f2", "f3", "f4", "f5"}
		doc := `{"type":"record","name":"r","fields":[`
		n := gen.UniformRange(t, "nf", 1, 4)
		for i := 0; i < n; i++ {
			if i > 0 {
				doc += ","
			}
			doc += `{"name":"` + rapid.SampledFrom(names).Draw(t, "fname") + `","type":` + rapid.SampledFrom(schemaFragments).Draw(t, "fragment") + `}`
		}
		return c06Case{Entry: "schema", Data: []byte(doc + "]}"), What: "fragments as field types"}
	case 2:
		return c06Case{Entry: "schema", Data: rapid.SliceOfN(rapid.Byte(), 0, 60).Draw(t, "random"), What: "random bytes as schema"}
	}
	c := drawC14(t)
	doc := c.Doc
	if c.Edit != "" {
		doc = applyEdit(doc, c)
	}
	return c06Case{Entry: "schema", Data: []byte(doc), What: "generated schema document (possibly edited)"}
}

func TestC06(t *testing.T) {
	col := stats.New("C06")
	col.Rule = c06Rule
	defer col.Flush()
	w, err := iso.NewWorker()
	if err != nil {
		t.Fatalf("VERIF-INCONCLUSIVE cannot start worker: %v", err)
	}
	defer w.Close()
	rapid.Check(t, func(rt *rapid.T) {
		c := drawC06(rt)
		nt := c.What != "random bytes" && c.What != "empty" && c.Entry != "time"
		col.Record(c, nt, "entry_"+c.Entry)
		if err := c06Verdict(w, c); err != nil {
			col.Flush()
			failCase(rt, "C06", "c06", c, err)
		}
	})
	col.Extra["worker_spawns"] = w.Spawns
	col.Extra["answers_only_at_second_attempt"] = isoSlowRetries
	col.Excluded = c06Excluded
}

// TestC06Big: files of one to two megabytes with one altered length. The quick
// tier takes a seeded sample of the grid, the thorough tier all of it.
func TestC06Big(t *testing.T) {
	col := stats.New("C06")
	col.Rule = c06Rule
	defer col.Flush()
	w, err := iso.NewWorker()
	if err != nil {
		t.Fatalf("VERIF-INCONCLUSIVE cannot start worker: %v", err)
	}
	defer w.Close()
	pads := []int{1<<20 + 4096, 3 << 19, 2<<20 + 7}
	sites := []string{"block_len", "block_count", "schema_len", "bytes_len", "meta_count", "none"}
	var grid []c06Big
	for _, pad := range pads {
		claims := []int64{1 << 30, 1 << 31, 1 << 40, 1 << 47, 1 << 48, 1 << 62, math.MaxInt64, -1, int64(pad) + 64, int64(pad) - 64, 5 << 20}
		for _, codec := range []string{"null", "deflate", "snappy"} {
			for _, site := range sites {
				for _, claim := range claims {
					grid = append(grid, c06Big{Pad: pad, Codec: codec, Site: site, Claim: claim})
					if site == "none" {
						break
					}
				}
			}
		}
	}
	for _, items := range []int{33000, 40000, 70000, 140000} {
		for _, codec := range []string{"null", "deflate", "snappy"} {
			grid = append(grid, c06Big{Codec: codec, Site: "none", Items: items})
			for _, claim := range []int64{int64(items) + 1, int64(items) * 2, 1 << 40, -int64(items)} {
				grid = append(grid, c06Big{Codec: codec, Site: "count", Items: items, Claim: claim})
			}
		}
	}
	step, off := 1, 0
	if !thorough() {
		step = 9
		off = int(((seedVal() % 9) + 9) % 9)
	}
	// valid files whose arrays arrive in very many small blocks (every run)
	var always []c06Big
	for ci, codec := range []string{"null", "deflate", "snappy"} {
		always = append(always, c06Big{Codec: codec, Site: "none", Items: 20000 + 1000*int(seedVal()%7), BlockItems: 1 + (ci+int(seedVal()))%3})
		if thorough() {
			always = append(always, c06Big{Codec: codec, Site: "none", Items: 120000, BlockItems: 1}, c06Big{Codec: codec, Site: "none", Items: 60000, BlockItems: 13})
		}
	}
	var picked []c06Big
	for i := off; i < len(grid); i += step {
		picked = append(picked, grid[i])
	}
	for _, b := range append(picked, always...) {
		c := c06Case{Entry: "file", What: fmt.Sprintf("%d KiB %s file, %s := %d", b.Pad>>10, b.Codec, b.Site, b.Claim), Big: &b}
		if b.Items > 0 {
			c.What = fmt.Sprintf("%s file of records with %d, 1, %d, 3 pointer items read twice by a consumer closing its banks, %s := %d", b.Codec, b.Items, b.Items/2, b.Site, b.Claim)
		}
		if b.BlockItems > 0 {
			c.What = fmt.Sprintf("valid %s file of records with %d, 1, %d, 3 pointer items, every array in blocks of %d items", b.Codec, b.Items, b.Items/2, b.BlockItems)
		}
		col.Record(c, b.Site != "none", "entry_bigfile", "big_"+b.Site)
		if err := c06Verdict(w, c); err != nil {
			col.Flush()
			failCase(t, "C06", "c06", c, err)
		}
	}
	col.Extra["worker_spawns_big"] = w.Spawns
}
