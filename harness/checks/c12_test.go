package checks

import (
	"bytes"
	"fmt"
	"os"
	"os/exec"
	"reflect"
	"runtime"
	"strings"
	"sync"
	"sync/atomic"
	"testing"
	"time"
	"unsafe"

	"github.com/philpearl/avro"
	avronull "github.com/philpearl/avro/null"
	avrotime "github.com/philpearl/avro/time"
	"pgregory.net/rapid"

	"verifh/cat"
	"verifh/gen"
	"verifh/ref"
	"verifh/spec"
	"verifh/stats"
)

// C12 — concurrent independent use is race-free and result-equivalent.
// Built with -race by the driver.

const c12Rule = "rapid draws of N in 2..8 goroutine programs of 5-40 ops over {SchemaForType+Marshal, Schema.Codec construction, Register+RegisterSchema of a goroutine-private type and use of it, " +
	"decode with a SHARED codec into a private target, encode with a SHARED codec into a private WriteBuf, ReadFile of a whole file, writing a whole file with a private Encoder[T], closing banks received over a channel from other goroutines, " +
	"timestamp parsing with fresh and repeated zone offsets}, drawn runtime.Gosched() points, a start barrier; plus 40 (thorough 150 per shard) fresh processes in which 8 goroutines make the very first RegisterCodecs() calls at once and use the types immediately; run under the race detector (-race, halt_on_error); " +
	"oracle: every op's result equals the result precomputed sequentially for the same op, and the race detector reports nothing; " +
	"non-trivial = >= 3 goroutines and >= 2 op kinds that touch the same shared structure (registry, bank pool, time-zone cache, one codec); distinct by case JSON hash. " +
	"Interleavings are sampled by the Go scheduler, the harness does not own the schedule."

type c12Op struct {
	Kind    string `json:"kind"` // schema, codec, register, decode, encode, readfile, closebanks, time
	Fixture int    `json:"fixture"`
	Yield   bool   `json:"yield,omitempty"`
	Arg     int    `json:"arg,omitempty"`
}

type c12Case struct {
	// Burst: every goroutine starts, straight after the barrier, with this same
	// op (so that first-use paths of one shared structure overlap).
	Burst    *c12Op    `json:"burst,omitempty"`
	Programs [][]c12Op `json:"programs"`
	Repeat   int       `json:"repeat,omitempty"` // replay: run the case this many times
}

func init() {
	registerReplay("c12", func(c c12Case) error {
		n := c.Repeat
		if n == 0 {
			n = 200
		}
		for i := 0; i < n; i++ {
			if _, _, err := runC12(c); err != nil {
				return err
			}
		}
		return nil
	})
}

// goroutine-private registered types
type (
	P0 struct{ V int64 }
	P1 struct{ V int64 }
	P2 struct{ V int64 }
	P3 struct{ V int64 }
	P4 struct{ V int64 }
	P5 struct{ V int64 }
	P6 struct{ V int64 }
	P7 struct{ V int64 }
)

var privateTypes = []reflect.Type{
	reflect.TypeOf(P0{}), reflect.TypeOf(P1{}), reflect.TypeOf(P2{}), reflect.TypeOf(P3{}),
	reflect.TypeOf(P4{}), reflect.TypeOf(P5{}), reflect.TypeOf(P6{}), reflect.TypeOf(P7{}),
}

// privCodec is distinguishable from the default mapping of struct{V int64}:
// it stores V xor a mask, so a lost or ignored registration shows in the bytes.
type privCodec struct{ avro.Int64Codec }

const privMask = 0x5a5a

func (privCodec) Omit(p unsafe.Pointer) bool { return false }

func (c privCodec) Write(w *avro.WriteBuf, p unsafe.Pointer) {
	v := *(*int64)(p) ^ privMask
	c.Int64Codec.Write(w, unsafe.Pointer(&v))
}

func (c privCodec) Read(r *avro.ReadBuf, p unsafe.Pointer) error {
	var v int64
	if err := c.Int64Codec.Read(r, unsafe.Pointer(&v)); err != nil {
		return err
	}
	*(*int64)(p) = v ^ privMask
	return nil
}

// c12Slow is a registered type whose codec builder takes its time (it yields the
// processor repeatedly): a codec build that contains it is in progress for a while.
type c12Slow int64

var c12SlowType = reflect.TypeOf(c12Slow(0))

func init() {
	avro.Register(c12SlowType, func(s avro.Schema, typ reflect.Type, omit bool) (avro.Codec, error) {
		for i := 0; i < 20; i++ {
			runtime.Gosched()
		}
		return avro.Int64Codec{}, nil
	})
	avro.RegisterSchema(c12SlowType, avro.Schema{Type: "long"})
}

// c12DeepType: [][]...[]c12Slow, depth levels deep.
var c12DeepTypes sync.Map

func c12DeepType(depth int) reflect.Type {
	if t, ok := c12DeepTypes.Load(depth); ok {
		return t.(reflect.Type)
	}
	t := c12SlowType
	for i := 0; i < depth; i++ {
		t = reflect.SliceOf(t)
	}
	t = reflect.StructOf([]reflect.StructField{{Name: "D", Type: t, Tag: `json:"d"`}})
	c12DeepTypes.Store(depth, t)
	return t
}

// fixtures: built once, sequentially
type c12Fixture struct {
	name     string
	ts       spec.TypeSpec
	typ      reflect.Type
	schema   []byte // marshalled SchemaForType
	lib      avro.Schema
	codec    avro.Codec // SHARED
	values   []reflect.Value
	bodies   [][]byte // Codec.Write of each value (deterministic: map-free types)
	abs      []spec.AbsVal
	file     []byte
	lay      ref.FileLayout // where the blocks of file are
	mapFree  bool
	timeStrs []string
	timeWant []time.Time
}

var (
	c12Once     sync.Once
	c12Fixtures []*c12Fixture
	c12Err      error
	// codecs of the logical time types, built once, shared by every goroutine
	c12Logical []c19Codec
	// a hundred one-record files, each under a schema text of its own
	c12ManyFiles [][]byte
)

// c12Owned: structs a goroutine read a file into through a pointer and goes on
// using (goroutine-private: indexed by goroutine, reset for every case).
type c12OwnedRec struct {
	v    reflect.Value // pointer to the struct
	f    *c12Fixture
	bank *avro.ResourceBank
}

var c12Owned [16][]c12OwnedRec

func c12Build() {
	for i := 0; i < 100; i++ {
		sch := ref.Schema{Kind: "record", Name: fmt.Sprintf("Many%d", i), Fields: []ref.Field{{Name: fmt.Sprintf("d%d", i), Type: ref.Prim("string")}, {Name: "v", Type: ref.Prim("long")}}}
		body, _ := ref.Encode(sch, ref.Datum{K: "record", Fields: []ref.Datum{ref.Str("x"), ref.Long(int64(i) + 5000)}}, nil)
		file, _, err := ref.WriteFile(ref.FileSpec{Schema: []byte(ref.Render(sch, nil)), Codec: "null", Blocks: []ref.Block{{Count: 1, Payload: body}}})
		if err != nil {
			c12Err = err
			return
		}
		c12ManyFiles = append(c12ManyFiles, file)
	}
	for _, l := range c19Logicals {
		cc, err := c19CodecFor(l, false)
		if err != nil {
			c12Err = err
			return
		}
		c12Logical = append(c12Logical, cc)
	}
	names := []string{"Simple", "Widths", "Registered", "Nested", "MapShapes", "PtrShapes", "Omit"}
	for fi, n := range names {
		e := cat.Get(n)
		f := &c12Fixture{name: n, ts: e.Spec, typ: e.Type}
		zero := reflect.New(e.Type).Elem().Interface()
		s, err := avro.SchemaForType(zero)
		if err != nil {
			c12Err = err
			return
		}
		f.lib = s
		if f.schema, err = s.Marshal(); err != nil {
			c12Err = err
			return
		}
		if f.codec, err = s.Codec(zero); err != nil {
			c12Err = err
			return
		}
		f.mapFree = !e.Spec.Contains(func(t spec.TypeSpec) bool { return t.K == "map" })
		// deterministic values: a fixed rapid seed per fixture
		var recs []spec.ValueSpec
		gen0 := rapid.Custom(func(t *rapid.T) []spec.ValueSpec { return gen.Records(t, e.Spec, 5, gen.ValueOpts{MaxElems: 3}) })
		recs = gen0.Example(fi + 1)
		for _, r := range recs {
			v := spec.New(e.Spec, r)
			f.values = append(f.values, v)
			f.abs = append(f.abs, spec.Abs(e.Spec, false, v.Elem()))
			wb := avro.NewWriteBuf(nil)
			f.codec.Write(wb, v.UnsafePointer())
			f.bodies = append(f.bodies, append([]byte(nil), wb.Bytes()...))
		}
		ec := encCase{Type: e.Spec, Records: recs, Compression: []string{"null", "deflate", "snappy"}[fi%3], BlockSize: 30}
		if f.file, _, err = encodeCase(ec); err != nil {
			c12Err = err
			return
		}
		if f.lay, err = ref.ParseFile(f.file); err != nil {
			c12Err = err
			return
		}
		for k := 0; k < 12; k++ {
			off := (fi*97 + k*53) % (14 * 60)
			if k%2 == 1 {
				off = -off
			}
			tm := time.Date(2001+k, time.Month(1+k%12), 1+k, k, k*3, k*4, k*1000, time.FixedZone("", off*60))
			str := tm.Format(time.RFC3339Nano)
			want, _ := time.Parse(time.RFC3339Nano, str)
			f.timeStrs = append(f.timeStrs, str)
			f.timeWant = append(f.timeWant, want)
		}
		c12Fixtures = append(c12Fixtures, f)
	}
}

func runC12(c c12Case) (bool, []string, error) {
	c12Once.Do(c12Build)
	if c12Err != nil {
		return false, nil, fmt.Errorf("VERIF-INCONCLUSIVE building fixtures: %v", c12Err)
	}
	if err := c12ExoticSetup(); err != nil {
		return false, nil, fmt.Errorf("VERIF-INCONCLUSIVE %v", err)
	}
	n := len(c.Programs)
	for i := range c12Owned {
		c12Owned[i] = nil
	}
	banks := make(chan *avro.ResourceBank, 4096)
	start := make(chan struct{})
	errs := make(chan error, n*64)
	var wg sync.WaitGroup
	// a struct type of this case's own that goroutine 0 builds codecs for (its build
	// is in progress for a while: it holds a c12Slow) while goroutine 1 registers a
	// codec for it. Whatever the builds in flight see, a build that STARTS after the
	// registration has returned honours it (checked when all goroutines are done).
	seq := c12FreshSeq.Add(1)
	contested := reflect.StructOf([]reflect.StructField{
		{Name: fmt.Sprintf("V%d", seq), Type: reflect.TypeOf(int64(0)), Tag: `json:"v"`},
		{Name: "S", Type: c12SlowType, Tag: `json:"s"`},
	})
	contestedHolder := reflect.StructOf([]reflect.StructField{{Name: "F", Type: contested, Tag: `json:"f"`}, {Name: "Fs", Type: reflect.SliceOf(contested), Tag: `json:"fs"`}})
	for g := 0; g < n; g++ {
		g := g
		prog := c.Programs[g]
		wg.Add(1)
		go func() {
			defer wg.Done()
			<-start
			switch g {
			case 0:
				for k := 0; k < 3; k++ {
					_ = protect(func() error {
						zero := reflect.New(contestedHolder).Elem().Interface()
						if s, err := avro.SchemaForType(zero); err == nil {
							_, _ = s.Codec(zero)
						}
						return nil
					})
				}
			case 1:
				avro.Register(contested, func(s avro.Schema, typ reflect.Type, omit bool) (avro.Codec, error) { return privCodec{}, nil })
				avro.RegisterSchema(contested, avro.Schema{Type: "long"})
			}
			// every goroutine first registers a FRESH type of its own, all released by
			// the same barrier (so the registrations overlap), and checks at the end
			// of its program that its registration is in force
			fresh := reflect.ArrayOf(int(c12FreshSeq.Add(1))+1000, reflect.TypeOf(int32(0)))
			avro.Register(fresh, func(s avro.Schema, typ reflect.Type, omit bool) (avro.Codec, error) { return privCodec{}, nil })
			avro.RegisterSchema(fresh, avro.Schema{Type: "long"})
			defer func() {
				if err := protect(func() error { return c12CheckFresh(fresh) }); err != nil {
					errs <- fmt.Errorf("goroutine %d: %v", g, err)
				}
			}()
			if c.Burst != nil {
				for k := 0; k < 3; k++ {
					if err := protect(func() error { return c12Run(g, *c.Burst, banks) }); err != nil {
						errs <- fmt.Errorf("goroutine %d burst op (%s): %v", g, c.Burst.Kind, err)
						return
					}
				}
			}
			for i, op := range prog {
				c12Progress.Add(1)
				if op.Yield {
					runtime.Gosched()
				}
				if err := protect(func() error { return c12Run(g, op, banks) }); err != nil {
					errs <- fmt.Errorf("goroutine %d op %d (%s on %s): %v", g, i, op.Kind, c12Fixtures[op.Fixture%len(c12Fixtures)].name, err)
					return
				}
			}
		}()
	}
	close(start)
	if err := c12Wait(&wg); err != nil {
		if strings.HasPrefix(err.Error(), "deadlock") && c12OnDeadlock != nil {
			// the goroutines, and whatever lock they wait for, stay as they are: no
			// further case can run in this process, so the case is reported as it
			// is (unshrunk) and the process ends here
			c12OnDeadlock(c, err)
		}
		return true, nil, err
	}
	if n >= 2 {
		if err := protect(func() error { return c12CheckContested(contested, contestedHolder) }); err != nil {
			return true, nil, err
		}
	}
	close(banks)
	for b := range banks {
		b.Close()
	}
	select {
	case err := <-errs:
		return true, nil, err
	default:
	}
	// classification
	shared := map[string]map[string]bool{}
	touch := func(structure, kind string) {
		if shared[structure] == nil {
			shared[structure] = map[string]bool{}
		}
		shared[structure][kind] = true
	}
	for _, p := range c.Programs {
		for _, op := range p {
			switch op.Kind {
			case "schema", "register":
				touch("registry", op.Kind)
			case "codec", "evolved", "exotic", "deepbuild":
				touch("registry", op.Kind)
			case "decode":
				touch("codec", op.Kind)
				touch("pool", op.Kind)
			case "encode":
				touch("codec", op.Kind)
			case "encodefile":
				touch("registry", op.Kind)
			case "readptr", "manyschemas":
				touch("pool", op.Kind)
				touch("registry", op.Kind)
			case "readabort", "readdamaged":
				touch("pool", op.Kind)
				touch("codec", op.Kind)
			case "readfile":
				touch("pool", op.Kind)
				touch("registry", op.Kind)
				touch("tz", op.Kind)
			case "closebanks":
				touch("pool", op.Kind)
			case "time":
				touch("tz", op.Kind)
			case "logical":
				touch("codec", op.Kind)
			}
		}
	}
	contended := false
	var labels []string
	for s, kinds := range shared {
		if len(kinds) >= 2 {
			contended = true
			labels = append(labels, "contended_"+s)
		}
	}
	return n >= 3 && contended, labels, nil
}

// Schemas with constructs the library may or may not support (references to named
// types, enums): whatever it does with them alone, it does the same when several
// goroutines use one shared Schema value and one shared, fresh codec.
type c12ExoticT struct {
	doc    string
	target interface{}
	value  func(k int) (reflect.Value, []byte) // a value of the target type and its reference encoding
}

type c12NodeT struct {
	V int64 `json:"v"`
}
type c12PT struct {
	X int64 `json:"x"`
}
type c12WithRefT struct {
	A c12PT `json:"a"`
	B c12PT `json:"b"`
}
type c12EnumT struct {
	E string `json:"e"`
}

var c12Suits = []string{"SPADES", "HEARTS", "DIAMONDS", "CLUBS"}

var c12Exotics = []c12ExoticT{
	{doc: `{"type":"record","name":"Node","fields":[{"name":"v","type":"long"},{"name":"next","type":["null","Node"]}]}`, target: c12NodeT{},
		value: func(k int) (reflect.Value, []byte) {
			v := reflect.New(reflect.TypeOf(c12NodeT{}))
			v.Elem().Field(0).SetInt(int64(k))
			return v, append(ref.AppendLong(nil, int64(k)), 0)
		}},
	{doc: `{"type":"record","name":"WithRef","fields":[{"name":"a","type":{"type":"record","name":"P","fields":[{"name":"x","type":"long"}]}},{"name":"b","type":"P"}]}`, target: c12WithRefT{},
		value: func(k int) (reflect.Value, []byte) {
			v := reflect.New(reflect.TypeOf(c12WithRefT{}))
			v.Elem().Field(0).Field(0).SetInt(int64(k))
			v.Elem().Field(1).Field(0).SetInt(int64(-k))
			return v, ref.AppendLong(ref.AppendLong(nil, int64(k)), int64(-k))
		}},
	{doc: `{"type":"record","name":"E","fields":[{"name":"e","type":{"type":"enum","name":"Suit","symbols":["SPADES","HEARTS","DIAMONDS","CLUBS"]}}]}`, target: c12EnumT{},
		value: func(k int) (reflect.Value, []byte) {
			v := reflect.New(reflect.TypeOf(c12EnumT{}))
			v.Elem().Field(0).SetString(c12Suits[k%4])
			return v, ref.AppendLong(nil, int64(k%4))
		}},
}

// per case: the shared Schema values, their serialisation before anything was
// built from them, and one shared codec each (nil where the library refuses)
type c12ExoticState struct {
	schema  avro.Schema
	before  []byte
	codec   avro.Codec
	refused bool
}

var c12ExoticNow []*c12ExoticState

func c12ExoticSetup() error {
	c12ExoticNow = nil
	for _, x := range c12Exotics {
		st := &c12ExoticState{}
		s, err := avro.SchemaFromString(x.doc)
		if err != nil {
			st.refused = true
			c12ExoticNow = append(c12ExoticNow, st)
			continue
		}
		st.schema = s
		if st.before, err = s.Marshal(); err != nil {
			return fmt.Errorf("Marshal: %v", err)
		}
		c, err := s.Codec(x.target)
		if err != nil {
			st.refused = true
		} else {
			st.codec = c
		}
		c12ExoticNow = append(c12ExoticNow, st)
	}
	return nil
}

func c12ExoticOp(i, k int) error {
	x, st := c12Exotics[i%len(c12Exotics)], c12ExoticNow[i%len(c12Exotics)]
	if st.before == nil {
		return nil // the document itself is refused
	}
	c, err := st.schema.Codec(x.target)
	if (err != nil) != st.refused {
		return fmt.Errorf("Schema.Codec on a shared schema (%s): alone it %s, now it returns err=%v", x.doc, map[bool]string{true: "was refused", false: "built"}[st.refused], err)
	}
	now, err := st.schema.Marshal()
	if err != nil || !bytes.Equal(now, st.before) {
		return fmt.Errorf("the shared schema value serialises differently after codecs were built from it (err=%v):\n was %s\n now %s", err, st.before, now)
	}
	for _, cc := range []avro.Codec{c, st.codec} {
		if cc == nil {
			continue
		}
		v, want := x.value(k)
		wb := avro.NewWriteBuf(nil)
		cc.Write(wb, v.UnsafePointer())
		if !bytes.Equal(wb.Bytes(), want) {
			return fmt.Errorf("shared codec for %s wrote % x, the value's encoding is % x", x.doc, wb.Bytes(), want)
		}
		back := reflect.New(v.Elem().Type())
		if err := cc.Read(avro.NewReadBuf(want), back.UnsafePointer()); err != nil || !reflect.DeepEqual(back.Elem().Interface(), v.Elem().Interface()) {
			return fmt.Errorf("shared codec for %s read % x as %+v (err %v), want %+v", x.doc, want, back.Elem().Interface(), err, v.Elem().Interface())
		}
	}
	return nil
}

var c12FreshSeq atomic.Int64

// c12Progress counts operations started, over all goroutines of the running case.
var c12Progress atomic.Int64

// c12Wait waits for the goroutines of a case. Every operation is finite and
// short, so a case whose goroutines make no progress at all for a long time while
// every one of them sits in a lock or semaphore wait is deadlocked: nothing can
// wake them. That (and only that) is reported as a violation; no progress for
// any other reason is inconclusive.
func c12Wait(wg *sync.WaitGroup) error {
	done := make(chan struct{})
	go func() { wg.Wait(); close(done) }()
	last, idle := c12Progress.Load(), 0
	for {
		select {
		case <-done:
			return nil
		case <-time.After(2 * time.Second):
		}
		if now := c12Progress.Load(); now != last {
			last, idle = now, 0
			continue
		}
		idle++
		if idle < 10 {
			continue
		}
		buf := make([]byte, 1<<20)
		buf = buf[:runtime.Stack(buf, true)]
		blocked, other := 0, 0
		for _, g := range strings.Split(string(buf), "\n\n") {
			if !strings.Contains(g, "checks.runC12.func") && !strings.Contains(g, "checks.c12Run") {
				continue
			}
			head := g
			if i := strings.IndexByte(g, '\n'); i >= 0 {
				head = g[:i]
			}
			if strings.Contains(head, "[sync.Mutex.Lock") || strings.Contains(head, "[sync.RWMutex.RLock") || strings.Contains(head, "[sync.RWMutex.Lock") ||
				strings.Contains(head, "[semacquire") || strings.Contains(head, "[sync.WaitGroup.Wait") || strings.Contains(head, "[sync.Cond.Wait") {
				blocked++
			} else {
				other++
			}
		}
		if blocked > 0 && other == 0 {
			text := string(buf)
			if len(text) > 6000 {
				text = text[:6000]
			}
			return fmt.Errorf("deadlock: for 20 s none of the case's goroutines started an operation and all %d that remain wait for a lock:\n%s", blocked, text)
		}
		if idle > 60 {
			return fmt.Errorf("VERIF-INCONCLUSIVE no progress for 120 s (%d goroutines blocked on locks, %d in other states)", blocked, other)
		}
	}
}

// c12CheckFresh: the type registered at the start of the goroutine's program is
// governed by its registered schema and codec.
func c12CheckFresh(fresh reflect.Type) error {
	holder := reflect.StructOf([]reflect.StructField{{Name: "P", Type: fresh, Tag: `json:"p"`}})
	zero := reflect.New(holder).Elem().Interface()
	s, err := avro.SchemaForType(zero)
	if err != nil {
		return fmt.Errorf("schema for a type registered concurrently with other registrations: %v", err)
	}
	if b, _ := s.Marshal(); string(b) != `{"type":"record","fields":[{"name":"p","type":"long"}]}` {
		return fmt.Errorf("schema for a concurrently registered type: %s", b)
	}
	c, err := s.Codec(zero)
	if err != nil {
		return fmt.Errorf("the codec registered for %s concurrently with other registrations is not in force: %v", fresh, err)
	}
	v := reflect.New(holder)
	v.Elem().Field(0).Index(0).SetInt(77)
	wb := avro.NewWriteBuf(nil)
	c.Write(wb, v.UnsafePointer())
	// privCodec reads the first 8 bytes of the value: elements 0 and 1 of the int32 array
	if want := ref.AppendLong(nil, 77^privMask); !bytes.Equal(wb.Bytes(), want) {
		return fmt.Errorf("concurrently registered type %s encoded as % x, its registered codec writes % x", fresh, wb.Bytes(), want)
	}
	return nil
}

func c12Run(g int, op c12Op, banks chan *avro.ResourceBank) error {
	f := c12Fixtures[op.Fixture%len(c12Fixtures)]
	vi := op.Arg % len(f.values)
	switch op.Kind {
	case "schema":
		s, err := avro.SchemaForType(reflect.New(f.typ).Elem().Interface())
		if err != nil {
			return err
		}
		b, err := s.Marshal()
		if err != nil {
			return err
		}
		if !bytes.Equal(b, f.schema) {
			return fmt.Errorf("schema differs from the sequential result:\n%s\n%s", b, f.schema)
		}
	case "codec":
		c, err := f.lib.Codec(reflect.New(f.typ).Elem().Interface())
		if err != nil || c == nil {
			return fmt.Errorf("Schema.Codec: %v", err)
		}
		// use the freshly built codec once
		out := reflect.New(f.typ)
		if err := c.Read(avro.NewReadBuf(f.bodies[vi]), out.UnsafePointer()); err != nil {
			return err
		}
		return spec.Match(f.abs[vi], spec.Abs(f.ts, false, out.Elem()), "fresh codec decode")
	case "exotic":
		return c12ExoticOp(op.Fixture, op.Arg+g)
	case "evolved":
		// the same Go type under another generation of its schema (same record name,
		// top-level fields in reverse order), built and used while other goroutines
		// work with the first generation: the reference decoder must find the value
		// under THAT schema in what the new codec writes
		evolved := fromLib(f.lib)
		for i, j := 0, len(evolved.Fields)-1; i < j; i, j = i+1, j-1 {
			evolved.Fields[i], evolved.Fields[j] = evolved.Fields[j], evolved.Fields[i]
		}
		lib2, err := avro.SchemaFromString(ref.Render(evolved, nil))
		if err != nil {
			return fmt.Errorf("SchemaFromString(evolved): %v", err)
		}
		c2, err := lib2.Codec(reflect.New(f.typ).Elem().Interface())
		if err != nil {
			return fmt.Errorf("Schema.Codec(evolved): %v", err)
		}
		wb := avro.NewWriteBuf(nil)
		c2.Write(wb, f.values[vi].UnsafePointer())
		d, err := ref.DecodeExact(evolved, append([]byte(nil), wb.Bytes()...))
		if err != nil {
			return fmt.Errorf("bytes written under the evolved schema are not an encoding of it: %v", err)
		}
		da := spec.AbsOfDatum(evolved, d)
		for i, j := 0, len(da.Fields)-1; i < j; i, j = i+1, j-1 { // back into the order of the Go struct
			da.Fields[i], da.Fields[j] = da.Fields[j], da.Fields[i]
			da.Names[i], da.Names[j] = da.Names[j], da.Names[i]
		}
		if err := spec.Match(f.abs[vi], da, "written under the evolved schema"); err != nil {
			return err
		}
		out := reflect.New(f.typ)
		rb := avro.NewReadBuf(wb.Bytes())
		if err := c2.Read(rb, out.UnsafePointer()); err != nil {
			return fmt.Errorf("reading back under the evolved schema: %v", err)
		}
		if err := spec.Match(f.abs[vi], spec.Abs(f.ts, false, out.Elem()), "read back under the evolved schema"); err != nil {
			return err
		}
		rb.ExtractResourceBank().Close()
	case "register":
		pt := privateTypes[g%len(privateTypes)]
		avro.Register(pt, func(s avro.Schema, typ reflect.Type, omit bool) (avro.Codec, error) { return privCodec{}, nil })
		avro.RegisterSchema(pt, avro.Schema{Type: "long"})
		holder := reflect.StructOf([]reflect.StructField{{Name: "P", Type: pt, Tag: `json:"p"`}, {Name: "Q", Type: reflect.SliceOf(pt), Tag: `json:"q"`}})
		s, err := avro.SchemaForType(reflect.New(holder).Elem().Interface())
		if err != nil {
			return err
		}
		b, _ := s.Marshal()
		if string(b) != `{"type":"record","fields":[{"name":"p","type":"long"},{"name":"q","type":{"type":"array","items":"long"}}]}` {
			return fmt.Errorf("schema for a goroutine-private registered type: %s", b)
		}
		c, err := s.Codec(reflect.New(holder).Elem().Interface())
		if err != nil {
			return err
		}
		v := reflect.New(holder)
		v.Elem().Field(0).Field(0).SetInt(int64(g) + 100)
		wb := avro.NewWriteBuf(nil)
		c.Write(wb, v.UnsafePointer())
		want := append(ref.AppendLong(nil, (int64(g)+100)^privMask), 0)
		if !bytes.Equal(wb.Bytes(), want) {
			return fmt.Errorf("goroutine-private registered type encoded as % x, its registered codec writes % x (registration lost or ignored)", wb.Bytes(), want)
		}
		back := reflect.New(holder)
		if err := c.Read(avro.NewReadBuf(wb.Bytes()), back.UnsafePointer()); err != nil || back.Elem().Field(0).Field(0).Int() != int64(g)+100 {
			return fmt.Errorf("goroutine-private registered type read back as %d (err %v)", back.Elem().Field(0).Field(0).Int(), err)
		}
	case "decode":
		out := reflect.New(f.typ)
		rb := avro.NewReadBuf(f.bodies[vi])
		if err := f.codec.Read(rb, out.UnsafePointer()); err != nil {
			return err
		}
		if rb.Len() != 0 {
			return fmt.Errorf("%d bytes left", rb.Len())
		}
		if err := spec.Match(f.abs[vi], spec.Abs(f.ts, false, out.Elem()), "shared codec decode"); err != nil {
			return err
		}
		rb.ExtractResourceBank().Close()
	case "encode":
		wb := avro.NewWriteBuf(nil)
		f.codec.Write(wb, f.values[vi].UnsafePointer())
		if f.mapFree {
			if !bytes.Equal(wb.Bytes(), f.bodies[vi]) {
				return fmt.Errorf("shared codec wrote % x, sequentially % x", wb.Bytes(), f.bodies[vi])
			}
		} else if len(wb.Bytes()) != len(f.bodies[vi]) {
			return fmt.Errorf("shared codec wrote %d bytes, sequentially %d", wb.Len(), len(f.bodies[vi]))
		}
	case "readfile":
		i := 0
		err := avro.ReadFile(bytes.NewReader(f.file), reflect.New(f.typ).Elem().Interface(), func(val unsafe.Pointer, rb *avro.ResourceBank) error {
			if i >= len(f.abs) {
				return fmt.Errorf("more records than written")
			}
			if err := spec.Match(f.abs[i], spec.Abs(f.ts, false, reflect.NewAt(f.typ, val).Elem()), fmt.Sprintf("record[%d]", i)); err != nil {
				return err
			}
			i++
			select {
			case banks <- rb: // closed by whichever goroutine drains the channel
			default:
				rb.Close()
			}
			return nil
		})
		if err != nil {
			return err
		}
		if i != len(f.abs) {
			return fmt.Errorf("%d records read, %d written", i, len(f.abs))
		}
	case "manyschemas":
		// files under many different schema texts (more than any small cache holds), a few per operation
		for k := 0; k < 6; k++ {
			i := (g*37 + op.Arg*11 + k*17 + int(c12Progress.Load())) % len(c12ManyFiles)
			var got int64 = -1
			type view struct {
				V int64 `json:"v"`
			}
			err := avro.ReadFile(bytes.NewReader(c12ManyFiles[i]), view{}, func(val unsafe.Pointer, rb *avro.ResourceBank) error {
				got = (*view)(val).V
				rb.Close()
				return nil
			})
			if err != nil || got != int64(i)+5000 {
				return fmt.Errorf("file %d of a hundred with schemas of their own: read %d (err %v), it holds %d", i, got, err, i+5000)
			}
		}
	case "readptr":
		// a file read through a pointer into a struct the goroutine owns and goes on
		// using: it holds the file's last record, now and after whatever else happens
		for _, o := range c12Owned[g%len(c12Owned)] {
			if len(o.f.abs) > 0 {
				if err := spec.Match(o.f.abs[len(o.f.abs)-1], spec.Abs(o.f.ts, false, o.v.Elem()), "a struct this goroutine read a file into earlier, through a pointer"); err != nil {
					return fmt.Errorf("changed behind the goroutine's back: %v", err)
				}
			}
		}
		if len(f.abs) == 0 {
			return nil
		}
		p := reflect.New(f.typ)
		var last *avro.ResourceBank
		if err := avro.ReadFile(bytes.NewReader(f.file), p.Interface(), func(val unsafe.Pointer, rb *avro.ResourceBank) error {
			if last != nil {
				last.Close()
			}
			last = rb
			return nil
		}); err != nil {
			return err
		}
		if err := spec.Match(f.abs[len(f.abs)-1], spec.Abs(f.ts, false, p.Elem()), "the struct a file was read into through a pointer"); err != nil {
			return err
		}
		if len(c12Owned[g%len(c12Owned)]) < 6 {
			c12Owned[g%len(c12Owned)] = append(c12Owned[g%len(c12Owned)], c12OwnedRec{p, f, last})
		}
	case "deepbuild":
		// a codec for a type nested some two thousand levels deep: builds, as it does alone
		typ := c12DeepType(2100 + 97*(op.Arg%9))
		zero := reflect.New(typ).Elem().Interface()
		s, err := avro.SchemaForType(zero)
		if err != nil {
			return fmt.Errorf("SchemaForType of a deeply nested type fails here, alone it succeeds: %v", err)
		}
		if _, err := s.Codec(zero); err != nil {
			return fmt.Errorf("Schema.Codec of a deeply nested type fails here, alone it succeeds: %v", err)
		}
	case "logical":
		// date / timestamp columns decoded and encoded with shared codecs, every goroutine its own values
		li := op.Arg % len(c12Logical)
		cc := c12Logical[li]
		stored := int64(g)*100003 + int64(op.Arg)*7919 - 250000
		var want time.Time
		switch c19Logicals[li] {
		case "date":
			want = time.Unix(stored*86400, 0)
		case "timestamp-millis":
			want = time.UnixMilli(stored)
		case "timestamp-micros":
			want = time.UnixMicro(stored)
		default:
			want = time.Unix(0, stored)
		}
		body := ref.AppendLong(nil, stored)
		var v c19T
		rb := avro.NewReadBuf(body)
		if err := cc.codec.Read(rb, unsafe.Pointer(&v)); err != nil || rb.Len() != 0 {
			return fmt.Errorf("%s %d: err=%v, %d bytes left", c19Logicals[li], stored, err, rb.Len())
		}
		if !v.T.Equal(want) {
			return fmt.Errorf("%s %d decoded on goroutine %d to %v, alone it decodes to %v", c19Logicals[li], stored, g, v.T.UTC(), want.UTC())
		}
		wb := avro.NewWriteBuf(nil)
		w := c19T{T: want}
		cc.codec.Write(wb, unsafe.Pointer(&w))
		if !bytes.Equal(wb.Bytes(), body) {
			return fmt.Errorf("%s: %v written on goroutine %d as % x, alone as % x", c19Logicals[li], want.UTC(), g, wb.Bytes(), body)
		}
	case "readdamaged":
		// a file that ends early or is damaged: the read fails, as it would alone, after
		// delivering intact records only — and whatever the failed read leaves behind
		// (buffers, banks) must not reach the reads other goroutines are making
		if len(f.lay.Blocks) == 0 {
			return nil
		}
		bi := (op.Arg / 4) % len(f.lay.Blocks)
		bl := f.lay.Blocks[bi]
		before := 0
		for _, b := range f.lay.Blocks[:bi] {
			before += int(b.Count)
		}
		var data []byte
		switch op.Arg % 4 {
		case 0:
			data = f.file[:bl.SizeEnd+(bl.PayloadEnd-bl.SizeEnd)/2] // the block's payload is incomplete
		case 1:
			data = f.file[:bl.PayloadEnd+5] // the marker is incomplete
		case 2:
			data = append([]byte(nil), f.file...)
			data[bl.PayloadEnd+3] ^= 0x10 // the marker is wrong
		default:
			data = f.file[:bl.CountEnd] // the block's length is missing
		}
		i := 0
		err := avro.ReadFile(bytes.NewReader(data), reflect.New(f.typ).Elem().Interface(), func(val unsafe.Pointer, rb *avro.ResourceBank) error {
			if i >= len(f.abs) {
				return fmt.Errorf("more records than written")
			}
			if err := spec.Match(f.abs[i], spec.Abs(f.ts, false, reflect.NewAt(f.typ, val).Elem()), fmt.Sprintf("record[%d] of a damaged file", i)); err != nil {
				return err
			}
			i++
			rb.Close()
			return nil
		})
		if err == nil {
			return fmt.Errorf("a damaged file (variant %d, block %d) was read without an error", op.Arg%4, bi)
		}
		if strings.Contains(err.Error(), "record[") || strings.Contains(err.Error(), "more records") {
			return err
		}
		if i < before || i > before+int(bl.Count) {
			return fmt.Errorf("a damaged file (variant %d, block %d) delivered %d records; the blocks before the damage hold %d, the damaged one %d", op.Arg%4, bi, i, before, bl.Count)
		}
	case "readabort":
		// the callback gives up at record k but keeps that record and its bank (the
		// bank is the callback's to close, also when it returns an error); other
		// goroutines keep decoding; the kept record is still what the file says
		if len(f.abs) == 0 {
			return nil
		}
		k := op.Arg % len(f.abs)
		i := 0
		var kept reflect.Value
		var keptBank *avro.ResourceBank
		err := avro.ReadFile(bytes.NewReader(f.file), reflect.New(f.typ).Elem().Interface(), func(val unsafe.Pointer, rb *avro.ResourceBank) error {
			if i == k {
				kept = reflect.New(f.typ).Elem()
				kept.Set(reflect.NewAt(f.typ, val).Elem())
				keptBank = rb
				return errSentinel
			}
			i++
			rb.Close()
			return nil
		})
		if err != errSentinel {
			return fmt.Errorf("ReadFile returned %v, want the callback's error", err)
		}
		for spin := 0; spin < 3; spin++ {
			runtime.Gosched()
			// decoding of our own in between: takes banks from the pool
			var sink reflect.Value = reflect.New(f.typ)
			rb := avro.NewReadBuf(f.bodies[k])
			if err := f.codec.Read(rb, sink.UnsafePointer()); err != nil {
				return fmt.Errorf("decode: %v", err)
			}
			if err := spec.Match(f.abs[k], spec.Abs(f.ts, false, kept), fmt.Sprintf("record[%d] kept after an aborted ReadFile", k)); err != nil {
				return err
			}
			rb.ExtractResourceBank().Close()
		}
		select {
		case banks <- keptBank:
		default:
			keptBank.Close()
		}
	case "closebanks":
		for k := 0; k < 8; k++ {
			select {
			case b := <-banks:
				if b != nil {
					b.Close()
				}
			default:
				return nil
			}
		}
	case "encodefile":
		// a goroutine-private Encoder[T] (its own buffer and file writer), sharing only the registries
		e := cat.Get(f.name)
		var buf bytes.Buffer
		enc, err := e.NewEncoder(&buf, avro.Compression([]string{"null", "deflate", "snappy"}[op.Arg%3]), 40)
		if err != nil {
			return err
		}
		for _, v := range f.values {
			if err := enc.Encode(v.UnsafePointer()); err != nil {
				return err
			}
		}
		if err := enc.Flush(); err != nil {
			return err
		}
		schema, _, blocks, err := ref.ReadRecords(buf.Bytes())
		if err != nil {
			return fmt.Errorf("file written concurrently is not valid: %v", err)
		}
		i := 0
		for _, b := range blocks {
			for _, d := range b {
				if i >= len(f.abs) {
					return fmt.Errorf("more records than encoded")
				}
				if err := spec.Match(f.abs[i], spec.AbsOfDatum(schema, d), fmt.Sprintf("record[%d]", i)); err != nil {
					return err
				}
				i++
			}
		}
		if i != len(f.abs) {
			return fmt.Errorf("%d records encoded, %d in file", len(f.abs), i)
		}
	case "time":
		ti := op.Arg % len(f.timeStrs)
		got, err, _, _, e := decodeTime([]byte(f.timeStrs[ti]))
		if e != nil || err != nil {
			return fmt.Errorf("time %q: %v %v", f.timeStrs[ti], e, err)
		}
		if !sameTime(got, f.timeWant[ti]) {
			return fmt.Errorf("time %q parsed as %v concurrently, %v sequentially", f.timeStrs[ti], got, f.timeWant[ti])
		}
	default:
		return fmt.Errorf("VERIF-INCONCLUSIVE unknown op %q", op.Kind)
	}
	return nil
}

// c12CheckContested: the registration made during the case governs builds that start now.
func c12CheckContested(contested, holder reflect.Type) error {
	zero := reflect.New(holder).Elem().Interface()
	s, err := avro.SchemaForType(zero)
	if err != nil {
		return fmt.Errorf("after a codec was registered for a struct type while another goroutine was building codecs that contain it: SchemaForType: %v", err)
	}
	b, _ := s.Marshal()
	if !strings.Contains(string(b), `{"name":"f","type":"long"}`) {
		return fmt.Errorf("a schema was registered for a struct type while another goroutine was building codecs that contain it; generated afterwards, the enclosing schema does not show it: %s", b)
	}
	codec, err := s.Codec(zero)
	if err != nil {
		return fmt.Errorf("Schema.Codec after the contested registration: %v", err)
	}
	v := reflect.New(holder)
	v.Elem().Field(0).Field(0).SetInt(77)
	wb := avro.NewWriteBuf(nil)
	codec.Write(wb, v.UnsafePointer())
	want := append(ref.AppendLong(nil, 77^privMask), 0)
	if !bytes.Equal(wb.Bytes(), want) {
		return fmt.Errorf("a codec was registered for a struct type while another goroutine was building codecs that contain it; a codec built afterwards writes % x, the registered codec writes % x (the registration, which had returned, is not honoured)", wb.Bytes(), want)
	}
	return nil
}

func drawC12(t *rapid.T) c12Case {
	var c c12Case
	n := gen.UniformRange(t, "goroutines", 2, 8)
	kinds := []string{"schema", "codec", "register", "decode", "encode", "readfile", "closebanks", "time", "decode", "encode", "time", "readfile", "encodefile", "readabort", "evolved", "exotic", "readdamaged", "logical", "logical", "deepbuild", "readptr", "readptr", "manyschemas"}
	for g := 0; g < n; g++ {
		var p []c12Op
		m := gen.UniformRange(t, "nops", 5, 40)
		for i := 0; i < m; i++ {
			p = append(p, c12Op{
				Kind:    kinds[gen.Uniform(t, "kind", len(kinds))],
				Fixture: gen.Uniform(t, "fixture", 7),
				Yield:   gen.Uniform(t, "yield", 4) == 0,
				Arg:     gen.Uniform(t, "arg", 12),
			})
		}
		c.Programs = append(c.Programs, p)
	}
	if gen.Uniform(t, "burstDeep", 12) == 0 {
		// every goroutine starts with the same deep build: several are in progress at once
		c.Burst = &c12Op{Kind: "deepbuild", Arg: gen.Uniform(t, "burstArg", 12)}
	} else if gen.Uniform(t, "burst", 3) == 0 {
		c.Burst = &c12Op{Kind: kinds[gen.Uniform(t, "burstKind", len(kinds))], Fixture: gen.Uniform(t, "burstFixture", 7), Arg: gen.Uniform(t, "burstArg", 12)}
	}
	return c
}

func TestC12(t *testing.T) {
	col := stats.New("C12")
	col.Rule = c12Rule
	c12OnDeadlock = func(c c12Case, err error) {
		col.Record(c, true)
		col.Flush()
		stats.WriteFailure("C12", "c12", err.Error(), c)
		msg := err.Error()
		if len(msg) > 3000 {
			msg = msg[:3000]
		}
		fmt.Printf("--- FAIL: TestC12\nVERIF-FAIL property=C12 entry=c12: %s\nFAIL\n", msg)
		os.Exit(1)
	}
	propCheck(t, col, "c12", drawC12, runC12)
}

var c12OnDeadlock func(c12Case, error)

// ---------------------------------------------------------------------------
// First use: in a FRESH process several goroutines make the first calls to the
// library packages' RegisterCodecs() at the same time and use the registered
// types straight away. Each must see what it would see running alone: once its
// own RegisterCodecs() call has returned, the registrations are in force.

type c12FreshCase struct {
	Attempts   int `json:"attempts"`
	Goroutines int `json:"goroutines"`
}

func init() {
	registerReplay("c12-fresh", func(c c12FreshCase) error { return c12Fresh(c, nil) })
}

func c12FreshExpect() (string, error) {
	s, err := avro.SchemaForType(cat.Registered{})
	if err != nil {
		return "", err
	}
	b, err := s.Marshal()
	return string(b), err
}

func c12Fresh(c c12FreshCase, col *stats.Collector) error {
	want, err := c12FreshExpect()
	if err != nil {
		return fmt.Errorf("VERIF-INCONCLUSIVE %v", err)
	}
	for i := 0; i < c.Attempts; i++ {
		cmd := exec.Command(os.Args[0], "-test.run", "^TestC12FreshWorker$", "-test.v")
		cmd.Env = append(os.Environ(), "VERIF_FRESH_REG=1", "VERIF_FRESH_EXPECT="+want, fmt.Sprintf("VERIF_FRESH_N=%d", c.Goroutines), "VERIF_OUT=")
		out, err := cmd.CombinedOutput()
		if col != nil {
			col.RecordKey(uint64(i)+0xf4e5<<16, true)
		}
		if err != nil {
			msg := string(out)
			if len(msg) > 3000 {
				msg = msg[len(msg)-3000:]
			}
			return fmt.Errorf("fresh process %d: %d goroutines calling RegisterCodecs() for the first time concurrently: %v\n%s", i, c.Goroutines, err, msg)
		}
	}
	return nil
}

func TestC12Fresh(t *testing.T) {
	col := stats.New("C12")
	col.Rule = c12Rule
	defer col.Flush()
	n := 40
	if thorough() {
		n = 150
	}
	c := c12FreshCase{Attempts: n, Goroutines: 8}
	if err := c12Fresh(c, col); err != nil {
		failCase(t, "C12", "c12-fresh", c12FreshCase{Attempts: 300, Goroutines: 8}, err)
	}
	col.Label("fresh_process_first_use")
}

func TestC12FreshWorker(t *testing.T) {
	if os.Getenv("VERIF_FRESH_REG") != "1" {
		t.Skip("only as a child of TestC12Fresh")
	}
	want := os.Getenv("VERIF_FRESH_EXPECT")
	n := 8
	fmt.Sscan(os.Getenv("VERIF_FRESH_N"), &n)
	start := make(chan struct{})
	errs := make(chan error, n)
	var wg sync.WaitGroup
	for g := 0; g < n; g++ {
		wg.Add(1)
		go func(g int) {
			defer wg.Done()
			<-start
			if g%2 == 0 {
				avronull.RegisterCodecs()
				avrotime.RegisterCodecs()
			} else {
				avrotime.RegisterCodecs()
				avronull.RegisterCodecs()
			}
			errs <- protect(func() error {
				s, err := avro.SchemaForType(cat.Registered{})
				if err != nil {
					return fmt.Errorf("SchemaForType right after RegisterCodecs() returned: %v", err)
				}
				b, _ := s.Marshal()
				if string(b) != want {
					return fmt.Errorf("schema right after RegisterCodecs() returned differs from the sequential result:\n got %s\nwant %s", b, want)
				}
				if _, err := s.Codec(cat.Registered{}); err != nil {
					return fmt.Errorf("Schema.Codec right after RegisterCodecs() returned: %v", err)
				}
				return nil
			})
		}(g)
	}
	close(start)
	wg.Wait()
	close(errs)
	for err := range errs {
		if err != nil {
			t.Fatalf("VERIF-FAIL property=C12 entry=c12-fresh: %v", err)
		}
	}
}
