package checks

import (
	"bytes"
	"fmt"
	"math"
	"math/big"
	"reflect"
	"time"

	"verifh/gen"
	"verifh/ref"
	"verifh/spec"
)

// The oracle relating an Avro datum (under a schema) to a Go value (of a
// TypeSpec). Two directions share one walk:
//
//	read:  the library decoded datum d into v      (C03, C04, C13 read-back, C19)
//	write: the library encoded v and ref decoded d  (C13, C19)
//
// The differences are confined to nullable positions (see agreeUnion).
// agreeIgnoreAbsent switches off the "fields the schema lacks stay zero" clause
// (C05 fills such fields with a canary pattern and checks them itself).
var agreeIgnoreAbsent bool

type agreeDir int

const (
	dirRead agreeDir = iota
	dirWrite
)

// derefAll follows pointers; ok=false if a nil pointer is met.
func derefAll(ts spec.TypeSpec, v reflect.Value) (spec.TypeSpec, reflect.Value, bool) {
	for ts.K == "ptr" {
		if v.IsNil() {
			return ts.StripPtr(), reflect.Value{}, false
		}
		v = v.Elem()
		ts = *ts.Elem
	}
	return ts, v, true
}

func wrapperValid(ts spec.TypeSpec, v reflect.Value) bool {
	switch ts.K {
	case "nullInt", "nullBool", "nullFloat", "nullString", "nullTime":
		return v.Field(0).Field(1).Bool()
	}
	return true
}

func wrapperPayload(v reflect.Value) reflect.Value { return v.Field(0).Field(0) }

// logicalUnit returns nanoseconds per stored unit for a long read as a time.
func logicalUnit(s ref.Schema) int64 {
	switch s.LogicalType {
	case "timestamp-millis":
		return 1e6
	case "timestamp-micros":
		return 1e3
	}
	return 1
}

func agree(s ref.Schema, d ref.Datum, ts spec.TypeSpec, omit bool, v reflect.Value, dir agreeDir, path string) error {
	if s.Kind == "union" {
		return agreeUnion(s, d, ts, omit, v, dir, path)
	}
	if s.Kind == "null" {
		// a null carries no data: whatever the Go type, the field keeps its zero value
		if dir == dirRead && !v.IsZero() {
			return fmt.Errorf("%s: schema null but the Go field holds %v", path, v)
		}
		return nil
	}
	base, bv, ok := derefAll(ts, v)
	if !ok {
		if dir == dirWrite && (base.K == "slice" || base.K == "map") {
			// a nil pointer to a collection can only denote the empty collection
			if s.Kind == "array" && len(d.Items) == 0 || s.Kind == "map" && len(d.Keys) == 0 {
				return nil
			}
			return fmt.Errorf("%s: nil pointer to %s written as a non-empty %s", path, base.K, s.Kind)
		}
		return fmt.Errorf("%s: nil pointer where schema %s has no null", path, s.Kind)
	}
	return agreeValue(s, d, base, bv, dir, path)
}

// goNullish: the Go value can only mean null (nil pointer at some level, or an
// invalid wrapper possibly behind pointers).
func goNullish(ts spec.TypeSpec, v reflect.Value) bool {
	base, bv, ok := derefAll(ts, v)
	if !ok {
		return true
	}
	return !wrapperValid(base, bv)
}

func isZeroTime(ts spec.TypeSpec, v reflect.Value) bool {
	base, bv, ok := derefAll(ts, v)
	return ok && base.K == "time" && bv.Interface().(time.Time).IsZero()
}

func agreeUnion(s ref.Schema, d ref.Datum, ts spec.TypeSpec, omit bool, v reflect.Value, dir agreeDir, path string) error {
	if d.K != "union" || d.Branch >= len(s.Branches) {
		return fmt.Errorf("%s: datum is not a union value", path)
	}
	br := s.Branches[d.Branch]
	if br.Kind != "null" {
		// value branch
		if goNullish(ts, v) {
			if dir == dirWrite {
				return fmt.Errorf("%s: Go value is null (nil pointer / invalid wrapper) but branch %d (%s) was written", path, d.Branch, br.Kind)
			}
			return fmt.Errorf("%s: datum has a %s value but the Go value is null (nil pointer / invalid wrapper)", path, br.Kind)
		}
		base, bv, _ := derefAll(ts, v)
		if dir == dirWrite && omit && ts.K != "ptr" && !ts.IsRegistered() && strictlyZero(base, bv) {
			return fmt.Errorf("%s: zero value in an omitempty field written as the non-null branch", path)
		}
		return agreeValue(br, *d.U, base, bv, dir, path)
	}
	// null branch
	if goNullish(ts, v) {
		return nil
	}
	base, bv, _ := derefAll(ts, v)
	if dir == dirWrite {
		if isZeroTime(ts, v) {
			return nil // DESIGN §4.3: the zero time may be written as null
		}
		if omit && ts.K != "ptr" && bv.IsZero() {
			return nil
		}
		if omit && ts.K != "ptr" && (base.K == "slice" || base.K == "map" || base.K == "bytes") && bv.Len() == 0 {
			return nil
		}
		return fmt.Errorf("%s: non-null Go value %v written as null", path, bv)
	}
	// read: a null leaves a non-pointer target at its zero value
	if ts.K == "ptr" {
		return fmt.Errorf("%s: datum is null but the pointer is not nil", path)
	}
	if !bv.IsZero() {
		return fmt.Errorf("%s: datum is null but the Go field holds %v", path, bv)
	}
	return nil
}

// strictlyZero: zero by every reading of "zero value" (so not -0.0, not an
// empty non-nil collection, not a struct).
func strictlyZero(ts spec.TypeSpec, v reflect.Value) bool {
	switch ts.K {
	case "float32", "float64":
		return v.Float() == 0 && !math.Signbit(v.Float())
	case "slice", "map", "bytes":
		return v.IsNil()
	case "struct", "barray":
		// encoding/json never treats a struct, and only a zero-length array, as
		// empty: the property text does not decide these
		return false
	}
	return v.IsZero()
}

func agreeValue(s ref.Schema, d ref.Datum, ts spec.TypeSpec, v reflect.Value, dir agreeDir, path string) error {
	if d.K != s.Kind {
		return fmt.Errorf("%s: datum kind %s under schema %s", path, d.K, s.Kind)
	}
	// wrappers: payload of a valid wrapper
	switch ts.K {
	case "nullInt", "nullBool", "nullFloat", "nullString", "nullTime":
		if !wrapperValid(ts, v) {
			return fmt.Errorf("%s: %s is not valid although the datum has a value", path, ts.K)
		}
		inner := map[string]string{"nullInt": "int64", "nullBool": "bool", "nullFloat": "float64", "nullString": "string", "nullTime": "time"}[ts.K]
		return agreeValue(s, d, spec.T(inner), wrapperPayload(v), dir, path)
	}
	switch s.Kind {
	case "null":
		return nil
	case "boolean":
		if ts.K != "bool" {
			return fmt.Errorf("%s: boolean into %s", path, ts.K)
		}
		if v.Bool() != d.B {
			return fmt.Errorf("%s: %v vs datum %v", path, v.Bool(), d.B)
		}
	case "int", "long":
		if ts.K == "time" {
			return agreeTimeInt(s, d, v.Interface().(time.Time), dir, path)
		}
		switch ts.K {
		case "int", "int16", "int32", "int64":
		default:
			return fmt.Errorf("%s: %s into %s", path, s.Kind, ts.K)
		}
		if v.Int() != d.I {
			return fmt.Errorf("%s: Go %d vs datum %d", path, v.Int(), d.I)
		}
	case "float":
		want := uint32(d.F)
		switch ts.K {
		case "float32":
			got := math.Float32bits(float32(v.Float()))
			if got != want && !(isNaN32(got) && isNaN32(want)) {
				return fmt.Errorf("%s: float32 %#x vs datum %#x", path, got, want)
			}
		case "float64": // payload of null.Float
			f := float64(math.Float32frombits(want))
			if math.Float64bits(v.Float()) != math.Float64bits(f) && !(f != f && v.Float() != v.Float()) {
				return fmt.Errorf("%s: float64 %v vs float datum %v", path, v.Float(), f)
			}
		default:
			return fmt.Errorf("%s: float into %s", path, ts.K)
		}
	case "double":
		want := math.Float64frombits(d.F)
		switch ts.K {
		case "float64":
			if math.Float64bits(v.Float()) != d.F && !(want != want && v.Float() != v.Float()) {
				return fmt.Errorf("%s: float64 %v (%#x) vs datum %v (%#x)", path, v.Float(), math.Float64bits(v.Float()), want, d.F)
			}
		case "float32":
			got := float32(v.Float())
			if float64(float32(want)) == want || want != want {
				// representable: must be exact
				if math.Float32bits(got) != math.Float32bits(float32(want)) && !(want != want && got != got) {
					return fmt.Errorf("%s: float32 %v vs datum %v", path, got, want)
				}
			}
			// otherwise: narrowing of a non-representable double is not asserted
		default:
			return fmt.Errorf("%s: double into %s", path, ts.K)
		}
	case "bytes":
		if ts.K != "bytes" {
			return fmt.Errorf("%s: bytes into %s", path, ts.K)
		}
		if !bytes.Equal(v.Bytes(), d.S) {
			return fmt.Errorf("%s: %q vs datum %q", path, v.Bytes(), d.S)
		}
	case "string":
		switch ts.K {
		case "string":
			if v.String() != string(d.S) {
				return fmt.Errorf("%s: %q vs datum %q", path, v.String(), d.S)
			}
		case "time":
			return agreeTimeString(d, v.Interface().(time.Time), dir, path)
		default:
			return fmt.Errorf("%s: string into %s", path, ts.K)
		}
	case "fixed":
		if ts.K != "barray" {
			return fmt.Errorf("%s: fixed into %s", path, ts.K)
		}
		b := make([]byte, v.Len())
		reflect.Copy(reflect.ValueOf(b), v)
		if !bytes.Equal(b, d.S) {
			return fmt.Errorf("%s: %x vs datum %x", path, b, d.S)
		}
	case "record":
		if ts.K != "struct" {
			return fmt.Errorf("%s: record into %s", path, ts.K)
		}
		seen := map[string]bool{}
		for i, f := range s.Fields {
			for j, tf := range ts.Fields {
				if tf.AvroName() == f.Name {
					seen[f.Name] = true
					if err := agree(f.Type, d.Fields[i], tf.T, tf.OmitEmpty(), v.Field(j), dir, path+"."+f.Name); err != nil {
						return err
					}
				}
			}
		}
		if dir == dirRead && !agreeIgnoreAbsent {
			// fields the schema lacks stay zero
			for j, tf := range ts.Fields {
				if !seen[tf.AvroName()] && !tf.Unexported && !v.Field(j).IsZero() {
					return fmt.Errorf("%s: field %s is not in the schema but holds %v", path, tf.Go, v.Field(j))
				}
			}
		}
	case "array":
		if ts.K != "slice" {
			return fmt.Errorf("%s: array into %s", path, ts.K)
		}
		if v.Len() != len(d.Items) {
			return fmt.Errorf("%s: slice of %d vs array of %d", path, v.Len(), len(d.Items))
		}
		for i := range d.Items {
			if err := agree(*s.Items, d.Items[i], *ts.Elem, false, v.Index(i), dir, fmt.Sprintf("%s[%d]", path, i)); err != nil {
				return err
			}
		}
	case "map":
		if ts.K != "map" {
			return fmt.Errorf("%s: map into %s", path, ts.K)
		}
		m := d.AsMap()
		if v.Len() != len(m) {
			return fmt.Errorf("%s: Go map of %d vs datum map of %d", path, v.Len(), len(m))
		}
		for k, dv := range m {
			ev := v.MapIndex(reflect.ValueOf(k).Convert(v.Type().Key()))
			if !ev.IsValid() {
				return fmt.Errorf("%s: key %q missing", path, k)
			}
			if err := agree(*s.Values, dv, *ts.Elem, false, ev, dir, fmt.Sprintf("%s{%q}", path, k)); err != nil {
				return err
			}
		}
	default:
		return fmt.Errorf("%s: no rule for schema kind %s", path, s.Kind)
	}
	return nil
}

func isNaN32(b uint32) bool { return b&0x7f800000 == 0x7f800000 && b&0x7fffff != 0 }

// floorDiv for negative numerators.
func floorDiv(a, b int64) int64 {
	q := a / b
	if (a%b != 0) && ((a < 0) != (b < 0)) {
		q--
	}
	return q
}

func agreeTimeInt(s ref.Schema, d ref.Datum, t time.Time, dir agreeDir, path string) error {
	if s.LogicalType == "date" {
		if dir == dirRead {
			want := time.Unix(d.I*86400, 0)
			if !t.Equal(want) {
				return fmt.Errorf("%s: date %d decoded to %v, specification says %v", path, d.I, t.UTC(), want.UTC())
			}
			return nil
		}
		if want := floorDiv(t.Unix(), 86400); d.I != want {
			return fmt.Errorf("%s: time %v written as day %d, its UTC calendar day is %d", path, t.UTC(), d.I, want)
		}
		return nil
	}
	unit := logicalUnit(s)
	// seconds and nanoseconds of the stored integer, computed without going
	// through a nanosecond count (which covers only the years 1677-2262)
	perSec := int64(1e9) / unit
	if dir == dirRead {
		sec := floorDiv(d.I, perSec)
		want := time.Unix(sec, (d.I-sec*perSec)*unit)
		if !t.Equal(want) {
			return fmt.Errorf("%s: %s %d decoded to %v, expected %v", path, lt(s), d.I, t.UTC(), want.UTC())
		}
		return nil
	}
	// "the integer that decodes back to it at that type's resolution": the time
	// truncated to the unit (time.Time.Truncate, i.e. rounded down, also before
	// 1970), which is one definite integer
	sec, nsec := t.Unix(), int64(t.Nanosecond())
	hi := new(big.Int).Mul(big.NewInt(sec), big.NewInt(perSec))
	hi.Add(hi, big.NewInt(nsec/unit))
	if !hi.IsInt64() {
		return fmt.Errorf("VERIF-INCONCLUSIVE harness: time %v is outside the range of %s", t.UTC(), lt(s))
	}
	if want := hi.Int64(); d.I != want {
		return fmt.Errorf("%s: time %v written as %s %d, the time at that resolution is %d", path, t.UTC(), lt(s), d.I, want)
	}
	return nil
}

func lt(s ref.Schema) string {
	if s.LogicalType == "" {
		return "long(ns)"
	}
	return s.LogicalType
}

func agreeTimeString(d ref.Datum, t time.Time, dir agreeDir, path string) error {
	str := string(d.S)
	var want time.Time
	var err error
	if len(str) == 10 {
		want, err = time.Parse("2006-01-02", str)
	} else {
		want, err = time.Parse(time.RFC3339Nano, str)
	}
	if err != nil {
		if dir == dirWrite {
			return fmt.Errorf("%s: time written as %q which time.Parse rejects: %v", path, str, err)
		}
		return nil // not a timestamp the standard library accepts: nothing is required of the value
	}
	_, wo := want.Zone()
	_, to := t.Zone()
	if !t.Equal(want) || wo != to {
		return fmt.Errorf("%s: time %v vs string %q = %v", path, t, str, want)
	}
	return nil
}

// datumFits reports whether every integer of the datum fits the width of the
// Go field it is decoded into (the condition under which the read must
// succeed); ok=false means some value does not fit and an error is expected.
func datumFits(s ref.Schema, d ref.Datum, ts spec.TypeSpec) bool {
	base := ts.StripPtr()
	switch s.Kind {
	case "int", "long":
		switch base.K {
		case "int16":
			return d.I >= math.MinInt16 && d.I <= math.MaxInt16
		case "int32":
			return d.I >= math.MinInt32 && d.I <= math.MaxInt32
		}
	case "record":
		for i, f := range s.Fields {
			for _, tf := range base.Fields {
				if tf.AvroName() == f.Name && !datumFits(f.Type, d.Fields[i], tf.T) {
					return false
				}
			}
		}
	case "array":
		if base.Elem == nil {
			return true
		}
		for _, it := range d.Items {
			if !datumFits(*s.Items, it, *base.Elem) {
				return false
			}
		}
	case "map":
		if base.Elem == nil {
			return true
		}
		for _, it := range d.Vals {
			if !datumFits(*s.Values, it, *base.Elem) {
				return false
			}
		}
	case "union":
		if sh, _ := gen.UnionShape(s); sh == "other" {
			return true
		}
		return datumFits(s.Branches[d.Branch], *d.U, ts)
	}
	return true
}
