package checks

import (
	"fmt"
	"reflect"
	"testing"
	"time"

	"github.com/philpearl/avro"
	"pgregory.net/rapid"

	"verifh/gen"
	"verifh/ref"
	"verifh/stats"
)

// C19, sequences: one codec and one WriteBuf (Reset between rows, as the Encoder
// does between blocks) write row after row; the same instants recur, the columns
// in front of them change width. Every row is judged on its own by the reference
// decoder: what a time is stored as does not depend on what was written before.

type c19SeqRow struct {
	Pre int64     `json:"pre"`
	S   string    `json:"s"`
	T   time.Time `json:"t"`
	U   time.Time `json:"u"`
}

type c19SeqCase struct {
	Logical string  `json:"logical"`
	Pre     []int64 `json:"pre"`
	SLen    []int   `json:"slen"`
	TIdx    []int   `json:"tidx"` // index into the pool of instants, per row
	Pool    []int64 `json:"pool"` // instants, in units of the logical type
	NoReset []bool  `json:"no_reset"`
}

func init() {
	registerReplay("c19seq", func(c c19SeqCase) error { _, err := runC19Seq(c); return err })
}

func runC19Seq(c c19SeqCase) (bool, error) {
	ft := c19Base(c.Logical)
	s := ref.Schema{Kind: "record", Name: "seq", Fields: []ref.Field{{Name: "pre", Type: ref.Prim("long")}, {Name: "s", Type: ref.Prim("string")}, {Name: "t", Type: ft}, {Name: "u", Type: ft}}}
	lib, err := avro.SchemaFromString(ref.Render(s, nil))
	if err != nil {
		return false, fmt.Errorf("VERIF-INCONCLUSIVE %v", err)
	}
	codec, err := lib.Codec(c19SeqRow{})
	if err != nil {
		return false, fmt.Errorf("Schema.Codec: %v", err)
	}
	unit := int64(logicalUnit(ft))
	if c.Logical == "date" {
		unit = int64(24 * time.Hour)
	}
	at := func(stored int64) time.Time {
		if c.Logical == "date" {
			return time.Unix(stored*86400, 0).UTC()
		}
		sec, sub := floorDiv(stored*unit, 1e9), stored*unit-floorDiv(stored*unit, 1e9)*1e9
		return time.Unix(sec, sub).UTC()
	}
	wb := avro.NewWriteBuf(make([]byte, 0, 256))
	repeats := false
	seen := map[int]bool{}
	for i := range c.Pre {
		if i > 0 && !c.NoReset[i] {
			wb.Reset()
		}
		start := wb.Len()
		ti := c.TIdx[i] % len(c.Pool)
		if seen[ti] {
			repeats = true
		}
		seen[ti] = true
		row := c19SeqRow{Pre: c.Pre[i], S: string(make([]byte, c.SLen[i])), T: at(c.Pool[ti]), U: at(c.Pool[(ti+1)%len(c.Pool)])}
		codec.Write(wb, reflect.ValueOf(&row).UnsafePointer())
		out := append([]byte(nil), wb.Bytes()[start:]...)
		d, err := ref.DecodeExact(s, out)
		if err != nil {
			return repeats, fmt.Errorf("row %d: written bytes % x are not a valid encoding: %v", i, out, err)
		}
		if d.Fields[0].I != c.Pre[i] || len(d.Fields[1].S) != c.SLen[i] {
			return repeats, fmt.Errorf("row %d: columns in front of the times written as %d / %d-byte string, want %d / %d", i, d.Fields[0].I, len(d.Fields[1].S), c.Pre[i], c.SLen[i])
		}
		for k, want := range []int64{c.Pool[ti], c.Pool[(ti+1)%len(c.Pool)]} {
			if got := d.Fields[2+k].I; got != want {
				return repeats, fmt.Errorf("row %d (one codec, one WriteBuf, %d rows written before): %s column %d holds %v = %d, stored as %d", i, i, c.Logical, k, at(want), want, got)
			}
		}
	}
	return repeats, nil
}

func TestC19Seq(t *testing.T) {
	col := stats.New("C19")
	col.Rule = c19Rule
	defer col.Flush()
	rapid.Check(t, func(rt *rapid.T) {
		c := c19SeqCase{Logical: c19Logicals[gen.Uniform(rt, "logical", 4)]}
		lo, hi := storedRange(c.Logical)
		for n := gen.UniformRange(rt, "npool", 1, 3); n > 0; n-- {
			c.Pool = append(c.Pool, gen.IntIn(rt, "stored", lo/2, hi/2))
		}
		for n := gen.UniformRange(rt, "nrows", 2, 8); n > 0; n-- {
			c.Pre = append(c.Pre, []int64{0, 1, 63, 64, 8191, 8192, -1, 1 << 40, -(1 << 20)}[gen.Uniform(rt, "pre", 9)])
			c.SLen = append(c.SLen, []int{0, 1, 5, 63, 64, 200}[gen.Uniform(rt, "slen", 6)])
			c.TIdx = append(c.TIdx, gen.Uniform(rt, "tidx", 3))
			c.NoReset = append(c.NoReset, gen.Uniform(rt, "noReset", 4) == 0)
		}
		nt, err := protectNT(func() (bool, error) { return runC19Seq(c) })
		col.Record(c, nt, "sequence_one_codec_one_buffer", "type_"+c.Logical)
		if err != nil {
			col.Flush()
			failCase(rt, "C19", "c19seq", c, err)
		}
	})
}
