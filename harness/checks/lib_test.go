package checks

import (
	"github.com/philpearl/avro"

	"verifh/ref"
)

// fromLib converts the library's Schema value to the reference form, reading
// only the exported fields.
func fromLib(s avro.Schema) ref.Schema {
	r := ref.Schema{Kind: s.Type}
	if s.Type == "union" || len(s.Union) > 0 {
		for _, b := range s.Union {
			r.Branches = append(r.Branches, fromLib(b))
		}
	}
	if o := s.Object; o != nil {
		r.ObjectForm = true
		r.Name, r.Namespace, r.LogicalType = o.Name, o.Namespace, o.LogicalType
		r.Size = o.Size
		r.Symbols = append([]string(nil), o.Symbols...)
		for _, f := range o.Fields {
			r.Fields = append(r.Fields, ref.Field{Name: f.Name, Type: fromLib(f.Type)})
		}
		if s.Type == "array" || o.Items.Type != "" {
			it := fromLib(o.Items)
			r.Items = &it
		}
		if s.Type == "map" || o.Values.Type != "" {
			v := fromLib(o.Values)
			r.Values = &v
		}
	}
	return r
}

// toLib builds the library's Schema value from a reference schema.
func toLib(s ref.Schema) avro.Schema {
	out := avro.Schema{Type: s.Kind}
	if s.Kind == "union" {
		for _, b := range s.Branches {
			out.Union = append(out.Union, toLib(b))
		}
		return out
	}
	if ref.IsPrimitive(s.Kind) && !s.ObjectForm && s.LogicalType == "" && s.Name == "" {
		return out
	}
	o := &avro.SchemaObject{Name: s.Name, Namespace: s.Namespace, LogicalType: s.LogicalType, Size: s.Size, Symbols: s.Symbols}
	for _, f := range s.Fields {
		o.Fields = append(o.Fields, avro.SchemaRecordField{Name: f.Name, Type: toLib(f.Type)})
	}
	if s.Items != nil {
		o.Items = toLib(*s.Items)
	}
	if s.Values != nil {
		o.Values = toLib(*s.Values)
	}
	out.Object = o
	return out
}
