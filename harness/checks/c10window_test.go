package checks

import (
	"bytes"
	"fmt"
	"reflect"
	"testing"
	"unsafe"

	"github.com/philpearl/avro"
	"pgregory.net/rapid"

	"verifh/gen"
	"verifh/spec"
	"verifh/stats"
)

// C10, long files: a hundred or so records, some holding dozens of pointer items,
// read by a batch consumer (keep everything, close every bank afterwards: dozens of
// closes in a row) and then by a consumer with a sliding window wider than any
// small pool or queue (close record i-W's bank at record i): a record stays what
// it was until its own bank is closed.

type windowCase struct {
	N           int    `json:"n"`
	Lens        []int  `json:"lens"` // number of pointer items per record, cycled
	Window      int    `json:"window"`
	Compression string `json:"compression"`
	BlockSize   int    `json:"block_size"`
	Rounds      int    `json:"rounds"`
}

var windowType = spec.Struct(
	spec.FieldSpec{Go: "ID", JSON: "id", T: spec.T("int64")},
	spec.FieldSpec{Go: "Name", JSON: "name", T: spec.T("string")},
	spec.FieldSpec{Go: "Vals", JSON: "vals", T: spec.Slice(spec.Ptr(spec.T("int64")))},
	spec.FieldSpec{Go: "Note", JSON: "note", T: spec.Ptr(spec.T("string"))},
)

func init() {
	registerReplay("c10window", func(c windowCase) error { _, err := runC10Window(c); return err })
}

func runC10Window(c windowCase) (bool, error) {
	enc := encCase{Type: windowType, Compression: c.Compression, BlockSize: c.BlockSize}
	for i := 0; i < c.N; i++ {
		var vals []spec.ValueSpec
		for j, n := 0, c.Lens[i%len(c.Lens)]; j < n; j++ {
			x := spec.ValueSpec{I: int64(i*1000 + j)}
			vals = append(vals, spec.ValueSpec{P: &x})
		}
		note := spec.ValueSpec{Nil: true}
		if i%3 != 0 {
			note = spec.ValueSpec{P: &spec.ValueSpec{S: []byte(fmt.Sprintf("note-%d", i))}}
		}
		enc.Records = append(enc.Records, spec.ValueSpec{Fields: []spec.ValueSpec{{I: int64(i)}, {S: []byte(fmt.Sprintf("row-%d-xx", i))}, {Elems: vals}, note}})
	}
	file, written, err := encodeCase(enc)
	if err != nil {
		return false, err
	}
	typ := spec.Build(windowType)
	type kept struct {
		v    reflect.Value
		bank *avro.ResourceBank
		i    int
	}
	check := func(ks []kept, when string) error {
		for _, k := range ks {
			if err := spec.Match(written[k.i], spec.Abs(windowType, false, k.v), fmt.Sprintf("record[%d]", k.i)); err != nil {
				return fmt.Errorf("%s: a record whose bank is still open changed: %v", when, err)
			}
		}
		return nil
	}
	read := func(window int, round int) error {
		var open []kept
		i := 0
		var failure error
		err := avro.ReadFile(bytes.NewReader(file), reflect.New(typ).Elem().Interface(), func(val unsafe.Pointer, rb *avro.ResourceBank) error {
			cp := reflect.New(typ).Elem()
			cp.Set(reflect.NewAt(typ, val).Elem())
			open = append(open, kept{cp, rb, i})
			if window > 0 && len(open) > window {
				open[0].bank.Close()
				open = open[1:]
			}
			if window > 0 || i%16 == 15 {
				if failure = check(open, fmt.Sprintf("round %d, after record %d (window %d)", round, i, window)); failure != nil {
					return failure
				}
			}
			i++
			return nil
		})
		if failure != nil {
			return failure
		}
		if err != nil {
			return fmt.Errorf("ReadFile: %v", err)
		}
		if i != c.N {
			return fmt.Errorf("%d records delivered, %d written", i, c.N)
		}
		if err := check(open, fmt.Sprintf("round %d, after the read (window %d)", round, window)); err != nil {
			return err
		}
		var spans []memSpan
		for _, k := range open {
			collectSpans(k.v, fmt.Sprintf("record[%d]", k.i), &spans)
		}
		if err := spansDisjoint(spans); err != nil {
			return err
		}
		// the batch consumer is done: every bank closed, one after the other
		for _, k := range open {
			k.bank.Close()
		}
		return nil
	}
	for round := 0; round < c.Rounds; round++ {
		if err := read(0, round); err != nil {
			return true, err
		}
		if err := read(c.Window, round); err != nil {
			return true, err
		}
	}
	return true, nil
}

func TestC10Window(t *testing.T) {
	col := stats.New("C10")
	col.Rule = "(D) files of 70-160 records, some with dozens of pointer items, read by a batch consumer (all banks closed afterwards, in a row) and by a sliding-window consumer (window 33-70); oracle: every record whose bank is open denotes what was written, live allocations are disjoint"
	defer col.Flush()
	rapid.Check(t, func(rt *rapid.T) {
		c := windowCase{N: gen.UniformRange(rt, "n", 70, 160), Window: gen.UniformRange(rt, "window", 33, 70), Compression: drawCompression(rt),
			BlockSize: []int{0, 200, 4000, 1 << 20}[gen.Uniform(rt, "blocksize", 4)], Rounds: gen.UniformRange(rt, "rounds", 1, 2)}
		for n := gen.UniformRange(rt, "nlens", 1, 6); n > 0; n-- {
			c.Lens = append(c.Lens, []int{0, 1, 3, 16, 17, 18, 33, 40, 64, 65}[gen.Uniform(rt, "len", 10)])
		}
		nt, err := protectNT(func() (bool, error) { return runC10Window(c) })
		col.Record(c, nt, "long_file_batch_then_window")
		if err != nil {
			col.Flush()
			failCase(rt, "C10", "c10window", c, err)
		}
	})
}
