package checks

import (
	"bytes"
	"fmt"
	"reflect"
	"testing"
	"unsafe"

	"github.com/philpearl/avro"

	"verifh/spec"
	"verifh/stats"
)

// C01 — encode → read round trip preserves every record.

const c01Rule = "rapid draws (Go struct type as data: reflect.StructOf types 80% / catalogue of named types through the real Encoder[T] 20%; " +
	"0-8 correlated records; compression; block size; flush pattern; by-value or by-pointer ReadFile target (the by-pointer target pre-populated with a record); the file presented through bytes.Reader, a small bufio.Reader or a reader returning 1-7 bytes per call); oracle: ReadFile returns nil, " +
	"calls back once per record in order and Abs(out[i]) matches Abs(in[i]) (documented normalisations only); " +
	"non-trivial = >=2 records AND (>=2 file blocks OR a field null in record i+1 and non-null in record i) AND the type has a nested struct/slice/map/pointer; distinct by case JSON hash"

func init() { registerReplay("c01", func(c encCase) error { _, _, err := runC01(c); return err }) }

// readBack reads a file into typ and returns the denotation of every record
// delivered, computed inside the callback (the target is reused).
func readBack(file []byte, ts spec.TypeSpec, typ reflect.Type, byPointer bool) ([]spec.AbsVal, error) {
	return readBackFrom(bytes.NewReader(file), ts, typ, byPointer)
}

func readBackFrom(rd avro.Reader, ts spec.TypeSpec, typ reflect.Type, byPointer bool) ([]spec.AbsVal, error) {
	return readBackDirty(rd, ts, typ, byPointer, false)
}

func readBackDirty(rd avro.Reader, ts spec.TypeSpec, typ reflect.Type, byPointer bool, dirty bool) ([]spec.AbsVal, error) {
	return readBackClosing(rd, ts, typ, byPointer, dirty, false)
}

func readBackClosing(rd avro.Reader, ts spec.TypeSpec, typ reflect.Type, byPointer bool, dirty bool, closeBanks bool) ([]spec.AbsVal, error) {
	var out interface{}
	if byPointer {
		p := reflect.New(typ)
		if dirty {
			// the caller's struct is not empty on entry (pre-populated, or left over from
			// an earlier read that stopped early): each delivered record must still be
			// exactly what the file says
			junkFill(p.Elem(), 3)
		}
		out = p.Interface()
	} else {
		out = reflect.New(typ).Elem().Interface()
	}
	var got []spec.AbsVal
	var skipErr error
	err := avro.ReadFile(rd, out, func(val unsafe.Pointer, rb *avro.ResourceBank) error {
		v := reflect.NewAt(typ, val).Elem()
		got = append(got, spec.Abs(ts, false, v))
		if e := skippedFieldsZero(ts, v, ""); e != nil && skipErr == nil {
			skipErr = e
		}
		if closeBanks {
			// done with the record (the snapshot above is a deep copy): the bank goes
			// back to the pool and is handed out again for a later record
			rb.Close()
		}
		return nil
	})
	if err != nil {
		return got, fmt.Errorf("ReadFile: %w", err)
	}
	return got, skipErr
}

// skippedFieldsZero checks that fields excluded from the schema stay zero.
func skippedFieldsZero(ts spec.TypeSpec, v reflect.Value, path string) error {
	if ts.K != "struct" {
		return nil
	}
	for i, f := range ts.Fields {
		if f.Unexported {
			continue
		}
		if f.AvroName() == "" {
			if !v.Field(i).IsZero() {
				return fmt.Errorf("%s.%s is excluded from the schema but was decoded to %v", path, f.Go, v.Field(i))
			}
			continue
		}
		if f.T.K == "struct" {
			if err := skippedFieldsZero(f.T, v.Field(i), path+"."+f.Go); err != nil {
				return err
			}
		}
	}
	return nil
}

func runC01(c encCase) (bool, []string, error) {
	file, in, err := encodeCase(c)
	if err != nil {
		return false, nil, err
	}
	typ := spec.Build(c.Type)
	nt, labels := encLabels(c, in, countBlocks(file))
	if c.Reader != 0 {
		labels = append(labels, "short_or_buffered_reader")
	}
	dirty := c.ByPointer && len(c.Records)%2 == 1 // the target starts out full of the caller's old values
	if dirty {
		labels = append(labels, "dirty_target")
	}
	closeBanks := len(file)%3 != 0 // the usual consumer: done with a record, close its bank
	if closeBanks {
		labels = append(labels, "banks_closed_in_callback")
	}
	out, err := readBackClosing(makeReader(c.Reader, file), c.Type, typ, c.ByPointer, dirty, closeBanks)
	if err != nil {
		return nt, labels, err
	}
	if len(out) != len(in) {
		return nt, labels, fmt.Errorf("wrote %d records, read back %d", len(in), len(out))
	}
	for i := range in {
		if err := spec.Match(in[i], out[i], fmt.Sprintf("record[%d]", i)); err != nil {
			return nt, labels, fmt.Errorf("round trip changed a value: %w", err)
		}
	}
	return nt, labels, nil
}

func TestC01(t *testing.T) {
	col := stats.New("C01")
	col.Rule = c01Rule
	propCheck(t, col, "c01", drawEncCase, runC01)
}

// TestC01Repetitive: the same round trip for highly repetitive data (thousands of
// identical rows per block), which the general generator is too slow to produce.
func TestC01Repetitive(t *testing.T) {
	col := stats.New("C01")
	col.Rule = c01Rule
	propCheck(t, col, "c01", drawRepetitiveCase, func(c encCase) (bool, []string, error) {
		nt, labels, err := runC01(c)
		return nt, append(labels, "repetitive"), err
	})
}
