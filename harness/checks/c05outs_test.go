package checks

import (
	"bytes"
	"fmt"
	"reflect"
	"runtime/debug"
	"testing"
	"unsafe"

	avro "github.com/philpearl/avro"
	"pgregory.net/rapid"

	"verifh/gen"
	"verifh/ref"
	"verifh/spec"
	"verifh/stats"
)

// The destination handed to ReadFile / Schema.Codec in every form a caller can
// write down: T, *T, **T, ***T, slices, maps, scalars, pointers to those. Each is
// either refused with an error or decoded into correctly, inside the memory the
// caller passed.

type c05OutCase struct {
	W    wireCase `json:"w"`
	Form string   `json:"form"`
}

var c05OutForms = []string{"T", "*T", "**T", "**T(nil)", "***T", "[]T", "*[]T", "map", "*map", "int", "*int", "string", "*string", "nil", "[1]T", "*[1]T", "func", "chan"}

func init() {
	registerReplay("c05outs", func(c c05OutCase) error { _, _, err := runC05Out(c); return err })
}

const c05Guard = 8192 // words on each side of the pointer variable

func runC05Out(c c05OutCase) (bool, []string, error) {
	w := c.W
	file, _, _, err := buildWireFile(w)
	if err != nil {
		return false, nil, err
	}
	for _, d := range w.Datums {
		if !datumFits(w.Schema, d, w.Target) {
			return false, []string{"value_does_not_fit"}, nil
		}
	}
	typ := spec.Build(w.Target)
	labels := []string{"out_" + c.Form}
	nt := c.Form != "T" && c.Form != "*T" && len(w.Datums) > 0

	// the holder: guard words around the pointer variable whose address is passed
	holderT := reflect.StructOf([]reflect.StructField{
		{Name: "G0", Type: reflect.TypeOf([c05Guard]uint64{})},
		{Name: "P", Type: reflect.PointerTo(typ)},
		{Name: "PP", Type: reflect.PointerTo(reflect.PointerTo(typ))},
		{Name: "G1", Type: reflect.TypeOf([c05Guard]uint64{})},
	})
	h := reflect.New(holderT).Elem()
	fill := func() {
		for _, g := range []string{"G0", "G1"} {
			a := h.FieldByName(g)
			for i := 0; i < c05Guard; i++ {
				a.Index(i).SetUint(0xA5A5A5A5A5A5A5A5)
			}
		}
	}
	fill()
	intact := func() error {
		for _, g := range []string{"G0", "G1"} {
			a := h.FieldByName(g)
			for i := 0; i < c05Guard; i++ {
				if a.Index(i).Uint() != 0xA5A5A5A5A5A5A5A5 {
					return fmt.Errorf("memory next to the destination was written (%s[%d] = %#x)", g, i, a.Index(i).Uint())
				}
			}
		}
		return nil
	}
	orig := reflect.New(typ)
	var out interface{}
	mustFail := true
	switch c.Form {
	case "T":
		out, mustFail = reflect.New(typ).Elem().Interface(), false
	case "*T":
		out, mustFail = reflect.New(typ).Interface(), false
	case "**T":
		h.FieldByName("P").Set(orig)
		out, mustFail = h.FieldByName("P").Addr().Interface(), false // not required to fail: required to be right if it does not
	case "**T(nil)":
		out, mustFail = h.FieldByName("P").Addr().Interface(), false
	case "***T":
		h.FieldByName("P").Set(orig)
		h.FieldByName("PP").Set(h.FieldByName("P").Addr())
		out, mustFail = h.FieldByName("PP").Addr().Interface(), false
	case "[]T":
		out = reflect.MakeSlice(reflect.SliceOf(typ), 1, 1).Interface()
	case "*[]T":
		p := reflect.New(reflect.SliceOf(typ))
		out = p.Interface()
	case "map":
		out = reflect.MakeMap(reflect.MapOf(reflect.TypeOf(""), typ)).Interface()
	case "*map":
		out = reflect.New(reflect.MapOf(reflect.TypeOf(""), typ)).Interface()
	case "int":
		out = 7
	case "*int":
		out = new(int)
	case "string":
		out = "x"
	case "*string":
		out = new(string)
	case "nil":
		out = nil
	case "[1]T":
		out = reflect.New(reflect.ArrayOf(1, typ)).Elem().Interface()
	case "*[1]T":
		out = reflect.New(reflect.ArrayOf(1, typ)).Interface()
	case "func":
		out = func() {}
	case "chan":
		out = make(chan int)
	}
	old := debug.SetPanicOnFault(true)
	defer debug.SetPanicOnFault(old)
	var got []reflect.Value
	var rerr error
	perr := protect(func() error {
		rerr = avro.ReadFile(bytes.NewReader(file), out, func(val unsafe.Pointer, rb *avro.ResourceBank) error {
			cp := reflect.New(typ).Elem()
			cp.Set(reflect.NewAt(typ, val).Elem())
			got = append(got, cp)
			return nil
		})
		return nil
	})
	if perr != nil {
		if c.Form == "nil" {
			// ReadFile(r, nil, ...) is a programming error the documentation does not
			// cover; a panic is tolerated there, memory damage is not
			return nt, append(labels, "nil_out_panics"), intact()
		}
		return nt, labels, fmt.Errorf("ReadFile with out of form %s: %v", c.Form, perr)
	}
	if err := intact(); err != nil {
		return nt, labels, fmt.Errorf("ReadFile with out of form %s (err=%v): %v", c.Form, rerr, err)
	}
	if rerr != nil {
		if !mustFail && (c.Form == "T" || c.Form == "*T") {
			return nt, labels, fmt.Errorf("ReadFile failed on a valid file: %v", rerr)
		}
		return nt, append(labels, "refused"), nil
	}
	if mustFail {
		return nt, labels, fmt.Errorf("ReadFile accepted an out of form %s that cannot hold a record, and returned no error", c.Form)
	}
	// accepted: then every record was delivered, correctly
	if len(got) != len(w.Datums) {
		return nt, labels, fmt.Errorf("out of form %s: file holds %d records, %d delivered", c.Form, len(w.Datums), len(got))
	}
	for i, v := range got {
		if err := agree(w.Schema, w.Datums[i], w.Target, false, v, dirRead, fmt.Sprintf("out %s: record[%d]", c.Form, i)); err != nil {
			return nt, labels, err
		}
	}
	// and the caller's pointer variable still is a pointer: unchanged, or pointing at a T
	if c.Form == "**T" || c.Form == "**T(nil)" || c.Form == "***T" {
		p := h.FieldByName("P")
		if c.Form == "**T(nil)" {
			orig = reflect.Zero(reflect.PointerTo(typ))
		}
		if p.Pointer() != orig.Pointer() && !p.IsNil() {
			if err := protect(func() error {
				cp := reflect.New(typ).Elem()
				cp.Set(p.Elem())
				if len(w.Datums) > 0 {
					return agree(w.Schema, w.Datums[len(w.Datums)-1], w.Target, false, cp, dirRead, "through the caller's pointer")
				}
				return nil
			}); err != nil {
				return nt, labels, fmt.Errorf("out of form %s: the caller's pointer variable was overwritten with %#x: %v", c.Form, p.Pointer(), err)
			}
		}
	}
	return nt, labels, nil
}

func TestC05Outs(t *testing.T) {
	col := stats.New("C05")
	col.Rule = "the destination is not of the forms T or *T, and the file holds records"
	o := &gen.WireOpts{MaxDepth: 2}
	propCheck(t, col, "c05outs", func(t *rapid.T) c05OutCase {
		var c c05OutCase
		c.W = drawWireCase(t, o)
		c.Form = c05OutForms[gen.Uniform(t, "form", len(c05OutForms))]
		return c
	}, runC05Out)
}

// Two different Go types that print the same (%T): function-local types of one
// name, like model.Row in two packages. The same file is read into one, then into
// the other (by value and by pointer): each read is judged for its own type's
// layout — whatever an earlier read built for another type is not this type's.
func sameNameTypeA() (reflect.Type, func(p unsafe.Pointer) (int64, string, [2]uint64)) {
	type Row struct {
		G0   [2]uint64
		ID   int64  `json:"id"`
		Name string `json:"name"`
	}
	return reflect.TypeOf(Row{}), func(p unsafe.Pointer) (int64, string, [2]uint64) {
		r := (*Row)(p)
		return r.ID, r.Name, r.G0
	}
}

func sameNameTypeB() (reflect.Type, func(p unsafe.Pointer) (int64, string, [2]uint64)) {
	type Row struct {
		Name string `json:"name"`
		G0   [2]uint64
		Pad  [3]byte
		ID   int64 `json:"id"`
	}
	return reflect.TypeOf(Row{}), func(p unsafe.Pointer) (int64, string, [2]uint64) {
		r := (*Row)(p)
		return r.ID, r.Name, r.G0
	}
}

func sameNameTypes(byPointer bool, first int) error {
	var buf bytes.Buffer
	type src struct {
		ID   int64  `json:"id"`
		Name string `json:"name"`
	}
	enc, err := avro.NewEncoderFor[src](&buf, avro.CompressionNull, 1000)
	if err != nil {
		return fmt.Errorf("VERIF-INCONCLUSIVE %v", err)
	}
	for i := 0; i < 3; i++ {
		if err := enc.Encode(&src{ID: int64(7000 + i), Name: fmt.Sprintf("row-%d", i)}); err != nil {
			return fmt.Errorf("VERIF-INCONCLUSIVE %v", err)
		}
	}
	if err := enc.Flush(); err != nil {
		return fmt.Errorf("VERIF-INCONCLUSIVE %v", err)
	}
	ta, geta := sameNameTypeA()
	tb, getb := sameNameTypeB()
	if fmt.Sprintf("%v", ta) != fmt.Sprintf("%v", tb) || ta == tb {
		return fmt.Errorf("VERIF-INCONCLUSIVE the two local types do not print alike: %v %v", ta, tb)
	}
	types := []reflect.Type{ta, tb}
	gets := []func(unsafe.Pointer) (int64, string, [2]uint64){geta, getb}
	for round := 0; round < 2; round++ {
		k := (first + round) % 2
		var out interface{}
		if byPointer {
			out = reflect.New(types[k]).Interface()
		} else {
			out = reflect.New(types[k]).Elem().Interface()
		}
		i := 0
		err := avro.ReadFile(bytes.NewReader(buf.Bytes()), out, func(p unsafe.Pointer, rb *avro.ResourceBank) error {
			id, name, g := gets[k](p)
			if id != int64(7000+i) || name != fmt.Sprintf("row-%d", i) || g != [2]uint64{} {
				return fmt.Errorf("record %d read into the %s of two types printing as %v: id %d, name %q, fields outside the schema %v", i, []string{"first", "second"}[round], types[k], id, name, g)
			}
			i++
			return nil
		})
		if err != nil {
			return err
		}
		if i != 3 {
			return fmt.Errorf("%d records delivered, 3 written", i)
		}
	}
	return nil
}

func TestC05SameName(t *testing.T) {
	col := stats.New("C05")
	defer col.Flush()
	for _, byPointer := range []bool{false, true} {
		for first := 0; first < 2; first++ {
			c := struct {
				ByPointer bool
				First     int
			}{byPointer, first}
			err := protect(func() error { return sameNameTypes(byPointer, first) })
			col.Record(c, true, "two_types_of_one_name")
			if err != nil {
				failCase(t, "C05", "c05samename", c, err)
			}
		}
	}
}

func init() {
	registerReplay("c05samename", func(c struct {
		ByPointer bool
		First     int
	}) error {
		return sameNameTypes(c.ByPointer, c.First)
	})
}

// A self-referential Go type as the destination of a file whose schema is two
// levels deep (a node and its parent): the pointee is a value of the destination's
// own type. Read by value and by pointer, by a consumer that closes every bank and
// by one that keeps them: every record is what the file says, and a record's
// parent is never the record itself.
type c05TreeNode struct {
	ID     int64             `json:"id"`
	Name   string            `json:"name"`
	Parent *c05TreeNode      `json:"parent"`
	Kids   map[string]c05Kid `json:"kids"`
}

type c05Kid struct {
	ID   int64        `json:"id"`
	Back *c05TreeNode `json:"back"`
}

func recursiveTarget(byPointer, closeBanks bool) error {
	leaf := ref.Schema{Kind: "record", Name: "Leaf", Fields: []ref.Field{{Name: "id", Type: ref.Prim("long")}, {Name: "name", Type: ref.Prim("string")}}}
	back := ref.Schema{Kind: "record", Name: "BackNode", Fields: []ref.Field{{Name: "id", Type: ref.Prim("long")}, {Name: "name", Type: ref.Prim("string")}}}
	kid := ref.Schema{Kind: "record", Name: "Kid", Fields: []ref.Field{{Name: "id", Type: ref.Prim("long")}, {Name: "back", Type: ref.Nullable(back)}}}
	s := ref.Schema{Kind: "record", Name: "Node", Fields: []ref.Field{
		{Name: "id", Type: ref.Prim("long")}, {Name: "name", Type: ref.Prim("string")}, {Name: "parent", Type: ref.Nullable(leaf)}, {Name: "kids", Type: ref.Schema{Kind: "map", Values: &kid}}}}
	const n = 9
	var blocks []ref.Block
	for i := 0; i < n; i++ {
		parent := ref.Union(0, ref.Null())
		if i%4 != 3 {
			parent = ref.Union(1, ref.Datum{K: "record", Fields: []ref.Datum{ref.Long(int64(1000 + i)), ref.Str(fmt.Sprintf("parent-of-%d", i))}})
		}
		kids := ref.Datum{K: "map"}
		if i%2 == 0 {
			kids.Keys = []string{"k"}
			kids.Vals = []ref.Datum{{K: "record", Fields: []ref.Datum{ref.Long(int64(2000 + i)), ref.Union(1, ref.Datum{K: "record", Fields: []ref.Datum{ref.Long(int64(3000 + i)), ref.Str("back")}})}}}
		}
		body, err := ref.Encode(s, ref.Datum{K: "record", Fields: []ref.Datum{ref.Long(int64(i)), ref.Str(fmt.Sprintf("node-%d", i)), parent, kids}}, nil)
		if err != nil {
			return fmt.Errorf("VERIF-INCONCLUSIVE %v", err)
		}
		blocks = append(blocks, ref.Block{Count: 1, Payload: body})
	}
	fs := ref.FileSpec{Schema: []byte(ref.Render(s, nil)), Codec: "null", Blocks: blocks}
	file, _, err := ref.WriteFile(fs)
	if err != nil {
		return fmt.Errorf("VERIF-INCONCLUSIVE %v", err)
	}
	var out interface{} = c05TreeNode{}
	if byPointer {
		out = &c05TreeNode{}
	}
	i := 0
	err = avro.ReadFile(bytes.NewReader(file), out, func(p unsafe.Pointer, rb *avro.ResourceBank) error {
		r := (*c05TreeNode)(p)
		wantParent := i%4 != 3
		switch {
		case r.ID != int64(i) || r.Name != fmt.Sprintf("node-%d", i):
			return fmt.Errorf("record %d delivered as {%d %q}", i, r.ID, r.Name)
		case wantParent && (r.Parent == nil || r.Parent == r || r.Parent.ID != int64(1000+i) || r.Parent.Name != fmt.Sprintf("parent-of-%d", i) || r.Parent.Parent != nil):
			return fmt.Errorf("record %d: parent delivered as %+v (the record itself: %v)", i, r.Parent, r.Parent == r)
		case !wantParent && r.Parent != nil:
			return fmt.Errorf("record %d: null parent delivered as %+v", i, r.Parent)
		case i%2 == 0 && (len(r.Kids) != 1 || r.Kids["k"].ID != int64(2000+i) || r.Kids["k"].Back == nil || r.Kids["k"].Back == r || r.Kids["k"].Back.ID != int64(3000+i)):
			return fmt.Errorf("record %d: kids delivered as %+v", i, r.Kids)
		case i%2 == 1 && len(r.Kids) != 0:
			return fmt.Errorf("record %d: empty map delivered as %+v", i, r.Kids)
		}
		i++
		if closeBanks {
			rb.Close()
		}
		return nil
	})
	if err != nil {
		return err
	}
	if i != n {
		return fmt.Errorf("%d records delivered, %d in the file", i, n)
	}
	return nil
}

func TestC05Recursive(t *testing.T) {
	col := stats.New("C05")
	defer col.Flush()
	for round := 0; round < 3; round++ {
		for _, byPointer := range []bool{false, true} {
			for _, closeBanks := range []bool{true, false} {
				c := struct{ ByPointer, CloseBanks bool }{byPointer, closeBanks}
				err := protect(func() error { return recursiveTarget(byPointer, closeBanks) })
				col.Record(c, true, "self_referential_destination")
				if err != nil {
					failCase(t, "C05", "c05recursive", c, err)
				}
			}
		}
	}
}

func init() {
	registerReplay("c05recursive", func(c struct{ ByPointer, CloseBanks bool }) error {
		return recursiveTarget(c.ByPointer, c.CloseBanks)
	})
}
