package checks

import (
	"strings"

	"bytes"
	"encoding/json"
	"fmt"
	"os"
	"path/filepath"
	"pgregory.net/rapid"
	"reflect"
	"testing"
	"time"
	"unsafe"
	"verifh/gen"

	"github.com/philpearl/avro"

	"verifh/cat"
	"verifh/ref"
)

// Native coverage-guided fuzz targets (thorough tier only; Go's fuzzer cannot
// be seeded, so they never run in the quick tier). Each target carries a
// semantic oracle in addition to "does not crash". Seeds come from
// /verif/corpus/<target>/ (valid inputs and the hostile constants).

func addCorpus(f *testing.F, target string) {
	files, _ := filepath.Glob(filepath.Join(verifRoot(), "corpus", target, "*"))
	for _, fn := range files {
		if b, err := os.ReadFile(fn); err == nil {
			f.Add(b)
		}
	}
}

var fuzzFileTargets = []string{"Simple", "Nested", "MapShapes", "Registered", "Omit", "PtrShapes", "Widths"}

// FuzzFile: arbitrary bytes as a container file, read into catalogue targets
// (C06). Files whose embedded schema allows unbounded legal amplification are
// skipped.
func FuzzFile(f *testing.F) {
	addCorpus(f, "file")
	f.Fuzz(func(t *testing.T, data []byte) {
		if lay, err := ref.ParseHeader(data); err == nil || lay.Meta != nil {
			if sj, ok := lay.Meta["avro.schema"]; ok {
				if s, err := ref.ParseSchema(sj); err == nil && (amplifies(s) || minWidth(s) == 0) {
					t.Skip()
				}
			}
		}
		for _, name := range fuzzFileTargets {
			typ := cat.Get(name).Type
			n := 0
			_ = avro.ReadFile(bytes.NewReader(data), reflect.New(typ).Elem().Interface(), func(val unsafe.Pointer, rb *avro.ResourceBank) error {
				n++
				rb.Close()
				if n > 1<<16 {
					return fmt.Errorf("enough")
				}
				return nil
			})
		}
	})
}

// FuzzBody: arbitrary bytes as a record body for codecs built from the
// catalogue types' own schemas, decode and skip paths (C06); when Read
// succeeds, Skip must succeed too and consume the same number of bytes (C04).
func FuzzBody(f *testing.F) {
	addCorpus(f, "body")
	type built struct {
		typ    reflect.Type
		codec  avro.Codec
		schema ref.Schema
	}
	var codecs []built
	for _, name := range fuzzFileTargets {
		typ := cat.Get(name).Type
		zero := reflect.New(typ).Elem().Interface()
		s, err := avro.SchemaForType(zero)
		if err != nil {
			f.Fatal(err)
		}
		c, err := s.Codec(zero)
		if err != nil {
			f.Fatal(err)
		}
		codecs = append(codecs, built{typ, c, fromLib(s)})
	}
	f.Fuzz(func(t *testing.T, data []byte) {
		for _, b := range codecs {
			rb := avro.NewReadBuf(data)
			rerr := b.codec.Read(rb, reflect.New(b.typ).UnsafePointer())
			left := rb.Len()
			rb.ExtractResourceBank().Close()
			sb := avro.NewReadBuf(data)
			serr := b.codec.Skip(sb)
			// differential oracle on inputs the strict reference decoder accepts
			// (block sizes and selectors included): Skip must consume exactly the
			// datum, and so must Read unless a value is unreadable into the Go type
			// (a string that is no timestamp, an integer too wide for its field)
			d := ref.Decoder{Buf: data, Canonical: true}
			if _, derr := d.Decode(b.schema); derr == nil {
				if serr != nil {
					t.Fatalf("valid encoding (%d bytes of % x): Skip fails: %v", d.Pos, data, serr)
				}
				if got := len(data) - sb.Len(); got != d.Pos {
					t.Fatalf("valid encoding % x: the datum is %d bytes, Skip consumed %d", data, d.Pos, got)
				}
				if rerr == nil && len(data)-left != d.Pos {
					t.Fatalf("valid encoding % x: the datum is %d bytes, Read consumed %d", data, d.Pos, len(data)-left)
				}
			}
		}
	})
}

// FuzzSchema: arbitrary text as schema JSON (C06, C14): a document that parses
// must marshal to JSON that parses back to the same schema, and codec
// construction against catalogue targets must not panic.
func FuzzSchema(f *testing.F) {
	addCorpus(f, "schema")
	for _, s := range schemaFragments {
		f.Add([]byte(s))
	}
	f.Fuzz(func(t *testing.T, data []byte) {
		s, err := avro.SchemaFromString(string(data))
		want, rerr := ref.ParseSchema(data)
		if rerr == nil && hasEmptyUnion(want) {
			rerr = fmt.Errorf("empty union: outside the documents a conformant writer produces")
		}
		if err != nil {
			if rerr == nil {
				t.Fatalf("SchemaFromString rejects a schema document the reference parser accepts: %q: %v", data, err)
			}
			return
		}
		if !json.Valid(data) {
			t.Fatalf("malformed JSON accepted: %q", data)
		}
		if rerr == nil {
			// a structurally valid schema document: parse fidelity and marshal stability (C14)
			if d := fromLib(s).Diff(want, ""); d != "" {
				t.Fatalf("parsed schema differs from the document %q: %s", data, d)
			}
			out, err := s.Marshal()
			if err != nil {
				t.Fatalf("Marshal failed for %q: %v", data, err)
			}
			if !json.Valid(out) {
				t.Fatalf("Marshal produced invalid JSON %q from %q", out, data)
			}
			back, err := ref.ParseSchema(out)
			if err != nil {
				t.Fatalf("reference parser rejects Marshal output %q (from %q): %v", out, data, err)
			}
			if d := back.Diff(want, ""); d != "" {
				t.Fatalf("marshal(parse(doc)) differs from doc %q: %s (%q)", data, d, out)
			}
		} else {
			_, _ = s.Marshal() // anything else: only "no panic"
		}
		for _, name := range fuzzFileTargets {
			_, _ = s.Codec(reflect.New(cat.Get(name).Type).Elem().Interface())
		}
	})
}

func hasEmptyUnion(s ref.Schema) bool {
	if s.Kind == "union" && len(s.Branches) == 0 {
		return true
	}
	if s.Items != nil && hasEmptyUnion(*s.Items) {
		return true
	}
	if s.Values != nil && hasEmptyUnion(*s.Values) {
		return true
	}
	for _, f := range s.Fields {
		if hasEmptyUnion(f.Type) {
			return true
		}
	}
	for _, b := range s.Branches {
		if hasEmptyUnion(b) {
			return true
		}
	}
	return false
}

// FuzzTime: arbitrary text as a timestamp (C18): never a panic; inside the
// RFC 3339 grammar, agreement with time.Parse.
func FuzzTime(f *testing.F) {
	addCorpus(f, "time")
	for _, s := range []string{"2006-01-02T15:04:05Z", "2006-01-02T15:04:05.123456789+07:00", "2006-01-02", "2006-01-02T15:04:05,5-00:30", "2006-01-02T15:04:05.", "0000-01-01T00:00:00.0000000001Z"} {
		f.Add([]byte(s))
	}
	f.Fuzz(func(t *testing.T, data []byte) {
		got, err, ngot, nerr, e := decodeTime(data)
		if e != nil {
			t.Skip()
		}
		s := string(data)
		var want time.Time
		var perr error
		switch {
		case len(s) == 10:
			want, perr = time.Parse("2006-01-02", s)
		case rfc3339Grammar.MatchString(s):
			want, perr = time.Parse(time.RFC3339, s)
		default:
			return
		}
		if perr != nil {
			return
		}
		if err != nil || nerr != nil {
			t.Fatalf("%q: time.Parse accepts, decode fails: %v / %v", s, err, nerr)
		}
		if !sameTime(got, want) || !ngot.Valid || !sameTime(ngot.Time, want) {
			t.Fatalf("%q: decoded %v / %v, time.Parse %v", s, got, ngot.Time, want)
		}
	})
}

// ---------------------------------------------------------------------------
// The structured generators under the coverage-guided fuzzer: rapid.MakeFuzz turns
// the fuzzer's bytes into the generator's draws, so the fuzzer's coverage feedback
// steers type shapes, values and call histories (thorough tier only).

func fuzzProp[C any](f *testing.F, property, entry string, draw func(*rapid.T) C, run func(C) (bool, []string, error)) {
	// starting inputs: byte strings long enough for the generator to draw whole cases from
	x := uint64(88172645463325252)
	for i := 0; i < 24; i++ {
		b := make([]byte, 256<<(i%6))
		for j := range b {
			x ^= x << 13
			x ^= x >> 7
			x ^= x << 17
			b[j] = byte(x >> 24)
		}
		f.Add(b)
	}
	f.Fuzz(rapid.MakeFuzz(func(rt *rapid.T) {
		c := draw(rt)
		err := protect(func() error {
			_, _, e := run(c)
			return e
		})
		if err != nil {
			if strings.Contains(err.Error(), "VERIF-INCONCLUSIVE") {
				rt.Skip()
			}
			failCase(rt, property, entry, c, err)
		}
	}))
}

func FuzzC01(f *testing.F) { fuzzProp(f, "C01", "c01", drawEncCase, runC01) }
func FuzzC02(f *testing.F) { fuzzProp(f, "C02", "c02", drawEncCase, runC02) }
func FuzzC03(f *testing.F) {
	o := &gen.WireOpts{MaxDepth: 4, MultiUnion: true, Drop: 8, Logical: true}
	fuzzProp(f, "C03", "c03", func(t *rapid.T) wireCase { return drawWireCase(t, o) }, runC03)
}
func FuzzC13(f *testing.F) { fuzzProp(f, "C13", "c13", drawWriteCase, runC13) }
