package checks

import (
	"fmt"
	"reflect"
	"regexp"
	"sync"
	"testing"
	"time"
	"verifh/iso"

	"github.com/philpearl/avro"
	null "github.com/unravelin/null/v5"
	"pgregory.net/rapid"

	"verifh/gen"
	"verifh/ref"
	"verifh/stats"
)

// C18 — timestamp parsing agrees with the standard library on RFC 3339.

const c18Rule = "strings drawn from the RFC 3339 date-time grammar (year 0000-9999, any month/day/hour/minute/second digits in range, fraction absent or '.'/',' with 1-12 digits, 'Z' or +-hh:mm), " +
	"kept for the agreement clause only if time.Parse(time.RFC3339, s) accepts them; valid YYYY-MM-DD dates (thorough: all ~3.65M enumerated, quick: strided); time.Time values formatted with RFC3339Nano by the standard library and by the library's own time codec; " +
	"for the no-panic clause one-edit mutations and every prefix of valid timestamps and random strings; all through the public path (a string field decoded into time.Time and into null.Time); " +
	"oracle: time.Parse (instant and zone offset), midnight UTC for dates, identity for Format->decode, 'a time or an error, never a panic' otherwise; " +
	"non-trivial = accepted string with a fraction or a numeric offset, or a date; distinct by string"

var rfc3339Grammar = regexp.MustCompile(`^[0-9]{4}-[0-9]{2}-[0-9]{2}T[0-9]{2}:[0-9]{2}:[0-9]{2}([.,][0-9]+)?(Z|[+-][0-9]{2}:[0-9]{2})$`)

type c18Case struct {
	S []byte `json:"s"`
	// ViaLibrary: S is a time (RFC3339Nano); it is first written with the
	// library's own time codec and the text it produced is what gets parsed.
	ViaLibrary bool `json:"via_library,omitempty"`
	// Prev, if set, is a text decoded just before S through the same ReadBuf, from the
	// same memory: what the decoder learned from it must not colour the result for S.
	Prev []byte `json:"prev,omitempty"`
	// Local, if set, is the process's local time zone while the case runs (TZ).
	Local string `json:"local,omitempty"`
}

var c18Zones = []string{"Europe/London", "America/New_York", "Australia/Lord_Howe", "Asia/Kolkata", "Pacific/Chatham", "America/St_Johns"}

func init() { registerReplay("c18", func(c c18Case) error { _, _, err := runC18(c); return err }) }

type timeRec struct {
	T time.Time `json:"t"`
}
type nullTimeRec struct {
	T null.Time `json:"t"`
}

var (
	c18TimeCodec     avro.Codec
	c18NullTimeCodec avro.Codec
)

var (
	c18Once sync.Once
	c18Err  error
)

func c18Codecs() (avro.Codec, avro.Codec, error) {
	c18Once.Do(func() {
		s, err := avro.SchemaFromString(`{"type":"record","name":"r","fields":[{"name":"t","type":"string"}]}`)
		if err != nil {
			c18Err = err
			return
		}
		if c18TimeCodec, err = s.Codec(timeRec{}); err != nil {
			c18Err = err
			return
		}
		s2, err := avro.SchemaFromString(`{"type":"record","name":"r","fields":[{"name":"t","type":["null","string"]}]}`)
		if err != nil {
			c18Err = err
			return
		}
		c18NullTimeCodec, c18Err = s2.Codec(nullTimeRec{})
	})
	return c18TimeCodec, c18NullTimeCodec, c18Err
}

// decodeTime runs the string through both public paths.
func decodeTime(s []byte) (t time.Time, err error, nt null.Time, nerr error, e error) {
	tc, ntc, e := c18Codecs()
	if e != nil {
		return t, nil, nt, nil, fmt.Errorf("VERIF-INCONCLUSIVE building codecs: %v", e)
	}
	body := ref.AppendLong(nil, int64(len(s)))
	body = append(body, s...)
	var r1 timeRec
	err = tc.Read(avro.NewReadBuf(body), reflect.ValueOf(&r1).UnsafePointer())
	t = r1.T
	body2 := append(ref.AppendLong(nil, 1), body...)
	var r2 nullTimeRec
	nerr = ntc.Read(avro.NewReadBuf(body2), reflect.ValueOf(&r2).UnsafePointer())
	nt = r2.T
	return
}

// decodeTimeReused is decodeTime as an application does it: one ReadBuf, Reset over
// a buffer that is overwritten with each new block, so the bytes of the previous
// text are replaced by those of the next one at the same address.
var c18Reuse struct {
	sync.Mutex
	mem  []byte
	mem2 []byte
	rb   *avro.ReadBuf
}

func decodeTimeReused(s []byte) (t time.Time, err error, nt null.Time, nerr error, e error) {
	tc, ntc, e := c18Codecs()
	if e != nil {
		return t, nil, nt, nil, fmt.Errorf("VERIF-INCONCLUSIVE building codecs: %v", e)
	}
	c18Reuse.Lock()
	defer c18Reuse.Unlock()
	if c18Reuse.rb == nil {
		c18Reuse.mem, c18Reuse.mem2 = make([]byte, 0, 256), make([]byte, 0, 256)
		c18Reuse.rb = avro.NewReadBuf(nil)
	}
	body := append(ref.AppendLong(c18Reuse.mem[:0], int64(len(s))), s...)
	var r1 timeRec
	c18Reuse.rb.Reset(body)
	err = tc.Read(c18Reuse.rb, reflect.ValueOf(&r1).UnsafePointer())
	t = r1.T
	body2 := append(ref.AppendLong(c18Reuse.mem2[:0], 1), body...)
	var r2 nullTimeRec
	c18Reuse.rb.Reset(body2)
	nerr = ntc.Read(c18Reuse.rb, reflect.ValueOf(&r2).UnsafePointer())
	nt = r2.T
	c18Reuse.rb.ExtractResourceBank()
	return
}

func sameTime(a, b time.Time) bool {
	_, ao := a.Zone()
	_, bo := b.Zone()
	return a.Equal(b) && ao == bo
}

func runC18(c c18Case) (bool, []string, error) {
	if c.Local != "" {
		loc, err := time.LoadLocation(c.Local)
		if err != nil {
			return false, []string{"zone_database_missing"}, nil
		}
		old := time.Local
		time.Local = loc
		defer func() { time.Local = old }()
		c.Local = ""
		nt, labels, err := runC18(c)
		return nt, append(labels, "local_zone_with_dst"), err
	}
	if c.ViaLibrary {
		tm, err := time.Parse(time.RFC3339Nano, string(c.S))
		if err != nil {
			return false, nil, fmt.Errorf("VERIF-INCONCLUSIVE harness: %v", err)
		}
		text, err := libraryFormat(tm)
		if err != nil {
			return true, []string{"library_formatted"}, fmt.Errorf("writing %v with the library's time codec: %v", tm, err)
		}
		std, err := time.Parse(time.RFC3339Nano, string(text))
		if err != nil || !sameTime(std, tm) {
			return true, []string{"library_formatted"}, fmt.Errorf("time %s was written by the library as %q, which the standard library reads as %v (err %v)", c.S, text, std, err)
		}
		c = c18Case{S: text, Prev: c.Prev}
	}
	s := string(c.S)
	var want time.Time
	var perr error
	isDate := false
	if len(s) == 10 {
		want, perr = time.Parse("2006-01-02", s)
		isDate = perr == nil
	} else {
		want, perr = time.Parse(time.RFC3339, s)
	}
	// each case starts from the same memory contents: whatever an earlier case left there is gone
	c18Reuse.Lock()
	clear(c18Reuse.mem[:cap(c18Reuse.mem)])
	clear(c18Reuse.mem2[:cap(c18Reuse.mem2)])
	c18Reuse.Unlock()
	if c.Prev != nil {
		_, _, _, _, _ = decodeTimeReused(c.Prev)
	}
	got, err, ngot, nerr, e := decodeTimeReused(c.S)
	if e != nil {
		return false, nil, e
	}
	if perr == nil && !isDate && !rfc3339Grammar.MatchString(s) {
		// time.Parse is more lenient than the RFC 3339 grammar (one-digit hours,
		// ...): such strings are outside the agreement clause
		return false, []string{"accepted_by_time_parse_but_not_rfc3339_grammar"}, nil
	}
	if perr != nil || len(s) == 0 {
		// no requirement beyond "a time or an error, never a panic" (protect() reports panics)
		return false, []string{"not_accepted_by_time_parse"}, nil
	}
	labels := []string{"accepted"}
	nt := isDate
	for i := 19; i < len(s); i++ {
		if s[i] == '.' || s[i] == ',' {
			nt = true
			labels = append(labels, "fraction")
			break
		}
	}
	if !isDate && s[len(s)-1] != 'Z' {
		nt = true
		labels = append(labels, "numeric_offset")
	}
	if isDate {
		labels = append(labels, "date_only")
	}
	if err != nil {
		return nt, labels, fmt.Errorf("%q: time.Parse accepts it (%v) but decoding into time.Time failed: %v", s, want, err)
	}
	if !sameTime(got, want) {
		return nt, labels, fmt.Errorf("%q: decoded to %v, time.Parse says %v", s, got.Format(time.RFC3339Nano), want.Format(time.RFC3339Nano))
	}
	if nerr != nil {
		return nt, labels, fmt.Errorf("%q: decoding into null.Time failed: %v", s, nerr)
	}
	if !ngot.Valid || !sameTime(ngot.Time, want) {
		return nt, labels, fmt.Errorf("%q: null.Time decoded to valid=%v %v, time.Parse says %v", s, ngot.Valid, ngot.Time.Format(time.RFC3339Nano), want.Format(time.RFC3339Nano))
	}
	return nt, labels, nil
}

func digits(t *rapid.T, label string, n int, lo, hi int) string {
	v := gen.UniformRange(t, label, lo, hi)
	return fmt.Sprintf("%0*d", n, v)
}

// grammarTimestamp draws a string of the RFC 3339 date-time grammar.
func grammarTimestamp(t *rapid.T) string {
	year := digits(t, "year", 4, 0, 9999)
	if gen.Uniform(t, "yearEdge", 4) == 0 {
		year = rapid.SampledFrom([]string{"0000", "0001", "1969", "1970", "1999", "2000", "2024", "2038", "9999", "0100", "1900"}).Draw(t, "yearE")
	}
	s := year + "-" + digits(t, "month", 2, 1, 12) + "-" + digits(t, "day", 2, 1, 31) + "T" +
		digits(t, "hour", 2, 0, 23) + ":" + digits(t, "min", 2, 0, 59) + ":" + digits(t, "sec", 2, 0, 59)
	switch gen.Uniform(t, "frac", 4) {
	case 0:
	default:
		sep := "."
		if gen.Uniform(t, "comma", 3) == 0 {
			sep = ","
		}
		n := gen.UniformRange(t, "fracDigits", 1, 12)
		if gen.Uniform(t, "longFrac", 8) == 0 {
			n = gen.UniformRange(t, "fracDigitsLong", 13, 90) // the grammar puts no limit on the digits
		}
		f := ""
		for i := 0; i < n; i++ {
			f += string(rune('0' + gen.Uniform(t, "fd", 10)))
		}
		if gen.Uniform(t, "fracEdge", 5) == 0 {
			f = rapid.SampledFrom([]string{"0", "9", "000", "999", "999999999", "000000001", "0000000001", "9999999999", "123456789012", "5", "50", "05"}).Draw(t, "fracE")
		}
		s += sep + f
	}
	if gen.Uniform(t, "zone", 3) == 0 {
		return s + "Z"
	}
	sign := "+"
	if rapid.Bool().Draw(t, "neg") {
		sign = "-"
	}
	return s + sign + digits(t, "zh", 2, 0, 24) + ":" + digits(t, "zm", 2, 0, 59)
}

// libraryFormat writes the time through the library's own string codec and
// returns the text it produced.
func libraryFormat(tm time.Time) ([]byte, error) {
	tc, _, err := c18Codecs()
	if err != nil {
		return nil, err
	}
	wb := avro.NewWriteBuf(nil)
	// the previous value written by the process: the same second seen from another zone
	prev := timeRec{T: tm.Add(300 * time.Millisecond).In(time.FixedZone("", (tm.Second()%27-13)*1800))}
	tc.Write(wb, reflect.ValueOf(&prev).UnsafePointer())
	wb.Reset()
	r := timeRec{T: tm}
	tc.Write(wb, reflect.ValueOf(&r).UnsafePointer())
	d, err := ref.DecodeExact(ref.Schema{Kind: "record", Name: "r", Fields: []ref.Field{{Name: "t", Type: ref.Prim("string")}}}, wb.Bytes())
	if err != nil {
		return nil, err
	}
	return d.Fields[0].S, nil
}

func drawC18(t *rapid.T) c18Case {
	c := drawC18One(t)
	if gen.Uniform(t, "localZone", 4) == 0 {
		// the process runs in a zone with daylight saving; half of the time the text
		// carries one of that zone's own offsets (winter or summer)
		c.Local = c18Zones[gen.Uniform(t, "zoneName", len(c18Zones))]
		if loc, err := time.LoadLocation(c.Local); err == nil && rapid.Bool().Draw(t, "ownOffset") {
			month := []time.Month{time.January, time.July}[gen.Uniform(t, "season", 2)]
			_, off := time.Date(2021, month, 15, 12, 0, 0, 0, loc).Zone()
			sign := byte('+')
			if off < 0 {
				sign, off = '-', -off
			}
			suffix := fmt.Sprintf("%c%02d:%02d", sign, off/3600, off%3600/60)
			n := len(c.S)
			switch {
			case n >= 20 && c.S[n-1] == 'Z':
				c.S = append(append([]byte(nil), c.S[:n-1]...), suffix...)
			case n >= 25 && (c.S[n-6] == '+' || c.S[n-6] == '-'):
				c.S = append(append([]byte(nil), c.S[:n-6]...), suffix...)
			}
		}
	}
	if gen.Uniform(t, "prev", 3) == 0 {
		c.Prev = drawC18One(t).S
		if gen.Uniform(t, "prevSameShape", 2) == 0 && len(c.S) >= 10 {
			// same layout, different date (or the same date with another time)
			c.Prev = append([]byte(nil), c.S...)
			for _, i := range []int{3, 6, 9, 12, 18} {
				if i < len(c.Prev) && c.Prev[i] >= '0' && c.Prev[i] <= '9' && gen.Uniform(t, "prevDigit", 2) == 0 {
					c.Prev[i] = '0' + (c.Prev[i]-'0'+1)%2 // stays a valid digit for every position
				}
			}
		}
	}
	return c
}

// c18Fields: offset and width of the numeric fields of YYYY-MM-DDTHH:MM:SS
var c18Fields = [][2]int{{0, 4}, {5, 2}, {8, 2}, {11, 2}, {14, 2}, {17, 2}}

func drawC18One(t *rapid.T) c18Case {
	switch gen.Uniform(t, "cls", 12) {
	case 11: // one numeric field (or a zone field) set to a value at or just past the end of its range
		b := []byte(grammarTimestamp(t))
		vals := []string{"00", "01", "12", "13", "23", "24", "28", "29", "30", "31", "32", "59", "60", "61", "99"}
		k := gen.Uniform(t, "field", len(c18Fields)+2)
		v := vals[gen.Uniform(t, "fieldVal", len(vals))]
		switch {
		case k == 0:
			copy(b[0:4], rapid.SampledFrom([]string{"0000", "0001", "9999", "0004", "0100", "0400", "1900", "2000", "2100"}).Draw(t, "yearVal"))
		case k < len(c18Fields):
			copy(b[c18Fields[k][0]:], v)
		default:
			// the zone's hours or minutes, if the text has a numeric zone
			if n := len(b); n >= 6 && (b[n-6] == '+' || b[n-6] == '-') {
				if k == len(c18Fields) {
					copy(b[n-5:], v)
				} else {
					copy(b[n-2:], v)
				}
			}
		}
		return c18Case{S: b}
	case 10: // formatted by the LIBRARY's writer: must be RFC 3339 for the same instant, and read back
		var v specTime
		tm := v.draw(t)
		if gen.Uniform(t, "nsShape", 2) == 0 {
			// digits that a hand-written formatter gets wrong: zero groups inside the fraction
			ns := []int{1, 10, 100, 1000, 123000456, 123000000, 456, 999000001, 1000001, 100000000, 120000034}[gen.Uniform(t, "nsEdge", 11)]
			tm = time.Date(tm.Year(), tm.Month(), tm.Day(), tm.Hour(), tm.Minute(), tm.Second(), ns, tm.Location())
		}
		return c18Case{S: []byte(tm.Format(time.RFC3339Nano)), ViaLibrary: true}
	case 0: // formatted time values: Format(RFC3339Nano) -> decode must be the identity
		var v specTime
		return c18Case{S: []byte(v.draw(t).Format(time.RFC3339Nano))}
	case 1: // one-edit mutation of a valid timestamp
		b := []byte(grammarTimestamp(t))
		pos := gen.Uniform(t, "pos", len(b))
		ch := rapid.SampledFrom([]byte{'.', ',', 'Z', '+', '-', ':', 'T', '0', '9', ' ', 'x', 0, 0xff, 'z', 't'}).Draw(t, "ch")
		switch gen.Uniform(t, "edit", 3) {
		case 0:
			b = append(b[:pos:pos], b[pos+1:]...)
		case 1:
			b = append(b[:pos:pos], append([]byte{ch}, b[pos:]...)...)
		default:
			b[pos] = ch
		}
		return c18Case{S: b}
	case 2: // a prefix
		b := []byte(grammarTimestamp(t))
		return c18Case{S: b[:gen.Uniform(t, "cut", len(b)+1)]}
	case 3: // random
		return c18Case{S: rapid.SliceOfN(rapid.Byte(), 0, 40).Draw(t, "random")}
	case 4: // date only
		return c18Case{S: []byte(digits(t, "year", 4, 0, 9999) + "-" + digits(t, "month", 2, 1, 12) + "-" + digits(t, "day", 2, 1, 31))}
	case 5: // a timestamp ending in the fraction separator or with nothing after the fraction
		b := grammarTimestamp(t)
		return c18Case{S: []byte(b[:19] + rapid.SampledFrom([]string{".", ",", ".5", ",123", ".Z", ",+01:00", ".123456789", ".1234567890"}).Draw(t, "tail"))}
	}
	return c18Case{S: []byte(grammarTimestamp(t))}
}

// specTime draws a time.Time in year 1-9999 with ns precision and a whole-minute offset.
type specTime struct{}

func (specTime) draw(t *rapid.T) time.Time {
	sec := rapid.Int64Range(-62135596800+86400, 253402300799-86400).Draw(t, "sec")
	nsec := int64(0)
	switch gen.Uniform(t, "ncls", 3) {
	case 1:
		nsec = rapid.SampledFrom([]int64{1, 999999999, 1000, 1000000, 500000000, 123456789, 100000000, 120000000}).Draw(t, "nsec")
	case 2:
		nsec = rapid.Int64Range(0, 999999999).Draw(t, "nsec")
	}
	tm := time.Unix(sec, nsec).UTC()
	if gen.Uniform(t, "edgeInstant", 25) == 0 {
		// the ends of the range and the epoch, a hair off the round value (UTC, so that the local year stays within 1-9999)
		base := []int64{-62135596800, -62135596800, 0, 253402300799, -62135596799, -1}[gen.Uniform(t, "edgeBase", 6)]
		return time.Unix(base, []int64{1, 500000000, 999999999, 0, 250000000, 1000}[gen.Uniform(t, "edgeNs", 6)]).UTC()
	}
	if gen.Uniform(t, "ocls", 2) == 1 {
		tm = tm.In(time.FixedZone("", 60*rapid.IntRange(-23*60-59, 23*60+59).Draw(t, "off")))
	}
	return tm
}

func TestC18(t *testing.T) {
	col := stats.New("C18")
	col.Rule = c18Rule
	propCheck(t, col, "c18", drawC18, runC18)
}

// TestC18Dates enumerates valid calendar dates: all of 0000-01-01..9999-12-31
// in the thorough tier (sharded), a seeded stride in the quick tier.
func TestC18Dates(t *testing.T) {
	col := stats.New("C18")
	col.Rule = c18Rule
	defer col.Flush()
	start := time.Date(0, 1, 1, 0, 0, 0, 0, time.UTC)
	const total = 3652425 // days in 10000 proleptic Gregorian years
	si, sn := shard()
	step := 1
	off := 0
	if !thorough() {
		step = 61
		off = int(seedVal()*17) % step
		si, sn = 0, 1
	} else {
		col.Exhaustive = true
	}
	lo, hi := total*si/sn, total*(si+1)/sn
	var n int64
	for d := lo + off; d < hi; d += step {
		day := start.AddDate(0, 0, d)
		if day.Year() > 9999 {
			break
		}
		s := day.Format("2006-01-02")
		got, err, ngot, nerr, e := decodeTime([]byte(s))
		if e != nil {
			t.Fatalf("%v", e)
		}
		if err != nil || nerr != nil || !sameTime(got, day) || !ngot.Valid || !sameTime(ngot.Time, day) {
			failCase(t, "C18", "c18", c18Case{S: []byte(s)}, fmt.Errorf("date %q decoded to %v (err %v) / null.Time %v (err %v), want midnight UTC %v", s, got, err, ngot.Time, nerr, day))
		}
		n++
	}
	col.Bulk(n)
	col.AddDistinct(n)
	col.LabelN("dates_enumerated", n)
	col.Sample(c18Case{S: []byte("2024-02-29")})
}

// ---------------------------------------------------------------------------
// First use: the first timestamps a process ever parses (caches and memos are
// in their initial state). Each case runs in a fresh worker process.

type c18FirstCase struct {
	Strs [][]byte `json:"strs"`
}

func init() {
	registerIso("c18first", func(c c18FirstCase) error {
		for _, s := range c.Strs {
			if _, _, err := runC18(c18Case{S: s}); err != nil {
				return err
			}
		}
		return nil
	})
	registerReplay("c18first", func(c c18FirstCase) error {
		w, err := iso.NewWorker()
		if err != nil {
			return fmt.Errorf("VERIF-INCONCLUSIVE cannot start worker: %v", err)
		}
		defer w.Close()
		_, err = isoVerdict(w, "c18first", c, 30*time.Second)
		return err
	})
}

func TestC18Fresh(t *testing.T) {
	col := stats.New("C18")
	col.Rule = c18Rule
	defer col.Flush()
	w, err := iso.NewWorker()
	if err != nil {
		t.Fatalf("VERIF-INCONCLUSIVE cannot start worker: %v", err)
	}
	defer w.Close()
	firsts := []string{"2006-01-02T15:04:05+00:00", "2006-01-02T15:04:05-00:00", "2006-01-02T15:04:05Z", "2006-01-02", "2006-01-02T15:04:05.5+00:01",
		"2006-01-02T15:04:05-00:01", "2006-01-02T15:04:05+14:00", "2006-01-02T15:04:05-12:00", "0000-01-01T00:00:00Z", "9999-12-31T23:59:59.999999999+00:00"}
	rapid.Check(t, func(rt *rapid.T) {
		var c c18FirstCase
		c.Strs = append(c.Strs, []byte(firsts[gen.Uniform(rt, "first", len(firsts))]))
		if gen.Uniform(rt, "firstFromGrammar", 3) == 0 {
			c.Strs[0] = []byte(grammarTimestamp(rt))
		}
		for n := gen.UniformRange(rt, "more", 0, 3); n > 0; n-- {
			c.Strs = append(c.Strs, drawC18One(rt).S)
		}
		col.Record(c, true, "first_use_in_a_process")
		w.Restart()
		if _, err := isoVerdict(w, "c18first", c, 30*time.Second); err != nil {
			col.Flush()
			failCase(rt, "C18", "c18first", c, err)
		}
	})
}
