package checks

import (
	"bytes"
	"fmt"
	"reflect"
	"testing"
	"unsafe"

	"github.com/philpearl/avro"
	"pgregory.net/rapid"

	"verifh/gen"
	"verifh/ref"
	"verifh/spec"
	"verifh/stats"
)

// C04 — projection and skip.

const c04Rule = "C03's generator plus a projection of the full target (delete any subset of fields at any depth, permute field order, add fields the schema lacks) " +
	"and a two-field wrapper record {v: X, sentinel: long}; oracle (metamorphic): full and projected decodes both succeed with the same record count, every surviving field path agrees, added fields are zero; " +
	"Codec.Skip and Codec.Read leave ReadBuf.Len()==0 on the same bytes and the projected decode recovers the sentinel; " +
	"non-trivial = the skipped part contains a nested record, a collection of collections, a size-prefixed block or a union AND a field is decoded after a skipped one; distinct by case JSON hash"

type projCase struct {
	Wire      wireCase      `json:"wire"`
	Projected spec.TypeSpec `json:"projected"`
	ProjGo    string        `json:"projected_go"`
	Sentinel  int64         `json:"sentinel"`
}

func init() { registerReplay("c04", func(c projCase) error { _, _, err := runC04(c); return err }) }

// project draws a projection of ts: fields deleted, permuted and added at every struct level.
func project(t *rapid.T, ts spec.TypeSpec, depth int) spec.TypeSpec {
	switch ts.K {
	case "ptr", "slice", "map":
		e := project(t, *ts.Elem, depth)
		out := ts
		out.Elem = &e
		return out
	case "struct":
		out := spec.TypeSpec{K: "struct"}
		mode := gen.Uniform(t, "projMode", 6) // 0: keep all, 5: delete all
		for _, f := range ts.Fields {
			if f.Unexported {
				continue // not a field a projection can name (named types generated for the run have them)
			}
			keep := true
			switch mode {
			case 5:
				keep = false
			case 0:
			default:
				keep = gen.Uniform(t, "keep", 3) != 0
			}
			if !keep {
				continue
			}
			nf := f
			nf.T = project(t, f.T, depth+1)
			out.Fields = append(out.Fields, nf)
		}
		for n := gen.Uniform(t, "nadd", 3); n > 0; n-- {
			at := gen.Type(t, gen.TypeOpts{MaxDepth: 2, NoTags: true}, 1)
			out.Fields = append(out.Fields, spec.FieldSpec{Go: "Add", JSON: fmt.Sprintf("zz_added_%d_%d", depth, n), T: at})
		}
		// permute, then give Go names by position (Go names must be unique; the json name carries the identity)
		for i := len(out.Fields) - 1; i > 0; i-- {
			j := gen.Uniform(t, "perm", i+1)
			out.Fields[i], out.Fields[j] = out.Fields[j], out.Fields[i]
		}
		for i := range out.Fields {
			out.Fields[i].Go = fmt.Sprintf("P%d", i)
		}
		return out
	}
	return ts
}

// sameProjected compares the projected decode with the full decode on every
// surviving field path.
func sameProjected(fts spec.TypeSpec, fv reflect.Value, pts spec.TypeSpec, pv reflect.Value, path string) error {
	switch pts.K {
	case "ptr":
		if fv.IsNil() != pv.IsNil() {
			return fmt.Errorf("%s: pointer nil in one decode only (full nil=%v, projected nil=%v)", path, fv.IsNil(), pv.IsNil())
		}
		if fv.IsNil() {
			return nil
		}
		return sameProjected(*fts.Elem, fv.Elem(), *pts.Elem, pv.Elem(), path)
	case "slice":
		if fv.Len() != pv.Len() {
			return fmt.Errorf("%s: slice length %d in full decode, %d in projected", path, fv.Len(), pv.Len())
		}
		for i := 0; i < fv.Len(); i++ {
			if err := sameProjected(*fts.Elem, fv.Index(i), *pts.Elem, pv.Index(i), fmt.Sprintf("%s[%d]", path, i)); err != nil {
				return err
			}
		}
		return nil
	case "map":
		if fv.Len() != pv.Len() {
			return fmt.Errorf("%s: map size %d in full decode, %d in projected", path, fv.Len(), pv.Len())
		}
		for _, k := range fv.MapKeys() {
			pe := pv.MapIndex(k)
			if !pe.IsValid() {
				return fmt.Errorf("%s: key %q missing in projected decode", path, k.String())
			}
			if err := sameProjected(*fts.Elem, fv.MapIndex(k), *pts.Elem, pe, fmt.Sprintf("%s{%q}", path, k.String())); err != nil {
				return err
			}
		}
		return nil
	case "struct":
		for j, pf := range pts.Fields {
			found := false
			for i, ff := range fts.Fields {
				if ff.AvroName() == pf.AvroName() && pf.AvroName() != "" {
					found = true
					if err := sameProjected(ff.T, fv.Field(i), pf.T, pv.Field(j), path+"."+pf.AvroName()); err != nil {
						return err
					}
				}
			}
			if !found && !pv.Field(j).IsZero() {
				return fmt.Errorf("%s.%s: field absent from the file holds %v", path, pf.AvroName(), pv.Field(j))
			}
		}
		return nil
	}
	a, b := spec.Abs(fts, false, fv), spec.Abs(pts, false, pv)
	if err := spec.Match(a, b, path); err != nil {
		return fmt.Errorf("projected decode differs from full decode: %w", err)
	}
	return nil
}

// skippedInteresting: does the projection skip something structurally interesting, and decode a field after a skipped one?
func skippedInteresting(s ref.Schema, full, proj spec.TypeSpec) (interesting, fieldAfterSkip bool) {
	if s.Kind != "record" {
		return false, false
	}
	skippedSeen := false
	for _, f := range s.Fields {
		var pf *spec.FieldSpec
		for i := range proj.StripPtr().Fields {
			if proj.StripPtr().Fields[i].AvroName() == f.Name {
				pf = &proj.StripPtr().Fields[i]
			}
		}
		if pf == nil {
			skippedSeen = true
			switch f.Type.Kind {
			case "record", "union":
				interesting = true
			case "array":
				if k := f.Type.Items.Kind; k == "array" || k == "map" || k == "record" || k == "union" {
					interesting = true
				}
			case "map":
				if k := f.Type.Values.Kind; k == "array" || k == "map" || k == "record" || k == "union" {
					interesting = true
				}
			}
			continue
		}
		if skippedSeen {
			fieldAfterSkip = true
		}
		if f.Type.Kind == "record" {
			var ff spec.TypeSpec
			for _, x := range full.StripPtr().Fields {
				if x.AvroName() == f.Name {
					ff = x.T
				}
			}
			i2, a2 := skippedInteresting(f.Type, ff, pf.T)
			interesting = interesting || i2
			fieldAfterSkip = fieldAfterSkip || a2
		}
	}
	return
}

func runC04(c projCase) (bool, []string, error) {
	w := c.Wire
	// only files whose every value fits the full target are in this property's domain
	for _, d := range w.Datums {
		if !datumFits(w.Schema, d, w.Target) {
			return false, []string{"misfit_skipped"}, nil
		}
	}
	file, lay, st, err := buildWireFile(w)
	if err != nil {
		return false, nil, err
	}
	_, labels := wireLabels(w, st, len(lay.Blocks))
	interesting, after := skippedInteresting(w.Schema, w.Target, c.Projected)
	if st.Sized > 0 {
		interesting = true
	}
	nt := interesting && after && len(w.Datums) > 0
	if len(c.Projected.Fields) == 0 {
		labels = append(labels, "no_matching_field")
	}
	ftyp, ptyp := spec.Build(w.Target), spec.Build(c.Projected)
	// recycled banks full of the same file's values: a field the projected target
	// adds, or that the file lacks, must still come out zero
	dirtyBanks(file, ftyp)
	full, err := readWire(file, ftyp)
	if err != nil {
		return nt, labels, fmt.Errorf("full decode failed: %v", err)
	}
	dirtyTarget := len(w.Sync) > 2 && w.Sync[2]%2 == 0
	if dirtyTarget {
		labels = append(labels, "dirty_target")
	}
	proj, err := readWireInto(bytes.NewReader(file), ptyp, dirtyTarget)
	if err != nil {
		return nt, labels, fmt.Errorf("projected decode failed although the full decode succeeds: %v", err)
	}
	if len(full) != len(w.Datums) || len(proj) != len(w.Datums) {
		return nt, labels, fmt.Errorf("file holds %d records; full decode delivered %d, projected %d", len(w.Datums), len(full), len(proj))
	}
	for i := range full {
		if err := sameProjected(w.Target, full[i], c.Projected, proj[i], fmt.Sprintf("record[%d]", i)); err != nil {
			return nt, labels, err
		}
	}

	// skip = read, on a wrapper {v: <record>, sentinel: long}
	wrap := ref.Schema{Kind: "record", Name: "Wrap", Fields: []ref.Field{{Name: "v", Type: w.Schema}, {Name: "sentinel", Type: ref.Prim("long")}}}
	fullT := spec.Struct(spec.FieldSpec{Go: "V", JSON: "v", T: w.Target}, spec.FieldSpec{Go: "S", JSON: "sentinel", T: spec.T("int64")})
	onlyT := spec.Struct(spec.FieldSpec{Go: "S", JSON: "sentinel", T: spec.T("int64")})
	lib, err := avro.SchemaFromString(ref.Render(wrap, nil))
	if err != nil {
		return nt, labels, fmt.Errorf("SchemaFromString on wrapper: %v", err)
	}
	fullC, err := lib.Codec(reflect.New(spec.Build(fullT)).Elem().Interface())
	if err != nil {
		return nt, labels, fmt.Errorf("Schema.Codec(full wrapper): %v", err)
	}
	onlyC, err := lib.Codec(reflect.New(spec.Build(onlyT)).Elem().Interface())
	if err != nil {
		return nt, labels, fmt.Errorf("Schema.Codec(sentinel-only wrapper): %v", err)
	}
	enc := ref.Encoder{C: &ref.Choices{Bits: w.Choices}}
	for i, d := range w.Datums {
		body, err := enc.Encode(nil, wrap, ref.Datum{K: "record", Fields: []ref.Datum{d, ref.Long(c.Sentinel)}})
		if err != nil {
			return nt, labels, fmt.Errorf("VERIF-INCONCLUSIVE harness: %v", err)
		}
		rb := avro.NewReadBuf(body)
		fv := reflect.New(spec.Build(fullT))
		if err := fullC.Read(rb, fv.UnsafePointer()); err != nil {
			return nt, labels, fmt.Errorf("datum %d: Read failed: %v", i, err)
		}
		if rb.Len() != 0 {
			return nt, labels, fmt.Errorf("datum %d: Read left %d of %d bytes", i, rb.Len(), len(body))
		}
		if got := fv.Elem().Field(1).Int(); got != c.Sentinel {
			return nt, labels, fmt.Errorf("datum %d: full decode read sentinel %d, want %d", i, got, c.Sentinel)
		}
		rb = avro.NewReadBuf(body)
		if err := fullC.Skip(rb); err != nil {
			return nt, labels, fmt.Errorf("datum %d: Skip failed where Read succeeds: %v", i, err)
		}
		if rb.Len() != 0 {
			return nt, labels, fmt.Errorf("datum %d: Skip left %d of %d bytes, Read left 0", i, rb.Len(), len(body))
		}
		rb = avro.NewReadBuf(body)
		ov := reflect.New(spec.Build(onlyT))
		if err := onlyC.Read(rb, unsafe.Pointer(ov.UnsafePointer())); err != nil {
			return nt, labels, fmt.Errorf("datum %d: decode that skips v failed: %v", i, err)
		}
		if got := ov.Elem().Field(0).Int(); got != c.Sentinel || rb.Len() != 0 {
			return nt, labels, fmt.Errorf("datum %d: after skipping v the sentinel reads %d (want %d), %d bytes left", i, got, c.Sentinel, rb.Len())
		}
	}
	return nt, labels, nil
}

func TestC04(t *testing.T) {
	col := stats.New("C04")
	col.Rule = c04Rule
	propCheck(t, col, "c04", func(t *rapid.T) projCase {
		d := 3
		if thorough() {
			d = 5
		}
		var c projCase
		c.Wire = drawWireCase(t, &gen.WireOpts{MaxDepth: d, MultiUnion: true, Drop: 0, ManyDatums: true})
		c.Projected = project(t, c.Wire.Target, 0)
		c.ProjGo = c.Projected.GoString()
		c.Sentinel = gen.IntIn(t, "sentinel", -1<<62, 1<<62)
		return c
	}, runC04)
}
