package checks

import (
	"encoding/json"
	"fmt"
	"testing"
	"time"

	"verifh/iso"
)

// isoHandlers are the entry points the worker subprocess serves.
var isoHandlers = map[string]iso.Handler{}

func registerIso[C any](entry string, run func(C) error) {
	isoHandlers[entry] = func(raw json.RawMessage) (json.RawMessage, error) {
		var c C
		if err := json.Unmarshal(raw, &c); err != nil {
			return nil, fmt.Errorf("VERIF-INCONCLUSIVE cannot decode case: %v", err)
		}
		return nil, run(c)
	}
}

func TestIsoWorker(t *testing.T) {
	if !iso.IsWorker() {
		t.Skip("not a worker process")
	}
	iso.Serve(isoHandlers)
}

// isoVerdict evaluates a case in the worker and folds process death, timeout
// and panic into an error.
func isoVerdict(w *iso.Worker, entry string, cs interface{}, timeout time.Duration) (iso.Response, error) {
	resp, outcome, text := w.Call(entry, cs, timeout)
	if outcome != iso.Returned || resp.Panic != "" || resp.Err != "" {
		return resp, fmt.Errorf("%s", iso.Describe(outcome, resp, text))
	}
	return resp, nil
}
