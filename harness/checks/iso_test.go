package checks

import (
	"encoding/json"
	"fmt"
	"testing"
	"time"

	"verifh/iso"
)

// isoHandlers are the entry points the worker subprocess serves.
var isoHandlers = map[string]iso.Handler{}

func registerIso[C any](entry string, run func(C) error) {
	isoHandlers[entry] = func(raw json.RawMessage) (json.RawMessage, error) {
		var c C
		if err := json.Unmarshal(raw, &c); err != nil {
			return nil, fmt.Errorf("VERIF-INCONCLUSIVE cannot decode case: %v", err)
		}
		return nil, run(c)
	}
}

func TestIsoWorker(t *testing.T) {
	if !iso.IsWorker() {
		t.Skip("not a worker process")
	}
	iso.Serve(isoHandlers)
}

// isoVerdict evaluates a case in the worker and folds process death, timeout
// and panic into an error.
// callTwice is Worker.Call with one repetition when no answer came in time: no
// answer is a verdict only if it repeats (in a fresh worker, with three times
// the watchdog). A loaded machine can stall a process for a while; an input
// that makes the library hang does so again.
func callTwice(w *iso.Worker, entry string, cs interface{}, timeout time.Duration) (iso.Response, iso.Outcome, string) {
	resp, outcome, text := w.Call(entry, cs, timeout)
	if outcome == iso.TimedOut {
		isoSlowRetries++
		resp, outcome, text = w.Call(entry, cs, 3*timeout)
	}
	return resp, outcome, text
}

var isoSlowRetries int64

func isoVerdict(w *iso.Worker, entry string, cs interface{}, timeout time.Duration) (iso.Response, error) {
	resp, outcome, text := callTwice(w, entry, cs, timeout)
	if outcome != iso.Returned || resp.Panic != "" || resp.Err != "" {
		return resp, fmt.Errorf("%s", iso.Describe(outcome, resp, text))
	}
	return resp, nil
}

// registerIsoResult is registerIso for handlers that also return a result value.
func registerIsoResult[C any, R any](entry string, run func(C) (R, error)) {
	isoHandlers[entry] = func(raw json.RawMessage) (json.RawMessage, error) {
		var c C
		if err := json.Unmarshal(raw, &c); err != nil {
			return nil, fmt.Errorf("VERIF-INCONCLUSIVE cannot decode case: %v", err)
		}
		r, err := run(c)
		b, _ := json.Marshal(r)
		return b, err
	}
}

func jsonUnmarshal(raw json.RawMessage, v interface{}) {
	if len(raw) > 0 {
		_ = json.Unmarshal(raw, v)
	}
}
