package checks

import (
	"fmt"
	"reflect"
	"testing"

	"github.com/philpearl/avro"
	"pgregory.net/rapid"

	"verifh/gen"
	"verifh/ref"
	"verifh/spec"
	"verifh/stats"
)

// C13 — codecs built from caller-supplied schemas write valid data and invert.

const c13Rule = "rapid draws of caller-written record schemas (null first or second, int/long/float/double, fixed, nested records, arrays, maps, logical date / timestamp-millis / timestamp-micros) " +
	"with a covering Go struct chosen node by node (Go int/int16/int32/int64, float32/float64, time.Time, null.*, pointers, [N]byte) and values inside the schema type's range; " +
	"oracle: if Schema.Codec succeeds, Codec.Write output decodes with the reference decoder under the caller's schema with an exact fit to a datum that agrees with the Go value " +
	"(null in the position the schema puts it, times as the integer the logical type defines), and Codec.Read of those bytes consumes them all and agrees with that datum; " +
	"non-trivial = the schema differs from what SchemaForType generates for the Go type (null second, narrower numeric type, logical type, fixed); distinct by case JSON hash"

type writeCase struct {
	Schema ref.Schema       `json:"schema"`
	Target spec.TypeSpec    `json:"target"`
	GoType string           `json:"go_type"`
	Values []spec.ValueSpec `json:"values"`
}

func init() { registerReplay("c13", func(c writeCase) error { _, _, err := runC13(c); return err }) }

func hasKindOrLogical(s ref.Schema) (narrow, logical, fixed bool) {
	var walk func(s ref.Schema)
	walk = func(s ref.Schema) {
		switch s.Kind {
		case "int", "float":
			narrow = true
		case "fixed":
			fixed = true
		}
		if s.LogicalType != "" {
			logical = true
		}
		if s.Items != nil {
			walk(*s.Items)
		}
		if s.Values != nil {
			walk(*s.Values)
		}
		for _, f := range s.Fields {
			walk(f.Type)
		}
		for _, b := range s.Branches {
			walk(b)
		}
	}
	walk(s)
	return
}

var (
	c13Scratch  []byte
	c13ReadBuf  = avro.NewReadBuf(nil)
	c13WriteBuf = avro.NewWriteBuf(make([]byte, 0, 128))
)

func runC13(c writeCase) (bool, []string, error) {
	var labels []string
	narrow, logical, fixed := hasKindOrLogical(c.Schema)
	ns := hasNullSecond(c.Schema)
	for name, on := range map[string]bool{"null_second": ns, "narrow_numeric": narrow, "logical_type": logical, "fixed": fixed} {
		if on {
			labels = append(labels, name)
		}
	}
	for _, v := range c.Values {
		if hasRep(v) {
			labels = append(labels, "array_of_more_than_a_megabyte")
			break
		}
	}
	nt := (ns || narrow || logical || fixed) && len(c.Values) > 0
	typ := spec.Build(c.Target)
	lib, err := avro.SchemaFromString(ref.Render(c.Schema, nil))
	if err != nil {
		return nt, labels, fmt.Errorf("SchemaFromString rejects the caller's schema: %v", err)
	}
	codec, err := lib.Codec(reflect.New(typ).Elem().Interface())
	if err != nil {
		return false, append(labels, "refused"), nil
	}
	// the schema is the caller's value: building a codec leaves it as it was, and a
	// second codec built from it is as good as the first
	if d := fromLib(lib).Diff(c.Schema, ""); d != "" {
		return nt, labels, fmt.Errorf("building a codec changed the caller's schema value: %s", d)
	}
	first := codec
	// (the second one asked for through a pointer to the struct, which names the same type)
	second, err := lib.Codec(reflect.New(typ).Interface())
	if err != nil {
		return nt, labels, fmt.Errorf("a second codec from the same schema value (out given as a pointer to the struct) is refused: %v", err)
	}
	// one WriteBuf for every value, Reset in between (what the Encoder does between
	// blocks). Before the values under test, a value the schema cannot hold (a 64-bit
	// number in an "int" column) goes through the same codec and buffer, if the pair has
	// such a column: whatever the library makes of THAT write, the writes after the
	// Reset are judged as always
	if len(c.Values) > 0 {
		for si, sf := range c.Schema.Fields {
			if sf.Type.Kind != "int" || sf.Type.LogicalType != "" {
				continue
			}
			for ti, tf := range c.Target.Fields {
				if tf.AvroName() == sf.Name && (tf.T.K == "int64" || tf.T.K == "int") && ti < len(c.Values[0].Fields) {
					probe := c.Values[0]
					probe.Fields = append([]spec.ValueSpec(nil), probe.Fields...)
					probe.Fields[ti] = spec.ValueSpec{I: 1<<40 + int64(si)}
					pv := spec.New(c.Target, probe)
					_ = protect(func() error { first.Write(c13WriteBuf, pv.UnsafePointer()); return nil })
					labels = append(labels, "out_of_range_write_first")
				}
			}
		}
	}
	for i, vs := range c.Values {
		codec = first
		if i%2 == 1 {
			codec = second
		}
		in := spec.New(c.Target, vs)
		wb := c13WriteBuf
		wb.Reset()
		codec.Write(wb, in.UnsafePointer())
		out := append([]byte(nil), wb.Bytes()...)
		d, err := ref.DecodeExact(c.Schema, out)
		if err != nil {
			return nt, labels, fmt.Errorf("value %d: Codec.Write output % x is not a valid encoding under the caller's schema: %v", i, out, err)
		}
		if err := agree(c.Schema, d, c.Target, false, in.Elem(), dirWrite, fmt.Sprintf("value[%d]", i)); err != nil {
			return nt, labels, fmt.Errorf("written bytes do not denote the Go value: %w", err)
		}
		// decoded, as a long-lived consumer does, from one input buffer and one ReadBuf
		// used for every message (what sits in the buffer changes under whatever an
		// earlier decode may have kept a reference to)
		if cap(c13Scratch) < len(out) {
			c13Scratch = make([]byte, 0, 2*len(out)+64)
		}
		c13Scratch = append(c13Scratch[:0], out...)
		rb := c13ReadBuf
		rb.Reset(c13Scratch)
		back := reflect.New(typ)
		if err := codec.Read(rb, back.UnsafePointer()); err != nil {
			return nt, labels, fmt.Errorf("value %d: Codec.Read of the codec's own output failed: %v", i, err)
		}
		if rb.Len() != 0 {
			return nt, labels, fmt.Errorf("value %d: Codec.Read left %d of %d bytes", i, rb.Len(), len(out))
		}
		if err := agree(c.Schema, d, c.Target, false, back.Elem(), dirRead, fmt.Sprintf("value[%d]", i)); err != nil {
			return nt, labels, fmt.Errorf("read-back differs from what was written: %w", err)
		}
		// done with the value: its bank goes back to the pool, to be handed out for
		// a later decode (of another size, of another type)
		rb.ExtractResourceBank().Close()
	}
	return nt, labels, nil
}

func addLocalFields(ts *spec.TypeSpec, depth int) {
	if ts.Elem != nil {
		addLocalFields(ts.Elem, depth)
	}
	if ts.K != "struct" {
		return
	}
	for i := range ts.Fields {
		addLocalFields(&ts.Fields[i].T, depth+1)
	}
	local := spec.FieldSpec{Go: "Local", JSON: fmt.Sprintf("zz_local_%d", depth), T: spec.T([]string{"int64", "string", "int16"}[depth%3])}
	if depth%2 == 0 {
		ts.Fields = append(ts.Fields, local)
	} else {
		ts.Fields = append([]spec.FieldSpec{local}, ts.Fields...)
	}
}

func drawWriteCase(t *rapid.T) writeCase {
	d := 3
	if thorough() {
		d = 4
	}
	o := &gen.WireOpts{MaxDepth: d, Logical: true, Writable: true}
	var c writeCase
	c.Schema = gen.WireRecord(t, o, 0)
	tgt, _ := gen.Target(t, c.Schema, o, false)
	c.Target = tgt
	if gen.Uniform(t, "localFields", 3) == 0 {
		// the application's own fields next to the schema's, at every level (the struct
		// covers the schema; it need not consist of it)
		addLocalFields(&c.Target, 0)
	}
	c.GoType = c.Target.GoString()
	n := gen.UniformRange(t, "nvalues", 1, 4)
	for i := 0; i < n; i++ {
		c.Values = append(c.Values, gen.WireValue(t, c.Schema, c.Target))
	}
	return c
}

func TestC13(t *testing.T) {
	col := stats.New("C13")
	col.Rule = c13Rule
	propCheck(t, col, "c13", drawWriteCase, runC13)
}
