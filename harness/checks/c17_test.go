package checks

import (
	"bytes"
	"encoding/binary"
	"fmt"
	"math"
	"testing"
	"unsafe"

	"github.com/philpearl/avro"
	"pgregory.net/rapid"

	"verifh/ref"
	"verifh/stats"
)

// C17 — primitive wire encodings match the specification.

const c17Rule = "enumeration of int16 (all), int32 and float32 bit patterns (all 2^32 in thorough; boundaries + seeded stride in quick), " +
	"int64/float64 boundaries + rapid draws, candidate varints (all strings of length <=2, every continuation pattern of length 3..11 with drawn payloads); " +
	"oracle: independent zig-zag/base-128 and IEEE-754 implementations in ref; non-trivial = value within 2 of a varint length boundary, " +
	"NaN/Inf/-0/subnormal, or a candidate varint the reference rejects; distinct by value (each value is visited once per run)"

type c17Case struct {
	Codec string `json:"codec"`
	Value string `json:"value"`           // decimal or hex bit pattern
	Bytes []byte `json:"bytes,omitempty"` // candidate varint
}

func init() {
	registerReplay("c17", runC17Case)
}

// near a varint length boundary: |v| within 2 of 2^(7k-1)
func nearBoundary(v int64) bool {
	for k := 1; k <= 9; k++ {
		b := int64(1) << (7*uint(k) - 1)
		for _, c := range []int64{b, -b} {
			d := v - c
			if d >= -2 && d <= 2 {
				return true
			}
		}
	}
	return v >= math.MaxInt64-2 || v <= math.MinInt64+2 || (v >= -2 && v <= 2)
}

type intTester struct {
	w   *avro.WriteBuf
	r   *avro.ReadBuf
	exp []byte
}

func newIntTester() *intTester {
	return &intTester{w: avro.NewWriteBuf(make([]byte, 0, 32)), r: avro.NewReadBuf(nil)}
}

// checkInt checks Write against the reference and Read∘Write = id for one
// value under the codec of the given width.
func (it *intTester) checkInt(width int, v int64) error {
	it.w.Reset()
	it.exp = ref.AppendLong(it.exp[:0], v)
	var got int64
	var c avro.Codec
	switch width {
	case 16:
		x := int16(v)
		c = avro.Int16Codec{}
		c.Write(it.w, unsafe.Pointer(&x))
	case 32:
		x := int32(v)
		c = avro.Int32Codec{}
		c.Write(it.w, unsafe.Pointer(&x))
	default:
		x := v
		c = avro.Int64Codec{}
		c.Write(it.w, unsafe.Pointer(&x))
	}
	out := it.w.Bytes()
	if !bytes.Equal(out, it.exp) {
		return fmt.Errorf("int%d %d: Write produced % x, specification says % x", width, v, out, it.exp)
	}
	maxLen := map[int]int{16: 3, 32: 5, 64: 10}[width]
	if len(out) > maxLen {
		return fmt.Errorf("int%d %d: %d bytes written, more than %d", width, v, len(out), maxLen)
	}
	it.r.Reset(out)
	var err error
	switch width {
	case 16:
		var x int16
		err = c.Read(it.r, unsafe.Pointer(&x))
		got = int64(x)
	case 32:
		var x int32
		err = c.Read(it.r, unsafe.Pointer(&x))
		got = int64(x)
	default:
		err = c.Read(it.r, unsafe.Pointer(&got))
	}
	if err != nil {
		return fmt.Errorf("int%d %d: Read of own encoding failed: %v", width, v, err)
	}
	if got != v {
		return fmt.Errorf("int%d %d: read back %d", width, v, got)
	}
	if it.r.Len() != 0 {
		return fmt.Errorf("int%d %d: %d bytes left after Read", width, v, it.r.Len())
	}
	it.r.Reset(out)
	if err := c.Skip(it.r); err != nil || it.r.Len() != 0 {
		return fmt.Errorf("int%d %d: Skip err=%v left=%d", width, v, err, it.r.Len())
	}
	return nil
}

func TestC17Int16All(t *testing.T) {
	col := stats.New("C17")
	col.Rule = c17Rule
	col.Exhaustive = true
	defer col.Flush()
	it := newIntTester()
	var nt int64
	for v := int64(math.MinInt16); v <= math.MaxInt16; v++ {
		if err := it.checkInt(16, v); err != nil {
			failCase(t, "C17", "c17", c17Case{Codec: "int16", Value: fmt.Sprint(v)}, err)
		}
		if nearBoundary(v) {
			nt++
		}
	}
	col.Bulk(65536)
	col.AddDistinct(nt)
	col.LabelN("int16_values", 65536)
	col.Sample(c17Case{Codec: "int16", Value: "-8193"})
}

func boundaryInts() []int64 {
	var out []int64
	add := func(v int64) { out = append(out, v) }
	for k := 0; k <= 63; k++ {
		b := int64(1) << uint(k)
		for d := int64(-2); d <= 2; d++ {
			add(b + d)
			add(-b + d)
		}
	}
	add(math.MaxInt64)
	add(math.MinInt64)
	add(math.MaxInt64 - 1)
	add(math.MinInt64 + 1)
	return out
}

func TestC17Int32(t *testing.T) {
	col := stats.New("C17")
	col.Rule = c17Rule
	defer col.Flush()
	it := newIntTester()
	var nt, n int64
	try := func(v int64) {
		if err := it.checkInt(32, v); err != nil {
			failCase(t, "C17", "c17", c17Case{Codec: "int32", Value: fmt.Sprint(v)}, err)
		}
		n++
		if nearBoundary(v) {
			nt++
		}
	}
	if thorough() {
		si, sn := shard()
		lo := int64(math.MinInt32) + int64(si)*(1<<32)/int64(sn)
		hi := int64(math.MinInt32) + int64(si+1)*(1<<32)/int64(sn)
		for v := lo; v < hi; v++ {
			try(v)
		}
		col.Exhaustive = true
	} else {
		for _, v := range boundaryInts() {
			if v >= math.MinInt32 && v <= math.MaxInt32 {
				try(v)
			}
		}
		nt = 0 // boundaries are revisited by the stride below only by chance; count them once, here
		for _, v := range boundaryInts() {
			if v >= math.MinInt32 && v <= math.MaxInt32 && nearBoundary(v) {
				nt++
			}
		}
		stride := int64(4093)
		off := (seedVal()*7919 + 13) % stride
		for v := int64(math.MinInt32) + off; v <= math.MaxInt32; v += stride {
			if nearBoundary(v) {
				continue // already counted above
			}
			try(v)
		}
	}
	col.Bulk(n)
	col.AddDistinct(nt)
	col.LabelN("int32_values", n)
	col.Sample(c17Case{Codec: "int32", Value: "-1073741825"})
}

// widen32 converts float32 bits to float64 bits by bit manipulation (no use of
// the hardware conversion), so the library's float32-as-double path has an
// independent oracle. NaNs keep sign and payload (shifted); quiet reports
// whether the hardware may additionally set the quiet bit.
func widen32(b uint32) (bits uint64, isNaN bool) {
	sign := uint64(b>>31) << 63
	exp := int((b >> 23) & 0xff)
	man := uint64(b & 0x7fffff)
	switch {
	case exp == 0xff:
		if man == 0 {
			return sign | 0x7ff<<52, false
		}
		return sign | 0x7ff<<52 | man<<29, true
	case exp == 0:
		if man == 0 {
			return sign, false
		}
		// subnormal: normalise
		e := -126
		for man&(1<<23) == 0 {
			man <<= 1
			e--
		}
		man &= 0x7fffff
		return sign | uint64(e+1023)<<52 | man<<29, false
	}
	return sign | uint64(exp-127+1023)<<52 | man<<29, false
}

func specialFloat32(b uint32) bool {
	exp := (b >> 23) & 0xff
	return exp == 0xff || exp == 0 || exp == 1 || exp == 0xfe
}

type floatTester struct {
	w *avro.WriteBuf
	r *avro.ReadBuf
}

func (ft *floatTester) check32(b uint32) error {
	f := math.Float32frombits(b)
	// FloatCodec: 4 bytes little-endian, bit-exact round trip
	ft.w.Reset()
	avro.FloatCodec{}.Write(ft.w, unsafe.Pointer(&f))
	out := ft.w.Bytes()
	if len(out) != 4 || out[0] != byte(b) || out[1] != byte(b>>8) || out[2] != byte(b>>16) || out[3] != byte(b>>24) {
		return fmt.Errorf("float %#08x: FloatCodec wrote % x", b, out)
	}
	ft.r.Reset(out)
	var g float32
	if err := (avro.FloatCodec{}).Read(ft.r, unsafe.Pointer(&g)); err != nil || ft.r.Len() != 0 {
		return fmt.Errorf("float %#08x: FloatCodec read err=%v left=%d", b, err, ft.r.Len())
	}
	if math.Float32bits(g) != b {
		return fmt.Errorf("float %#08x: FloatCodec read back %#08x", b, math.Float32bits(g))
	}
	// Float32DoubleCodec: the double with the same value
	ft.w.Reset()
	avro.Float32DoubleCodec{}.Write(ft.w, unsafe.Pointer(&f))
	out = ft.w.Bytes()
	if len(out) != 8 {
		return fmt.Errorf("float %#08x: Float32DoubleCodec wrote %d bytes", b, len(out))
	}
	got := binary.LittleEndian.Uint64(out)
	want, nan := widen32(b)
	if got != want && !(nan && got == want|1<<51) {
		return fmt.Errorf("float %#08x: Float32DoubleCodec wrote double %#016x, want %#016x", b, got, want)
	}
	ft.r.Reset(out)
	var h float32
	if err := (avro.Float32DoubleCodec{}).Read(ft.r, unsafe.Pointer(&h)); err != nil || ft.r.Len() != 0 {
		return fmt.Errorf("float %#08x: Float32DoubleCodec read err=%v left=%d", b, err, ft.r.Len())
	}
	hb := math.Float32bits(h)
	if hb != b {
		if !(nan && h != h && hb == b|1<<22) {
			return fmt.Errorf("float %#08x: Float32DoubleCodec read back %#08x", b, hb)
		}
	}
	return nil
}

var quietedNaNs int64

func TestC17Float32(t *testing.T) {
	col := stats.New("C17")
	col.Rule = c17Rule
	defer col.Flush()
	ft := &floatTester{w: avro.NewWriteBuf(make([]byte, 0, 16)), r: avro.NewReadBuf(nil)}
	var n, nt int64
	try := func(b uint32) {
		if err := ft.check32(b); err != nil {
			failCase(t, "C17", "c17", c17Case{Codec: "float32", Value: fmt.Sprintf("%#08x", b)}, err)
		}
		n++
		if specialFloat32(b) {
			nt++
		}
	}
	if thorough() {
		si, sn := shard()
		lo := uint64(si) * (1 << 32) / uint64(sn)
		hi := uint64(si+1) * (1 << 32) / uint64(sn)
		for v := lo; v < hi; v++ {
			try(uint32(v))
		}
		col.Exhaustive = true
	} else {
		// every exponent with mantissa edges, both signs
		explicit := map[uint32]bool{}
		for exp := uint32(0); exp < 256; exp++ {
			for _, man := range []uint32{0, 1, 2, 0x3fffff, 0x400000, 0x400001, 0x7ffffe, 0x7fffff, 0x2aaaaa, 0x555555} {
				for _, s := range []uint32{0, 1} {
					b := s<<31 | exp<<23 | man
					explicit[b] = true
					try(b)
				}
			}
		}
		stride := uint64(4099)
		off := uint64(seedVal()*7907+5) % stride
		for v := off; v < 1<<32; v += stride {
			if !explicit[uint32(v)] {
				try(uint32(v))
			}
		}
	}
	col.Bulk(n)
	col.AddDistinct(nt)
	col.LabelN("float32_patterns", n)
	col.Sample(c17Case{Codec: "float32", Value: "0x7fa00001"})
}

func check64(w *avro.WriteBuf, r *avro.ReadBuf, b uint64) error {
	f := math.Float64frombits(b)
	w.Reset()
	avro.DoubleCodec{}.Write(w, unsafe.Pointer(&f))
	out := w.Bytes()
	if len(out) != 8 {
		return fmt.Errorf("double %#016x: wrote %d bytes", b, len(out))
	}
	for i := 0; i < 8; i++ {
		if out[i] != byte(b>>(8*uint(i))) {
			return fmt.Errorf("double %#016x: wrote % x", b, out)
		}
	}
	r.Reset(out)
	var g float64
	if err := (avro.DoubleCodec{}).Read(r, unsafe.Pointer(&g)); err != nil || r.Len() != 0 {
		return fmt.Errorf("double %#016x: read err=%v left=%d", b, err, r.Len())
	}
	if math.Float64bits(g) != b {
		return fmt.Errorf("double %#016x: read back %#016x", b, math.Float64bits(g))
	}
	r.Reset(out)
	if err := (avro.DoubleCodec{}).Skip(r); err != nil || r.Len() != 0 {
		return fmt.Errorf("double %#016x: skip err=%v left=%d", b, err, r.Len())
	}
	return nil
}

func TestC17Int64Float64(t *testing.T) {
	col := stats.New("C17")
	col.Rule = c17Rule
	defer col.Flush()
	it := newIntTester()
	w, r := avro.NewWriteBuf(nil), avro.NewReadBuf(nil)
	seen := map[int64]bool{}
	for _, v := range boundaryInts() {
		if err := it.checkInt(64, v); err != nil {
			failCase(t, "C17", "c17", c17Case{Codec: "int64", Value: fmt.Sprint(v)}, err)
		}
		if !seen[v] {
			seen[v] = true
			col.RecordKey(uint64(v), nearBoundary(v))
		}
	}
	for exp := uint64(0); exp < 2048; exp++ {
		for _, man := range []uint64{0, 1, 1 << 51, 1<<51 + 1, 1<<52 - 1, 0x5555555555555 & (1<<52 - 1)} {
			for _, s := range []uint64{0, 1} {
				b := s<<63 | exp<<52 | man
				if err := check64(w, r, b); err != nil {
					failCase(t, "C17", "c17", c17Case{Codec: "float64", Value: fmt.Sprintf("%#016x", b)}, err)
				}
				col.RecordKey(b^0xf64f64f64, exp == 0 || exp == 2047 || exp == 1 || exp == 2046)
			}
		}
	}
	// bool
	for _, bv := range []bool{false, true} {
		w.Reset()
		avro.BoolCodec{}.Write(w, unsafe.Pointer(&bv))
		want := byte(0)
		if bv {
			want = 1
		}
		if out := w.Bytes(); len(out) != 1 || out[0] != want {
			failCase(t, "C17", "c17", c17Case{Codec: "bool", Value: fmt.Sprint(bv)}, fmt.Errorf("bool %v written as % x", bv, out))
		}
		r.Reset(w.Bytes())
		var got bool
		if err := (avro.BoolCodec{}).Read(r, unsafe.Pointer(&got)); err != nil || got != bv || r.Len() != 0 {
			failCase(t, "C17", "c17", c17Case{Codec: "bool", Value: fmt.Sprint(bv)}, fmt.Errorf("bool %v read back %v err %v", bv, got, err))
		}
		col.RecordKey(uint64(want)+0xb001, true)
	}
	rapid.Check(t, func(rt *rapid.T) {
		v := rapid.Int64().Draw(rt, "v")
		if rapid.Bool().Draw(rt, "nearBoundary") {
			k := rapid.IntRange(1, 9).Draw(rt, "k")
			b := int64(1) << (7*uint(k) - 1)
			if rapid.Bool().Draw(rt, "neg") {
				b = -b
			}
			v = b + rapid.Int64Range(-3, 3).Draw(rt, "d")
		}
		if err := it.checkInt(64, v); err != nil {
			failCase(rt, "C17", "c17", c17Case{Codec: "int64", Value: fmt.Sprint(v)}, err)
		}
		col.RecordKey(uint64(v), nearBoundary(v))
		b := rapid.Uint64().Draw(rt, "f")
		if err := check64(w, r, b); err != nil {
			failCase(rt, "C17", "c17", c17Case{Codec: "float64", Value: fmt.Sprintf("%#016x", b)}, err)
		}
		e := (b >> 52) & 0x7ff
		col.RecordKey(b^0xf64f64f64, e == 0 || e == 2047)
	})
	col.Sample(c17Case{Codec: "int64", Value: "-4611686018427387905"})
}

// checkCandidate compares the three public integer codecs with the reference
// classifier on an arbitrary byte string offered as a varint.
func checkCandidate(r *avro.ReadBuf, b []byte) (rejected bool, err error) {
	v, n, rerr := ref.ReadLong(b)
	for _, width := range []int{64, 32, 16} {
		r.Reset(b)
		var got int64
		var lerr error
		switch width {
		case 64:
			lerr = avro.Int64Codec{}.Read(r, unsafe.Pointer(&got))
		case 32:
			var x int32
			lerr = avro.Int32Codec{}.Read(r, unsafe.Pointer(&x))
			got = int64(x)
		case 16:
			var x int16
			lerr = avro.Int16Codec{}.Read(r, unsafe.Pointer(&x))
			got = int64(x)
		}
		fits := true
		switch width {
		case 32:
			fits = v >= math.MinInt32 && v <= math.MaxInt32
		case 16:
			fits = v >= math.MinInt16 && v <= math.MaxInt16
		}
		switch {
		case rerr != nil:
			if lerr == nil {
				return true, fmt.Errorf("candidate % x: reference says %v, Int%dCodec.Read returned %d without error", b, rerr, width, got)
			}
		case !fits:
			if lerr == nil {
				return true, fmt.Errorf("candidate % x = %d does not fit int%d, Read returned %d without error", b, v, width, got)
			}
		default:
			if lerr != nil {
				return false, fmt.Errorf("candidate % x = %d: Int%dCodec.Read failed: %v", b, v, width, lerr)
			}
			if got != v {
				return false, fmt.Errorf("candidate % x: reference %d, Int%dCodec.Read %d", b, v, width, got)
			}
			if r.Len() != len(b)-n {
				return false, fmt.Errorf("candidate % x: reference consumed %d bytes, Int%dCodec.Read %d", b, n, width, len(b)-r.Len())
			}
		}
	}
	// the skip path must classify the candidate the same way
	r.Reset(b)
	serr := avro.Int64Codec{}.Skip(r)
	switch {
	case rerr != nil && serr == nil:
		return true, fmt.Errorf("candidate % x: reference says %v, Int64Codec.Skip accepted it", b, rerr)
	case rerr == nil && serr != nil:
		return false, fmt.Errorf("candidate % x = %d: Int64Codec.Skip failed: %v", b, v, serr)
	case rerr == nil && r.Len() != len(b)-n:
		return false, fmt.Errorf("candidate % x: reference consumed %d bytes, Int64Codec.Skip %d", b, n, len(b)-r.Len())
	}
	// the same integers frame container files (block counts and sizes): a file that
	// ends with the candidate where a block's record count belongs is incomplete
	// whatever the candidate is (truncated, overlong, or a count without its
	// block), unless the candidate is empty
	if len(b) > 0 && len(b) <= 11 {
		file := append(append([]byte(nil), c17Header()...), b...)
		ferr := avro.ReadFile(bytes.NewReader(file), c17Row{}, func(unsafe.Pointer, *avro.ResourceBank) error { return nil })
		if ferr == nil {
			return rerr != nil, fmt.Errorf("a file that ends after the bytes % x in the place of a block's record count was read without error", b)
		}
	}
	return rerr != nil, nil
}

// (a record with a field: a zero-width record would let a count of 2^62 stand for 2^62 records)
type c17Row struct {
	A int64 `json:"a"`
}

var c17HeaderBytes []byte

func c17Header() []byte {
	if c17HeaderBytes == nil {
		fw, err := avro.NewFileWriter([]byte(`{"type":"record","name":"e","fields":[{"name":"a","type":"long"}]}`), avro.CompressionNull)
		if err != nil {
			panic(err)
		}
		var buf bytes.Buffer
		if err := fw.WriteHeader(&buf); err != nil {
			panic(err)
		}
		c17HeaderBytes = buf.Bytes()
	}
	return c17HeaderBytes
}

// seasonedReadBuf: a ReadBuf that began life over a long input and has been read
// from, as the one a long-running consumer Resets for every message has.
func seasonedReadBuf() *avro.ReadBuf {
	long := make([]byte, 96)
	for i := range long {
		long[i] = 0x02
	}
	r := avro.NewReadBuf(long)
	for i := 0; i < 5; i++ {
		_, _ = r.Varint()
	}
	return r
}

func runC17Case(c c17Case) error {
	r := seasonedReadBuf()
	if c.Codec == "varint" {
		_, err := checkCandidate(r, c.Bytes)
		return err
	}
	it := newIntTester()
	var v int64
	var u uint64
	switch c.Codec {
	case "int16", "int32", "int64":
		fmt.Sscan(c.Value, &v)
		return it.checkInt(map[string]int{"int16": 16, "int32": 32, "int64": 64}[c.Codec], v)
	case "float32":
		fmt.Sscanf(c.Value, "0x%x", &u)
		ft := &floatTester{w: avro.NewWriteBuf(nil), r: r}
		return ft.check32(uint32(u))
	case "float64":
		fmt.Sscanf(c.Value, "0x%x", &u)
		return check64(avro.NewWriteBuf(nil), r, u)
	}
	return nil
}

func TestC17Varints(t *testing.T) {
	col := stats.New("C17")
	col.Rule = c17Rule
	defer col.Flush()
	r := seasonedReadBuf()
	try := func(b []byte) {
		var rej bool
		err := protect(func() error {
			var e error
			rej, e = checkCandidate(r, b)
			return e
		})
		if err != nil {
			failCase(t, "C17", "c17", c17Case{Codec: "varint", Bytes: append([]byte(nil), b...)}, err)
		}
		col.RecordJSON(b, rej)
	}
	try(nil)
	for a := 0; a < 256; a++ {
		try([]byte{byte(a)})
		for b := 0; b < 256; b++ {
			try([]byte{byte(a), byte(b)})
		}
	}
	col.Sample(c17Case{Codec: "varint", Bytes: []byte{0xff, 0xff, 0xff, 0xff, 0xff, 0xff, 0xff, 0xff, 0xff, 0x02}})
	// lengths 3..11: every continuation-bit pattern, payloads drawn
	rapid.Check(t, func(rt *rapid.T) {
		n := rapid.IntRange(3, 11).Draw(rt, "len")
		pattern := rapid.IntRange(0, 1<<uint(n)-1).Draw(rt, "contbits")
		b := make([]byte, n)
		for i := range b {
			p := rapid.SampledFrom([]byte{0, 1, 2, 0x3f, 0x40, 0x7e, 0x7f}).Draw(rt, "p")
			if rapid.Bool().Draw(rt, "rnd") {
				p = byte(rapid.IntRange(0, 127).Draw(rt, "pp"))
			}
			b[i] = p
			if pattern&(1<<uint(i)) != 0 {
				b[i] |= 0x80
			}
		}
		var rej bool
		err := protect(func() error {
			var e error
			rej, e = checkCandidate(r, b)
			return e
		})
		if err != nil {
			failCase(rt, "C17", "c17", c17Case{Codec: "varint", Bytes: b}, err)
		}
		col.RecordJSON(b, rej)
	})
	// every continuation pattern of every length 3..11 at least once with extreme payloads
	for n := 3; n <= 11; n++ {
		for pattern := 0; pattern < 1<<uint(n); pattern++ {
			for _, fill := range []byte{0x00, 0x7f, 0x01, 0x02} {
				b := make([]byte, n)
				for i := range b {
					b[i] = fill
					if pattern&(1<<uint(i)) != 0 {
						b[i] |= 0x80
					}
				}
				try(b)
			}
		}
	}
}
