package checks

import (
	"bytes"
	"fmt"
	"reflect"
	"testing"
	"unsafe"

	"github.com/philpearl/avro"

	"verifh/ref"
	"verifh/stats"
)

// C20, the root position: the row type T of Encoder[T] / ReadFile is itself a
// registered type (with a record schema of its own and a codec that does not store
// the fields as they lie in memory). The registered codec governs it there too, on
// the Encoder route as on the Schema.Codec route.

type CRootRec struct {
	Sec  int64
	Note string
}

type rootCodec struct{}

func (rootCodec) Read(r *avro.ReadBuf, p unsafe.Pointer) error {
	ms, err := r.Varint()
	if err != nil {
		return err
	}
	var s string
	if err := (avro.StringCodec{}).Read(r, unsafe.Pointer(&s)); err != nil {
		return err
	}
	v := (*CRootRec)(p)
	v.Sec, v.Note = ms/1000, s
	return nil
}
func (rootCodec) Skip(r *avro.ReadBuf) error {
	if _, err := r.Varint(); err != nil {
		return err
	}
	return avro.StringCodec{}.Skip(r)
}
func (rootCodec) New(r *avro.ReadBuf) unsafe.Pointer { return r.Alloc(reflect.TypeOf(CRootRec{})) }
func (rootCodec) Omit(p unsafe.Pointer) bool         { return false }
func (rootCodec) Write(w *avro.WriteBuf, p unsafe.Pointer) {
	v := (*CRootRec)(p)
	w.Varint(v.Sec * 1000)
	avro.StringCodec{}.Write(w, unsafe.Pointer(&v.Note))
}

func runC20Root() error {
	rs := ref.Schema{Kind: "record", Name: "RootRec", Namespace: "verifh.registered", Fields: []ref.Field{{Name: "ms", Type: ref.Prim("long")}, {Name: "note", Type: ref.Prim("string")}}}
	typ := reflect.TypeOf(CRootRec{})
	avro.Register(typ, func(s avro.Schema, t reflect.Type, omit bool) (avro.Codec, error) {
		if s.Type != "record" {
			return nil, fmt.Errorf("CRootRec needs its record schema, got %q", s.Type)
		}
		return rootCodec{}, nil
	})
	avro.RegisterSchema(typ, toLib(rs))
	s, err := avro.SchemaForType(CRootRec{})
	if err != nil {
		return fmt.Errorf("SchemaForType of a registered row type: %v", err)
	}
	if d := fromLib(s).Diff(rs, ""); d != "" {
		return fmt.Errorf("the schema generated for a registered row type is not the registered one: %s", d)
	}
	rows := []CRootRec{{7, "seven"}, {0, ""}, {-3, "minus three"}, {1 << 40, "big"}}
	// route 1: Schema.Codec + FileWriter
	codec, err := s.Codec(CRootRec{})
	if err != nil {
		return fmt.Errorf("Schema.Codec: %v", err)
	}
	wb := avro.NewWriteBuf(nil)
	for i := range rows {
		codec.Write(wb, unsafe.Pointer(&rows[i]))
	}
	want := append([]byte(nil), wb.Bytes()...)
	// route 2: Encoder[T]
	var buf bytes.Buffer
	enc, err := avro.NewEncoderFor[CRootRec](&buf, avro.CompressionNull, 1<<20)
	if err != nil {
		return fmt.Errorf("NewEncoderFor of a registered row type: %v", err)
	}
	for i := range rows {
		if err := enc.Encode(&rows[i]); err != nil {
			return err
		}
	}
	if err := enc.Flush(); err != nil {
		return err
	}
	_, lay, blocks, err := ref.ReadRecords(buf.Bytes())
	if err != nil {
		return fmt.Errorf("reference reader: %v", err)
	}
	if len(lay.Blocks) != 1 || !bytes.Equal(lay.Blocks[0].Decompressed, want) {
		return fmt.Errorf("Encoder[T] for a registered row type wrote % x, the registered codec (Schema.Codec route) writes % x", lay.Blocks[0].Decompressed, want)
	}
	for i, d := range blocks[0] {
		if d.Fields[0].I != rows[i].Sec*1000 || string(d.Fields[1].S) != rows[i].Note {
			return fmt.Errorf("row %d on the wire: %v, the registered codec stores {%d %q}", i, d, rows[i].Sec*1000, rows[i].Note)
		}
	}
	i := 0
	return avro.ReadFile(bytes.NewReader(buf.Bytes()), CRootRec{}, func(p unsafe.Pointer, rb *avro.ResourceBank) error {
		if got := *(*CRootRec)(p); got != rows[i] {
			return fmt.Errorf("row %d read back as %+v, written %+v", i, got, rows[i])
		}
		i++
		return nil
	})
}

func TestC20Root(t *testing.T) {
	col := stats.New("C20")
	defer col.Flush()
	c := struct{ Scenario string }{"the row type of Encoder[T] / ReadFile is a registered type"}
	err := protect(runC20Root)
	col.Record(c, true, "registered_row_type")
	if err != nil {
		failCase(t, "C20", "c20root", c, err)
	}
}

func init() {
	registerReplay("c20root", func(struct{ Scenario string }) error { return runC20Root() })
}
