package checks

import (
	"fmt"
	"testing"

	"verifh/iso"
	"verifh/ref"
	"verifh/spec"
	"verifh/stats"
)

// C06, counts that are right modulo a power of two: an array or map whose items
// are all present, its block count replaced by the true count plus k * 2^j (a size
// computed as count * item width wraps around to the true size), plain and in the
// size-prefixed form, for every item type with a fixed or variable width. Swept
// completely in every run.
func TestC06Counts(t *testing.T) {
	col := stats.New("C06")
	col.Rule = c06Rule
	defer col.Flush()
	w, err := iso.NewWorker()
	if err != nil {
		t.Fatalf("VERIF-INCONCLUSIVE cannot start worker: %v", err)
	}
	defer w.Close()
	type item struct {
		s     ref.Schema
		goT   []spec.TypeSpec
		datum ref.Datum
	}
	inner := ref.Schema{Kind: "record", Name: "In", Fields: []ref.Field{{Name: "X", Type: ref.Prim("long")}}}
	items := []item{
		{ref.Prim("boolean"), []spec.TypeSpec{spec.T("bool")}, ref.Bool(true)},
		{ref.Prim("int"), []spec.TypeSpec{spec.T("int32"), spec.T("int16"), spec.T("int64")}, ref.Datum{K: "int", I: 5}},
		{ref.Prim("long"), []spec.TypeSpec{spec.T("int64"), spec.T("int")}, ref.Long(7)},
		{ref.Prim("float"), []spec.TypeSpec{spec.T("float32")}, ref.Datum{K: "float", F: 0x3fc00000}},
		{ref.Prim("double"), []spec.TypeSpec{spec.T("float64"), spec.T("float32")}, ref.Datum{K: "double", F: 0x3ff8000000000000}},
		{ref.Prim("string"), []spec.TypeSpec{spec.T("string")}, ref.Str("ab")},
		{ref.Prim("bytes"), []spec.TypeSpec{spec.T("bytes")}, ref.Datum{K: "bytes", S: []byte{1, 2, 3}}},
		{ref.Schema{Kind: "fixed", Name: "f4", Size: 4}, []spec.TypeSpec{spec.BArray(4)}, ref.Datum{K: "fixed", S: []byte{9, 8, 7, 6}}},
		{ref.Schema{Kind: "fixed", Name: "f16", Size: 16}, []spec.TypeSpec{spec.BArray(16)}, ref.Datum{K: "fixed", S: make([]byte, 16)}},
		{inner, []spec.TypeSpec{spec.Struct(spec.FieldSpec{Go: "X", T: spec.T("int64")}), spec.Ptr(spec.Struct(spec.FieldSpec{Go: "X", T: spec.T("int64")})),
			spec.Struct(), spec.Struct(spec.FieldSpec{Go: "Other", T: spec.T("int16")})}, ref.Datum{K: "record", Fields: []ref.Datum{ref.Long(3)}}}, // the item record projected away (a zero-size element), or down to a field it lacks
		{ref.Nullable(ref.Prim("long")), []spec.TypeSpec{spec.Ptr(spec.T("int64")), spec.T("nullInt")}, ref.Union(1, ref.Long(4))},
	}
	n := 0
	for _, it := range items {
		for _, gt := range it.goT {
			for _, coll := range []string{"array", "map"} {
				for _, m := range []int{1, 3, 8} {
					var s ref.Schema
					var tgt spec.TypeSpec
					d := ref.Datum{K: coll}
					for i := 0; i < m; i++ {
						if coll == "array" {
							d.Items = append(d.Items, it.datum)
						} else {
							d.Keys = append(d.Keys, fmt.Sprintf("k%d", i))
							d.Vals = append(d.Vals, it.datum)
						}
					}
					its := it.s
					if coll == "array" {
						s = ref.Schema{Kind: "record", Name: "R", Fields: []ref.Field{{Name: "a", Type: ref.Schema{Kind: "array", Items: &its}}, {Name: "z", Type: ref.Prim("long")}}}
						tgt = spec.Struct(spec.FieldSpec{Go: "A", JSON: "a", T: spec.Slice(gt)}, spec.FieldSpec{Go: "Z", JSON: "z", T: spec.T("int64")})
					} else {
						s = ref.Schema{Kind: "record", Name: "R", Fields: []ref.Field{{Name: "a", Type: ref.Schema{Kind: "map", Values: &its}}, {Name: "z", Type: ref.Prim("long")}}}
						tgt = spec.Struct(spec.FieldSpec{Go: "A", JSON: "a", T: spec.Map(gt)}, spec.FieldSpec{Go: "Z", JSON: "z", T: spec.T("int64")})
					}
					body, err := ref.Encode(s, ref.Datum{K: "record", Fields: []ref.Datum{d, ref.Long(11)}}, nil)
					if err != nil {
						t.Fatalf("VERIF-INCONCLUSIVE %v", err)
					}
					// body = count m, items, 0, z: the count is the first varint
					_, cl, _ := ref.ReadLong(body)
					rest := body[cl:]
					itemBytes := len(rest) - 2 // the terminating 0 and z (one byte each)
					for j := 56; j <= 63; j++ {
						for _, k := range []int64{1, 3} {
							claim := int64(m) + k<<uint(j)
							for _, sized := range []bool{false, true} {
								var data []byte
								what := fmt.Sprintf("%s of %d %s items into %s, count := %d + %d*2^%d", coll, m, ref.Render(it.s, nil), gt.GoString(), m, k, j)
								if sized {
									data = ref.AppendLong(ref.AppendLong(nil, -claim), int64(itemBytes))
									what += ", size-prefixed"
								} else {
									data = ref.AppendLong(nil, claim)
								}
								data = append(data, rest...)
								for _, entry := range []string{"body", "skip"} {
									c := c06Case{Entry: entry, Schema: s, Target: tgt, GoType: tgt.GoString(), Data: data, What: what, Valid: body}
									n++
									col.Record(c, true, "entry_"+entry, "congruent_count")
									if err := c06Verdict(w, c); err != nil {
										col.Flush()
										failCase(t, "C06", "c06", c, err)
									}
								}
							}
						}
					}
				}
			}
		}
	}
	col.Extra["congruent_count_inputs"] = n
}
