package checks

import (
	"bytes"
	"encoding/json"
	"fmt"
	"os"
	"reflect"
	"strings"
	"testing"

	jsonv2 "github.com/go-json-experiment/json"
	"github.com/philpearl/avro"
	"pgregory.net/rapid"

	"verifh/gen"
	"verifh/ref"
	"verifh/stats"
)

// C14 — schema JSON parse and serialise are inverses.

const c14Rule = "rapid draws of schema trees over every kind (records, enums, fixed, arrays, maps, unions with >=1 branches, logical types, names with escapes / non-ASCII; now and then a thin chain 8-40 levels deep) " +
	"rendered by the reference renderer with drawn key order, whitespace and extra attributes (doc, default, aliases, order, precision, unknown names) at every object level; " +
	"oracle: SchemaFromString result converted field-by-field equals the generated tree; Marshal output is valid JSON that the reference parser reads back to the same tree " +
	"and that SchemaFromString reads back DeepEqual, and the returned bytes stay unchanged while other schemas are marshalled; extra attributes include names that differ from a supported attribute only in case, '_' or '-'; one-edit documents that encoding/json rejects must yield an error; " +
	"non-trivial = depth>=3 with >=2 different composite kinds and a non-canonical layout or an extra attribute; distinct by document text"

type c14Case struct {
	Schema ref.Schema `json:"schema"`
	Layout []byte     `json:"layout"`
	Extras bool       `json:"extras"`
	// Escapes: strings in the document may be spelled with JSON escapes.
	Escapes bool   `json:"escapes,omitempty"`
	Doc     string `json:"doc"` // the rendered document (derived; kept for the reader)
	// Malformed: apply this edit to Doc and expect an error.
	Edit    string `json:"edit,omitempty"` // "", truncate, delete, insert, replace
	EditPos int    `json:"edit_pos,omitempty"`
	EditCh  byte   `json:"edit_ch,omitempty"`
}

func init() { registerReplay("c14", func(c c14Case) error { _, _, err := runC14(c); return err }) }

func schemaDepth(s ref.Schema) int {
	d := 0
	if s.Items != nil {
		d = schemaDepth(*s.Items)
	}
	if s.Values != nil {
		if x := schemaDepth(*s.Values); x > d {
			d = x
		}
	}
	for _, f := range s.Fields {
		if x := schemaDepth(f.Type); x > d {
			d = x
		}
	}
	for _, b := range s.Branches {
		if x := schemaDepth(b); x > d {
			d = x
		}
	}
	return d + 1
}

func compositeKinds(s ref.Schema, seen map[string]bool) {
	switch s.Kind {
	case "record", "array", "map", "union":
		seen[s.Kind] = true
	}
	if s.Items != nil {
		compositeKinds(*s.Items, seen)
	}
	if s.Values != nil {
		compositeKinds(*s.Values, seen)
	}
	for _, f := range s.Fields {
		compositeKinds(f.Type, seen)
	}
	for _, b := range s.Branches {
		compositeKinds(b, seen)
	}
}

func applyEdit(doc string, c c14Case) string {
	b := []byte(doc)
	if len(b) == 0 {
		return doc
	}
	pos := c.EditPos % len(b)
	switch c.Edit {
	case "truncate":
		return string(b[:pos])
	case "delete":
		return string(append(append([]byte{}, b[:pos]...), b[pos+1:]...))
	case "insert":
		out := append([]byte{}, b[:pos]...)
		out = append(out, c.EditCh)
		return string(append(out, b[pos:]...))
	case "replace":
		out := append([]byte{}, b...)
		out[pos] = c.EditCh
		return string(out)
	}
	return doc
}

func runC14(c c14Case) (bool, []string, error) {
	doc := ref.Render(c.Schema, &ref.Layout{Bits: c.Layout, Extras: c.Extras, Escapes: c.Escapes})
	var labels []string
	// the renderer itself is checked against the reference parser first, so a
	// renderer bug cannot be blamed on the library
	back, err := ref.ParseSchema([]byte(doc))
	if err != nil {
		return false, nil, fmt.Errorf("VERIF-INCONCLUSIVE harness: reference parser rejects the rendered document %s: %v", doc, err)
	}
	if d := back.Diff(c.Schema, ""); d != "" {
		return false, nil, fmt.Errorf("VERIF-INCONCLUSIVE harness: renderer/parser disagree: %s", d)
	}
	if c.Edit != "" {
		bad := applyEdit(doc, c)
		fromString, strErr := avro.SchemaFromString(bad)
		if c.EditPos%3 == 0 {
			// the edited document presented the other way, in the header of a container
			// file: the two routes read one grammar — refused by one, refused by the other;
			// accepted by both, the same schema
			labels = append(labels, "edited_document_by_both_routes")
			file, _, werr := ref.WriteFile(ref.FileSpec{Schema: []byte(bad), Codec: "null"})
			if werr != nil {
				return false, labels, fmt.Errorf("VERIF-INCONCLUSIVE %v", werr)
			}
			f, err := os.CreateTemp("", "c14e-*.avro")
			if err != nil {
				return false, labels, fmt.Errorf("VERIF-INCONCLUSIVE %v", err)
			}
			name := f.Name()
			f.Write(file)
			f.Close()
			fromHeader, hdrErr := avro.FileSchema(name)
			os.Remove(name)
			if (strErr == nil) != (hdrErr == nil) {
				return false, labels, fmt.Errorf("an edited document is judged differently by the two parsing routes: SchemaFromString: %v; FileSchema on a header holding the same bytes: %v\n%q", strErr, hdrErr, bad)
			}
			if strErr == nil {
				if d := fromLib(fromHeader).Diff(fromLib(fromString), ""); d != "" {
					return false, labels, fmt.Errorf("an edited document parses differently from a string and from a file header: %s\n%q", d, bad)
				}
			}
		}
		if json.Valid([]byte(bad)) {
			return false, append(labels, "edit_still_valid_json"), nil
		}
		labels = append(labels, "malformed_"+c.Edit)
		if strErr == nil {
			return false, labels, fmt.Errorf("malformed JSON accepted without error: %q", bad)
		}
		return false, labels, nil
	}
	canonical := ref.Render(c.Schema, nil)
	kinds := map[string]bool{}
	compositeKinds(c.Schema, kinds)
	nt := schemaDepth(c.Schema) >= 3 && len(kinds) >= 2 && doc != canonical
	if doc != canonical {
		labels = append(labels, "non_canonical_layout")
	}
	if c.Extras {
		labels = append(labels, "extras_allowed")
	}
	if c.Escapes && strings.Contains(doc, `\u00`) {
		labels = append(labels, "escaped_strings")
	}

	s, err := avro.SchemaFromString(doc)
	if err != nil {
		return nt, labels, fmt.Errorf("SchemaFromString rejects a valid document: %v\n%s", err, doc)
	}
	if d := fromLib(s).Diff(c.Schema, ""); d != "" {
		return nt, labels, fmt.Errorf("parsed schema differs from the document: %s\n%s", d, doc)
	}
	// the same document arriving as a stream (a schema registry response, a file): the
	// Schema type is its own JSON decoder, whatever feeds it
	for _, chunk := range []int{1 + len(doc)%7, 4096} {
		var streamed avro.Schema
		if err := jsonv2.UnmarshalRead(&shortReader{data: []byte(doc), max: chunk}, &streamed); err != nil {
			return nt, labels, fmt.Errorf("the document is refused when it is decoded from a stream (%d bytes per read): %v\n%s", chunk, err, doc)
		}
		if d := fromLib(streamed).Diff(c.Schema, ""); d != "" {
			return nt, labels, fmt.Errorf("the document decoded from a stream (%d bytes per read) differs: %s\n%s", chunk, d, doc)
		}
	}
	out, err := s.Marshal()
	if err != nil {
		return nt, labels, fmt.Errorf("Marshal failed: %v", err)
	}
	if !json.Valid(out) {
		return nt, labels, fmt.Errorf("Marshal produced invalid JSON: %s", out)
	}
	// the bytes Marshal returned belong to the caller (NewFileWriter keeps them
	// until the header is written): serialising other schemas must not change them
	kept := append([]byte(nil), out...)
	for _, other := range c14OtherSchemas {
		if _, err := other.Marshal(); err != nil {
			return nt, labels, fmt.Errorf("Marshal of an unrelated schema failed: %v", err)
		}
	}
	if !bytes.Equal(out, kept) {
		return nt, labels, fmt.Errorf("the bytes returned by Marshal changed when other schemas were marshalled afterwards:\n was %s\n now %s", kept, out)
	}
	// a schema document handed to NewFileWriter stays the caller's: the same bytes
	// afterwards, and the header written carries a document for the same schema
	for _, b := range [][]byte{[]byte(doc), out} {
		was := string(b)
		fw, err := avro.NewFileWriter(b, avro.CompressionNull)
		if err != nil {
			return nt, labels, fmt.Errorf("NewFileWriter rejects a schema document: %v\n%s", err, was)
		}
		var hdr bytes.Buffer
		if err := fw.WriteHeader(&hdr); err != nil {
			return nt, labels, fmt.Errorf("WriteHeader: %v", err)
		}
		if string(b) != was {
			return nt, labels, fmt.Errorf("NewFileWriter/WriteHeader changed the caller's schema bytes:\n was %s\n now %s", was, b)
		}
		pf, err := ref.ParseFile(hdr.Bytes())
		if err != nil {
			return nt, labels, fmt.Errorf("header written for the document is not a valid container header: %v", err)
		}
		hs, err := ref.ParseSchema(pf.Meta["avro.schema"])
		if err != nil {
			return nt, labels, fmt.Errorf("avro.schema in the written header does not parse: %v\n%s", err, pf.Meta["avro.schema"])
		}
		if d := hs.Diff(c.Schema, ""); d != "" {
			return nt, labels, fmt.Errorf("schema in the written header differs from the document: %s", d)
		}
		// a parsed schema is the caller's own value: whatever the caller does to it,
		// parsing the same text again (from a string, from a file header) gives the
		// document's schema
		if len(c.Layout)%4 == 1 {
			labels = append(labels, "parsed_value_edited_then_parsed_again")
			f, err := os.CreateTemp("", "c14-*.avro")
			if err != nil {
				return nt, labels, fmt.Errorf("VERIF-INCONCLUSIVE %v", err)
			}
			name := f.Name()
			f.Write(hdr.Bytes())
			f.Close()
			defer os.Remove(name)
			for round := 0; round < 2; round++ {
				fs1, err := avro.FileSchema(name)
				if err != nil {
					return nt, labels, fmt.Errorf("FileSchema on a header written by FileWriter: %v", err)
				}
				if d := fromLib(fs1).Diff(c.Schema, ""); d != "" {
					return nt, labels, fmt.Errorf("FileSchema (call %d, after the caller edited the value an earlier call returned) differs from the document: %s", round+1, d)
				}
				scrambleLibSchema(&fs1)
			}
		}
	}
	rp, err := ref.ParseSchema(out)
	if err != nil {
		return nt, labels, fmt.Errorf("reference parser rejects Marshal output %s: %v", out, err)
	}
	if d := rp.Diff(c.Schema, ""); d != "" {
		return nt, labels, fmt.Errorf("Marshal output differs from the schema: %s\n%s", d, out)
	}
	s2, err := avro.SchemaFromString(string(out))
	if err != nil {
		return nt, labels, fmt.Errorf("SchemaFromString rejects Marshal output %s: %v", out, err)
	}
	if !reflect.DeepEqual(s, s2) {
		// DeepEqual distinguishes nil and empty slices, which carry no schema
		// information; fall back to the structural comparison before failing
		if d := fromLib(s2).Diff(fromLib(s), ""); d != "" {
			return nt, labels, fmt.Errorf("parse(marshal(s)) differs from s: %s", d)
		}
		labels = append(labels, "deepequal_nil_vs_empty_only")
	}
	scrambleLibSchema(&s)
	if s2, err := avro.SchemaFromString(doc); err != nil {
		return nt, labels, fmt.Errorf("second SchemaFromString of the same document failed: %v", err)
	} else if d := fromLib(s2).Diff(c.Schema, ""); d != "" {
		return nt, labels, fmt.Errorf("after the caller edited the first parse result, parsing the same document again gives a different schema: %s", d)
	}
	return nt, labels, nil
}

var c14OtherSchemas = func() []*avro.Schema {
	var out []*avro.Schema
	for _, doc := range []string{
		`{"type":"record","name":"OtherRecordWithAQuiteLongNameToFillBuffers","namespace":"org.example.other","fields":[{"name":"alpha","type":"long"},{"name":"beta","type":["null","string"]},{"name":"gamma","type":{"type":"array","items":"double"}}]}`,
		`"string"`,
		`{"type":"fixed","name":"F","size":16}`,
	} {
		s, err := avro.SchemaFromString(doc)
		if err == nil {
			out = append(out, &s)
		}
	}
	return out
}()

func drawC14(t *rapid.T) c14Case {
	o := &gen.SchemaOpts{MaxDepth: 4, Enum: true, Logical: true, FancyNames: true, AnyUnion: true, ObjectPrims: true}
	if thorough() {
		o.MaxDepth = 6
	}
	var c c14Case
	if gen.Uniform(t, "deepChain", 15) == 0 {
		// a long, thin schema: 8-40 levels of records / arrays / maps / unions
		// (BigQuery allows 15 levels of nested records)
		depth := gen.UniformRange(t, "chainDepth", 8, 40)
		s := ref.Prim(rapid.SampledFrom([]string{"long", "string", "double"}).Draw(t, "chainLeaf"))
		for i := 0; i < depth; i++ {
			inner := s
			switch gen.Uniform(t, "chainKind", 4) {
			case 0:
				s = ref.Schema{Kind: "array", Items: &inner}
			case 1:
				s = ref.Schema{Kind: "map", Values: &inner}
			case 2:
				if inner.Kind != "union" {
					s = ref.Nullable(inner)
					break
				}
				fallthrough
			default:
				s = ref.Schema{Kind: "record", Name: fmt.Sprintf("L%d", i), Fields: []ref.Field{{Name: "v", Type: inner}, {Name: "n", Type: ref.Prim("long")}}}
			}
		}
		c.Schema = s
	} else if rapid.IntRange(0, 9).Draw(t, "topRecord") < 7 {
		c.Schema = gen.RecordSchema(t, o, 0)
	} else {
		c.Schema = gen.Schema(t, o, 0)
	}
	if rapid.IntRange(0, 4).Draw(t, "canonical") != 0 {
		c.Layout = gen.ChoiceBytes(t, "layout", gen.UniformRange(t, "nlayout", 0, 120))
		c.Extras = rapid.Bool().Draw(t, "extras")
		c.Escapes = rapid.IntRange(0, 2).Draw(t, "escapes") == 0
	}
	c.Doc = ref.Render(c.Schema, &ref.Layout{Bits: c.Layout, Extras: c.Extras, Escapes: c.Escapes})
	if rapid.IntRange(0, 3).Draw(t, "malformed") == 0 {
		c.Edit = rapid.SampledFrom([]string{"truncate", "delete", "insert", "replace"}).Draw(t, "edit")
		c.EditPos = rapid.IntRange(0, 1<<20).Draw(t, "pos")
		c.EditCh = rapid.SampledFrom([]byte{'{', '}', '[', ']', '"', ',', ':', '\\', 'x', '0', ' ', 0, 0xff, '\n', 0xe9, 0xc3, 0x80}).Draw(t, "ch")
	}
	return c
}

func TestC14(t *testing.T) {
	col := stats.New("C14")
	col.Rule = c14Rule
	propCheck(t, col, "c14", drawC14, runC14)
}

// scrambleLibSchema edits a schema value in place, everywhere: what a caller is
// free to do with a value it was given.
func scrambleLibSchema(s *avro.Schema) {
	s.Type = "scrambled"
	for i := range s.Union {
		scrambleLibSchema(&s.Union[i])
	}
	if len(s.Union) > 1 {
		s.Union[0], s.Union[1] = s.Union[1], s.Union[0]
	}
	if o := s.Object; o != nil {
		o.Type, o.Name, o.Namespace, o.LogicalType, o.Size = "scrambled", "Scrambled", "scr.ambled", "scrambled", o.Size+7
		for i := range o.Fields {
			o.Fields[i].Name = "scrambled" + o.Fields[i].Name
			scrambleLibSchema(&o.Fields[i].Type)
		}
		if len(o.Fields) > 1 {
			o.Fields[0], o.Fields[1] = o.Fields[1], o.Fields[0]
		}
		scrambleLibSchema(&o.Items)
		scrambleLibSchema(&o.Values)
		for i := range o.Symbols {
			o.Symbols[i] = "scrambled"
		}
	}
}
