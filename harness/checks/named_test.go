package checks

import (
	"fmt"
	"testing"

	"pgregory.net/rapid"

	"verifh/cat"
	"verifh/gen"
	"verifh/spec"
	"verifh/stats"
)

// Generated named types (cat/zz_named_gen.go, written by verifh/gencat): the same
// round-trip, reference-reader and schema-mapping oracles over struct types that
// reflect.StructOf cannot express — named nested structs, embedding by value and
// by pointer in any position, embedded registered types, unexported fields of
// assorted sizes between the exported ones, defined slice / map / pointer /
// primitive types — each through the real generic Encoder[T].

func init() { stats.GenCatalogue = fmt.Sprintf("%d/%d", cat.GenSeed, cat.GenN) }

func drawNamedEncCase(t *rapid.T) encCase {
	c := drawEncCase(t)
	names := cat.GenNames()
	if len(names) == 0 {
		t.Fatalf("VERIF-INCONCLUSIVE the generated catalogue is empty (cat/zz_named_gen.go missing)")
	}
	c.Type = cat.Get(names[gen.Uniform(t, "genType", len(names))]).Spec
	c.GoType = c.Type.GoString()
	c.Evolved = []int{0, 0, 0, 1, 2, 3}[gen.Uniform(t, "evolvedNamed", 6)]
	n := gen.UniformRange(t, "nrecordsNamed", 0, 6)
	c.Records = gen.Records(t, c.Type, n, gen.ValueOpts{Big: true})
	c.FlushAfter = nil
	for i := 0; i < n; i++ {
		c.FlushAfter = append(c.FlushAfter, rapid.SampledFrom([]int{0, 0, 0, 1, 2}).Draw(t, "flushNamed"))
	}
	return c
}

func namedLabels(ts spec.TypeSpec, labels []string) []string {
	labels = append(labels, "generated_named_type")
	if ts.Contains(func(t spec.TypeSpec) bool {
		for _, f := range t.Fields {
			if f.Embedded {
				return true
			}
		}
		return false
	}) {
		labels = append(labels, "has_embedded_field")
	}
	return labels
}

func TestC01Named(t *testing.T) {
	col := stats.New("C01")
	col.Rule = c01Rule
	propCheck(t, col, "c01", drawNamedEncCase, func(c encCase) (bool, []string, error) {
		nt, labels, err := runC01(c)
		return nt, namedLabels(c.Type, labels), err
	})
}

func TestC02Named(t *testing.T) {
	col := stats.New("C02")
	col.Rule = c02Rule
	propCheck(t, col, "c02", drawNamedEncCase, func(c encCase) (bool, []string, error) {
		nt, labels, err := runC02(c)
		return nt, namedLabels(c.Type, labels), err
	})
}

// TestC15Named: every generated named type through the schema-generation oracle.
func TestC15Named(t *testing.T) {
	col := stats.New("C15")
	col.Rule = c15Rule
	defer col.Flush()
	names := cat.GenNames()
	if len(names) == 0 {
		t.Fatalf("VERIF-INCONCLUSIVE the generated catalogue is empty (cat/zz_named_gen.go missing)")
	}
	for _, n := range names {
		sp := cat.Get(n).Spec
		c := c15Case{Type: spec.TypeSpec{K: "struct", Cat: n}, GoType: "cat." + n + " " + sp.GoString()}
		var nt bool
		var labels []string
		err := protect(func() error {
			var e error
			nt, labels, e = runC15(c)
			return e
		})
		col.Record(c, nt, namedLabels(sp, labels)...)
		if err != nil {
			failCase(t, "C15", "c15", c, err)
		}
	}
}
