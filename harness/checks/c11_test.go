package checks

import (
	"bytes"
	"fmt"
	"reflect"
	"runtime"
	"runtime/debug"
	"sync/atomic"
	"testing"
	"time"
	"unsafe"

	"github.com/philpearl/avro"
	"pgregory.net/rapid"

	"verifh/gen"
	"verifh/iso"
	"verifh/ref"
	"verifh/spec"
	"verifh/stats"
)

// C11 — decoded values are fully visible to the garbage collector.

const c11Rule = "rapid draws of struct types weighted towards *map, *[]T, map[string]map, map[string][]T, pointers inside collections and nested structs, with GCPoint fields " +
	"(a registered custom type whose codec's Read and Write run runtime.GC() and allocate decoys) at drawn field / element / map-value positions, so that collections happen between any two field decodes or encodes; " +
	"a drawn schedule of extra collections (in the callback, after the read), the record's bank either retained or dropped unreferenced and an optional background goroutine looping runtime.GC() during encode; evaluated in a worker with GODEBUG=clobberfree=1 and GC percent 1 " +
	"(memory the collector considers free is overwritten at once); oracle: after the schedule and a batch of same-type allocations every retained record still denotes what was written, no crash; " +
	"the file produced under the GC schedule decodes with the reference decoder to what was written; " +
	"non-trivial = the type has a map or slice reached through a pointer or another map and >= 1 collection ran between decode and comparison; distinct by case JSON hash"

// GCPoint is a custom type whose codec forces collections in the middle of a record.
type GCPoint struct{ V int64 }

type gcPointCodec struct{ avro.Int64Codec }

var gcPointCollections atomic.Int64
var gcDecoys [][]byte

func gcChurn() {
	runtime.GC()
	gcPointCollections.Add(1)
	// decoys of assorted sizes so that freed spans are re-used even without clobbering
	gcDecoys = gcDecoys[:0]
	for _, n := range []int{8, 16, 24, 48, 64, 96, 208, 416} {
		b := make([]byte, n)
		for i := range b {
			b[i] = 0xEE
		}
		gcDecoys = append(gcDecoys, b)
	}
}

func (c gcPointCodec) Read(r *avro.ReadBuf, p unsafe.Pointer) error {
	err := c.Int64Codec.Read(r, unsafe.Pointer(&(*GCPoint)(p).V))
	gcChurn()
	return err
}

func (c gcPointCodec) Write(w *avro.WriteBuf, p unsafe.Pointer) {
	gcChurn()
	c.Int64Codec.Write(w, unsafe.Pointer(&(*GCPoint)(p).V))
}

// GCPtr is a custom type carried as an Avro long whose Go value holds a pointer:
// wherever the library allocates room for it (fields, slice elements, map values)
// that memory must be typed, or the pointee is invisible to the collector.
type GCPtr struct{ P *int64 }

type gcPtrCodec struct{ avro.Int64Codec }

func (c gcPtrCodec) Read(r *avro.ReadBuf, p unsafe.Pointer) error {
	x := new(int64)
	if err := c.Int64Codec.Read(r, unsafe.Pointer(x)); err != nil {
		return err
	}
	(*GCPtr)(p).P = x
	gcChurn()
	return nil
}

func (c gcPtrCodec) Write(w *avro.WriteBuf, p unsafe.Pointer) {
	var v int64
	if q := (*GCPtr)(p).P; q != nil {
		v = *q
	}
	c.Int64Codec.Write(w, unsafe.Pointer(&v))
}

var gcPtrType = reflect.TypeOf(GCPtr{})

func (c gcPtrCodec) New(r *avro.ReadBuf) unsafe.Pointer { return r.Alloc(gcPtrType) }
func (c gcPtrCodec) Omit(p unsafe.Pointer) bool         { return false }

var gcPointType = reflect.TypeOf(GCPoint{})

func (c gcPointCodec) New(r *avro.ReadBuf) unsafe.Pointer { return r.Alloc(gcPointType) }
func (c gcPointCodec) Omit(p unsafe.Pointer) bool         { return false }

func init() {
	avro.Register(gcPointType, func(s avro.Schema, typ reflect.Type, omit bool) (avro.Codec, error) {
		if s.Type != "long" {
			return nil, fmt.Errorf("GCPoint needs a long schema, not %s", s.Type)
		}
		return gcPointCodec{}, nil
	})
	avro.RegisterSchema(gcPointType, avro.Schema{Type: "long"})
	spec.Custom["gcpoint"] = &spec.CustomKind{
		Type: gcPointType, Schema: ref.Prim("long"), Base: "int64",
		Set: func(dst reflect.Value, v spec.ValueSpec) { dst.Field(0).SetInt(v.I) },
		Abs: func(v reflect.Value) spec.AbsVal { return spec.AbsVal{K: "long", I: v.Field(0).Int()} },
	}
	avro.Register(gcPtrType, func(s avro.Schema, typ reflect.Type, omit bool) (avro.Codec, error) {
		if s.Type != "long" {
			return nil, fmt.Errorf("GCPtr needs a long schema, not %s", s.Type)
		}
		return gcPtrCodec{}, nil
	})
	avro.RegisterSchema(gcPtrType, avro.Schema{Type: "long"})
	spec.Custom["gcptr"] = &spec.CustomKind{
		Type: gcPtrType, Schema: ref.Prim("long"), Base: "int64",
		Set: func(dst reflect.Value, v spec.ValueSpec) { x := v.I; dst.Field(0).Set(reflect.ValueOf(&x)) },
		Abs: func(v reflect.Value) spec.AbsVal {
			if v.Field(0).IsNil() {
				return spec.AbsVal{K: "long"}
			}
			return spec.AbsVal{K: "long", I: v.Field(0).Elem().Int()}
		},
	}
	registerIso("c11", runC11InWorker)
	registerReplay("c11", func(c c11Case) error {
		w, err := iso.NewWorker("GODEBUG=clobberfree=1")
		if err != nil {
			return fmt.Errorf("VERIF-INCONCLUSIVE cannot start worker: %v", err)
		}
		defer w.Close()
		return c11Verdict(w, c)
	})
}

type c11Case struct {
	Enc          encCase `json:"enc"`
	GCInCallback []bool  `json:"gc_in_callback"` // per record
	GCAfter      int     `json:"gc_after"`
	BackgroundGC bool    `json:"background_gc"`
	RetainBanks  bool    `json:"retain_banks"`
	// Choices, if set: the records are decoded from a file another writer might have
	// produced from the same data — arrays and maps split into blocks of any sizes,
	// with or without byte sizes (the reference writer, these encoding choices).
	Choices []byte `json:"choices,omitempty"`
}

var c11Sink []interface{}

func runC11InWorker(c c11Case) error {
	debug.SetGCPercent(1)
	ec := c.Enc
	typ := spec.Build(ec.Type)
	stop := make(chan struct{})
	done := make(chan struct{})
	if c.BackgroundGC {
		go func() {
			defer close(done)
			for {
				select {
				case <-stop:
					return
				default:
					runtime.GC()
				}
			}
		}()
	}
	file, in, err := encodeCase(ec)
	if c.BackgroundGC {
		close(stop)
		<-done
	}
	if err != nil {
		return err
	}
	// encode side: what was written under the GC schedule is what was given
	schema, lay, blocks, err := ref.ReadRecords(file)
	if err != nil {
		return fmt.Errorf("file written while collections ran is not valid: %v", err)
	}
	if len(c.Choices) > 0 {
		fs := ref.FileSpec{Schema: lay.Meta["avro.schema"], Codec: ec.Compression, Sync: lay.Sync}
		enc := ref.Encoder{C: &ref.Choices{Bits: c.Choices}}
		for _, b := range blocks {
			var payload []byte
			for _, d := range b {
				if payload, err = enc.Encode(payload, schema, d); err != nil {
					return fmt.Errorf("VERIF-INCONCLUSIVE harness: %v", err)
				}
			}
			fs.Blocks = append(fs.Blocks, ref.Block{Count: int64(len(b)), Payload: payload})
		}
		if file, _, err = ref.WriteFile(fs); err != nil {
			return fmt.Errorf("VERIF-INCONCLUSIVE harness: %v", err)
		}
	}
	i := 0
	for _, b := range blocks {
		for _, d := range b {
			if i >= len(in) {
				return fmt.Errorf("file holds more records than were encoded")
			}
			if err := spec.Match(in[i], spec.AbsOfDatum(schema, d), fmt.Sprintf("written record[%d]", i)); err != nil {
				return fmt.Errorf("encoding while collections ran changed the data: %v", err)
			}
			i++
		}
	}
	if i != len(in) {
		return fmt.Errorf("%d records encoded, file holds %d", len(in), i)
	}
	// decode side (the background collector, if the case has one, runs through it as well)
	if c.BackgroundGC {
		stop2, done2 := make(chan struct{}), make(chan struct{})
		go func() {
			defer close(done2)
			for {
				select {
				case <-stop2:
					return
				default:
					runtime.GC()
				}
			}
		}()
		defer func() { close(stop2); <-done2 }()
	}
	var kept []reflect.Value
	var banks []*avro.ResourceBank
	n := 0
	rerr := avro.ReadFile(bytes.NewReader(file), reflect.New(typ).Elem().Interface(), func(val unsafe.Pointer, rb *avro.ResourceBank) error {
		cp := reflect.New(typ).Elem()
		cp.Set(reflect.NewAt(typ, val).Elem())
		kept = append(kept, cp)
		if c.RetainBanks {
			// otherwise the bank is dropped (never closed, never referenced
			// again): the values must then be kept alive by ordinary typed
			// pointers alone
			banks = append(banks, rb)
		}
		if n < len(c.GCInCallback) && c.GCInCallback[n] {
			gcChurn()
		}
		n++
		return nil
	})
	if rerr != nil {
		return fmt.Errorf("ReadFile: %v", rerr)
	}
	for k := 0; k < c.GCAfter; k++ {
		gcChurn()
	}
	// same-type allocations: freed objects of these size classes get re-used
	c11Sink = c11Sink[:0]
	for k := 0; k < 8; k++ {
		for _, r := range ec.Records {
			c11Sink = append(c11Sink, spec.New(ec.Type, r).Interface())
		}
	}
	runtime.GC()
	if len(kept) != len(in) {
		return fmt.Errorf("%d records written, %d delivered", len(in), len(kept))
	}
	for i := range kept {
		if err := spec.Match(in[i], spec.Abs(ec.Type, false, kept[i]), fmt.Sprintf("record[%d]", i)); err != nil {
			return fmt.Errorf("a decoded value changed after garbage collection: %v", err)
		}
	}
	runtime.KeepAlive(kept)
	// the application is done with the records: banks it kept are closed and will be
	// handed out again by later reads in this process
	for _, b := range banks {
		b.Close()
	}
	return nil
}

func c11Verdict(w *iso.Worker, c c11Case) error {
	_, err := isoVerdict(w, "c11", c, 60*time.Second)
	return err
}

func c11Interesting(ts spec.TypeSpec) bool {
	return ts.Contains(func(t spec.TypeSpec) bool {
		if t.K == "ptr" && (t.StripPtr().K == "map" || t.StripPtr().K == "slice") {
			return true
		}
		return t.K == "map" && (t.Elem.K == "map" || t.Elem.K == "slice" || t.Elem.K == "ptr")
	})
}

func drawC11(t *rapid.T) c11Case {
	var c c11Case
	leaves := []string{"gcpoint", "gcpoint", "gcptr", "gcptr", "int64", "string", "bytes", "float64", "int16", "time", "nullString", "nullInt", "nullTime", "nullFloat", "bool"}
	o := gen.TypeOpts{MaxDepth: 4, MaxFields: 4, Leaves: leaves, ShapeBoost: true}
	c.Enc.Type = gen.StructType(t, o, 1)
	if gen.Uniform(t, "sameSizeTypes", 4) == 0 {
		// pointers to different types of the same size and pointer span (24 bytes)
		// in one record: a bank that files allocations by size alone mixes their layouts
		pt := spec.FieldSpec{Go: "PT", JSON: "pt", T: spec.Ptr(spec.T("time"))}
		ps := spec.FieldSpec{Go: "PS", JSON: "ps", T: spec.Ptr(spec.Struct(spec.FieldSpec{Go: "Name", T: spec.T("string")}, spec.FieldSpec{Go: "Score", T: spec.Ptr(spec.T("float64"))}))}
		pb := spec.FieldSpec{Go: "PB", JSON: "pb", T: spec.Ptr(spec.Struct(spec.FieldSpec{Go: "B", T: spec.T("bytes")}))}
		extra := [][]spec.FieldSpec{{pt, ps}, {ps, pt}, {pt, pb, ps}, {pb, pt}}[gen.Uniform(t, "sameSizeOrder", 4)]
		c.Enc.Type.Fields = append(c.Enc.Type.Fields, extra...)
	}
	if gen.Uniform(t, "manyBankTypes", 5) == 0 {
		// pointers to many different types in one record, in a drawn order, some of them
		// several times: the bank's table of types grows while values of the earlier
		// types are already in use
		kinds := []spec.TypeSpec{spec.T("int64"), spec.T("string"), spec.T("float64"), spec.T("bool"), spec.T("int16"), spec.T("bytes"), spec.T("time"),
			spec.Slice(spec.T("string")), spec.Map(spec.T("int64")), spec.Struct(spec.FieldSpec{Go: "V", T: spec.T("string")}), spec.T("nullString"), spec.T("float32"), spec.T("gcptr")}
		for i, n := 0, gen.UniformRange(t, "nBankTypes", 5, 14); i < n; i++ {
			k := kinds[gen.Uniform(t, "bankType", len(kinds))]
			c.Enc.Type.Fields = append(c.Enc.Type.Fields, spec.FieldSpec{Go: fmt.Sprintf("BT%d", i), JSON: fmt.Sprintf("bt%d", i), T: spec.Ptr(k)})
		}
	}
	if gen.Uniform(t, "zeroWidthItems", 5) == 0 {
		// pointers to values that take no bytes on the wire, as the last field: the
		// item count of the array is larger than what is left of the buffer
		c.Enc.Type.Fields = append(c.Enc.Type.Fields, spec.FieldSpec{Go: "PE", JSON: "pe", T: spec.Slice(spec.Ptr(spec.Struct()))})
	}
	c.Enc.GoType = c.Enc.Type.GoString()
	n := gen.UniformRange(t, "nrecords", 1, 4)
	vo := gen.ValueOpts{MaxElems: 3}
	if gen.Uniform(t, "otherWriter", 3) == 0 {
		c.Choices = gen.ChoiceBytes(t, "choices", gen.UniformRange(t, "nchoices", 8, 60))
		vo = gen.ValueOpts{MaxElems: 9, Big: true, NoHuge: true}
	}
	c.Enc.Records = gen.Records(t, c.Enc.Type, n, vo)
	c.Enc.Compression = drawCompression(t)
	c.Enc.BlockSize = []int{0, 40, 1 << 20}[gen.Uniform(t, "blocksize", 3)]
	for i := 0; i < n; i++ {
		c.Enc.FlushAfter = append(c.Enc.FlushAfter, 0)
		c.GCInCallback = append(c.GCInCallback, gen.Uniform(t, "gcInCallback", 3) == 0)
	}
	c.GCAfter = gen.Uniform(t, "gcAfter", 3)
	c.BackgroundGC = gen.Uniform(t, "backgroundGC", 4) == 0
	c.RetainBanks = rapid.Bool().Draw(t, "retainBanks")
	return c
}

func TestC11(t *testing.T) {
	col := stats.New("C11")
	col.Rule = c11Rule
	defer col.Flush()
	w, err := iso.NewWorker("GODEBUG=clobberfree=1")
	if err != nil {
		t.Fatalf("VERIF-INCONCLUSIVE cannot start worker: %v", err)
	}
	defer w.Close()
	rapid.Check(t, func(rt *rapid.T) {
		c := drawC11(rt)
		var labels []string
		interesting := c11Interesting(c.Enc.Type)
		if interesting {
			labels = append(labels, "collection_behind_pointer_or_map")
		}
		if c.Enc.Type.Contains(func(t spec.TypeSpec) bool { return t.K == "gcpoint" }) {
			labels = append(labels, "has_gcpoint")
		}
		if c.BackgroundGC {
			labels = append(labels, "background_gc")
		}
		col.Record(c, interesting, labels...)
		if err := c11Verdict(w, c); err != nil {
			col.Flush()
			failCase(rt, "C11", "c11", c, err)
		}
	})
	col.Extra["worker_spawns"] = w.Spawns
}
