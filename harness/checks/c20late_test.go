package checks

import (
	"fmt"
	"reflect"
	"strings"
	"testing"
	"unsafe"

	"github.com/philpearl/avro"

	"verifh/ref"
	"verifh/stats"
)

// C20, registration that comes late: a type the library cannot express on its own
// (a defined uint32) is first met unregistered — schema generation and codec
// construction refuse every struct that holds it, as they should — and is then
// registered. From that moment it is governed by its codec wherever it occurs, in
// the very struct types that were refused before.

type CLate uint32

type lateCodec struct{}

func (lateCodec) Read(r *avro.ReadBuf, p unsafe.Pointer) error {
	v, err := r.Varint()
	if err != nil {
		return err
	}
	*(*CLate)(p) = CLate(uint32(v - 1000))
	return nil
}
func (lateCodec) Skip(r *avro.ReadBuf) error               { _, err := r.Varint(); return err }
func (lateCodec) New(r *avro.ReadBuf) unsafe.Pointer       { return r.Alloc(reflect.TypeOf(CLate(0))) }
func (lateCodec) Omit(p unsafe.Pointer) bool               { return false }
func (lateCodec) Write(w *avro.WriteBuf, p unsafe.Pointer) { w.Varint(int64(*(*CLate)(p)) + 1000) }

type LateRow struct {
	ID    int64            `json:"id"`
	L     CLate            `json:"l"`
	PL    *CLate           `json:"pl"`
	Ls    []CLate          `json:"ls"`
	ML    map[string]CLate `json:"ml"`
	Inner struct {
		Deep CLate `json:"deep"`
	} `json:"inner"`
	Name string `json:"name"`
}

func lateShapes() []reflect.Type {
	lt := reflect.TypeOf(CLate(0))
	f := func(name, tag string, t reflect.Type) reflect.StructField {
		return reflect.StructField{Name: name, Type: t, Tag: reflect.StructTag(`json:"` + tag + `"`)}
	}
	i64, str := reflect.TypeOf(int64(0)), reflect.TypeOf("")
	inner := reflect.StructOf([]reflect.StructField{f("A", "a", i64), f("L", "l", lt)})
	return []reflect.Type{
		reflect.TypeOf(LateRow{}),
		reflect.StructOf([]reflect.StructField{f("L", "l", lt)}),
		reflect.StructOf([]reflect.StructField{f("A", "a", i64), f("P", "p", reflect.PointerTo(lt)), f("S", "s", str)}),
		reflect.StructOf([]reflect.StructField{f("Ls", "ls", reflect.SliceOf(lt)), f("A", "a", i64)}),
		reflect.StructOf([]reflect.StructField{f("M", "m", reflect.MapOf(str, lt))}),
		reflect.StructOf([]reflect.StructField{f("In", "in", inner), f("Ins", "ins", reflect.SliceOf(inner)), f("PIn", "pin", reflect.PointerTo(inner))}),
		reflect.StructOf([]reflect.StructField{f("O", "o,omitempty", lt), f("Z", "z", i64)}),
		reflect.StructOf([]reflect.StructField{f("PP", "pp", reflect.PointerTo(reflect.PointerTo(lt))), f("SP", "sp", reflect.SliceOf(reflect.PointerTo(lt)))}),
	}
}

func lateFill(v reflect.Value, n *uint32) {
	switch v.Kind() {
	case reflect.Uint32:
		*n += 7
		v.SetUint(uint64(*n))
	case reflect.Int64:
		v.SetInt(int64(*n) * 3)
	case reflect.String:
		v.SetString(fmt.Sprintf("s%d", *n))
	case reflect.Ptr:
		p := reflect.New(v.Type().Elem())
		lateFill(p.Elem(), n)
		v.Set(p)
	case reflect.Slice:
		s := reflect.MakeSlice(v.Type(), 2, 2)
		lateFill(s.Index(0), n)
		lateFill(s.Index(1), n)
		v.Set(s)
	case reflect.Map:
		m := reflect.MakeMap(v.Type())
		e := reflect.New(v.Type().Elem()).Elem()
		lateFill(e, n)
		m.SetMapIndex(reflect.ValueOf("k"), e)
		v.Set(m)
	case reflect.Struct:
		for i := 0; i < v.NumField(); i++ {
			lateFill(v.Field(i), n)
		}
	}
}

func runC20Late() error {
	shapes := lateShapes()
	// unregistered: every shape is refused, with an error
	for round := 0; round < 2; round++ {
		for i, typ := range shapes {
			zero := reflect.New(typ).Elem().Interface()
			// refused today (unsigned kinds have no mapping); a library that gave them one
			// would be just as right: only the outcome after the registration is judged
			if err := protect(func() error { _, _ = avro.SchemaForType(zero); return nil }); err != nil {
				return fmt.Errorf("before registration, shape %d: %v", i, err)
			}
		}
	}
	_, _ = avro.NewEncoderFor[LateRow](&strings.Builder{}, avro.CompressionNull, 100)
	avro.Register(reflect.TypeOf(CLate(0)), func(s avro.Schema, typ reflect.Type, omit bool) (avro.Codec, error) {
		if s.Type != "long" {
			return nil, fmt.Errorf("CLate needs a long schema, got %q", s.Type)
		}
		return lateCodec{}, nil
	})
	avro.RegisterSchema(reflect.TypeOf(CLate(0)), avro.Schema{Type: "long"})
	// registered: the same shapes are expressed, CLate as long in every position, and values round-trip through lateCodec
	for i, typ := range shapes {
		zero := reflect.New(typ).Elem().Interface()
		s, err := avro.SchemaForType(zero)
		if err != nil {
			return fmt.Errorf("after registration shape %d (%v) is still refused (it was refused, rightly, before the registration): %v", i, typ, err)
		}
		b, err := s.Marshal()
		if err != nil {
			return fmt.Errorf("shape %d: Marshal: %v", i, err)
		}
		rs, err := ref.ParseSchema(b)
		if err != nil {
			return fmt.Errorf("shape %d: schema %s: %v", i, b, err)
		}
		if !strings.Contains(string(b), `"long"`) {
			return fmt.Errorf("shape %d: the registered schema (long) does not show in %s", i, b)
		}
		codec, err := s.Codec(zero)
		if err != nil {
			return fmt.Errorf("shape %d: Schema.Codec after registration: %v", i, err)
		}
		in := reflect.New(typ)
		n := uint32(i * 100)
		lateFill(in.Elem(), &n)
		wb := avro.NewWriteBuf(nil)
		codec.Write(wb, in.UnsafePointer())
		if _, err := ref.DecodeExact(rs, wb.Bytes()); err != nil {
			return fmt.Errorf("shape %d: bytes written are not an encoding of %s: %v", i, b, err)
		}
		out := reflect.New(typ)
		rb := avro.NewReadBuf(append([]byte(nil), wb.Bytes()...))
		if err := codec.Read(rb, out.UnsafePointer()); err != nil || rb.Len() != 0 {
			return fmt.Errorf("shape %d: reading back: %v (%d bytes left)", i, err, rb.Len())
		}
		if !reflect.DeepEqual(in.Elem().Interface(), out.Elem().Interface()) {
			return fmt.Errorf("shape %d: wrote %+v, read %+v", i, in.Elem().Interface(), out.Elem().Interface())
		}
	}
	if _, err := avro.NewEncoderFor[LateRow](&strings.Builder{}, avro.CompressionNull, 100); err != nil {
		return fmt.Errorf("after registration NewEncoderFor still refuses the struct it refused before: %v", err)
	}
	return nil
}

// TestC20Late runs in a process of its own (every unit does): CLate is registered nowhere else.
func TestC20Late(t *testing.T) {
	col := stats.New("C20")
	defer col.Flush()
	c := struct{ Scenario string }{"refused unregistered, then registered, then used in the same struct types"}
	err := protect(runC20Late)
	col.Record(c, true, "late_registration")
	if err != nil {
		failCase(t, "C20", "c20late", c, err)
	}
}

func init() {
	registerReplay("c20late", func(struct{ Scenario string }) error { return runC20Late() })
}
