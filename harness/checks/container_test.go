package checks

import (
	"bytes"
	"errors"
	"fmt"
	"hash/fnv"
	"io"
	"reflect"
	"testing"
	"unsafe"

	"github.com/philpearl/avro"
	"pgregory.net/rapid"

	"verifh/gen"
	"verifh/ref"
	"verifh/spec"
	"verifh/stats"
)

// C07 (damage is rejected, records exactly as declared) and C08 (truncation
// yields a prefix and an error) enumerate fault sites over generated files.

// fileCase is a valid container file: written by the reference writer (Wire)
// or by the library's own encoder (Enc).
type fileCase struct {
	Wire *wireCase `json:"wire,omitempty"`
	Enc  *encCase  `json:"enc,omitempty"`
	// Site restricts a replay to one fault site (-1 = all sites).
	Site int `json:"site"`
}

type builtFile struct {
	file   []byte
	ts     spec.TypeSpec
	typ    reflect.Type
	lay    ref.FileLayout
	codec  string
	intact []spec.AbsVal // denotation of every record of the intact file, in order
	perBlk []int
}

func (fc fileCase) build() (*builtFile, error) {
	b := &builtFile{}
	var written []spec.AbsVal // for files the library's encoder wrote: what was written
	switch {
	case fc.Wire != nil:
		w := *fc.Wire
		for _, d := range w.Datums {
			if !datumFits(w.Schema, d, w.Target) {
				return nil, nil // out of domain
			}
		}
		file, _, _, err := buildWireFile(w)
		if err != nil {
			return nil, err
		}
		b.file, b.ts = file, w.Target
		// "exactly the records": what the intact file delivers is what the reference
		// writer put into it
		vals, err := readWire(file, spec.Build(w.Target))
		if err != nil {
			return nil, fmt.Errorf("intact file is not readable: %v", err)
		}
		if len(vals) != len(w.Datums) {
			return nil, fmt.Errorf("intact file holds %d records, %d delivered", len(w.Datums), len(vals))
		}
		for i, v := range vals {
			if err := agree(w.Schema, w.Datums[i], w.Target, false, v, dirRead, fmt.Sprintf("intact file, record[%d]", i)); err != nil {
				return nil, fmt.Errorf("the intact file does not deliver the records written into it: %v", err)
			}
		}
	case fc.Enc != nil:
		file, in, err := encodeCase(*fc.Enc)
		if err != nil {
			return nil, fmt.Errorf("encoder failed: %w", err)
		}
		b.file, b.ts = file, fc.Enc.Type
		written = in
	default:
		return nil, fmt.Errorf("VERIF-INCONCLUSIVE empty file case")
	}
	b.typ = spec.Build(b.ts)
	lay, err := ref.ParseFile(b.file)
	if err != nil {
		return nil, fmt.Errorf("reference reader rejects the intact file: %v", err)
	}
	b.lay = lay
	b.codec = "null"
	if c, ok := lay.Meta["avro.codec"]; ok {
		b.codec = string(c)
	}
	for _, bl := range lay.Blocks {
		b.perBlk = append(b.perBlk, int(bl.Count))
	}
	got, err := readAbs(b.file, b.ts, b.typ, nil)
	if err != nil {
		return nil, fmt.Errorf("intact file is not readable: %v", err)
	}
	total := 0
	for _, n := range b.perBlk {
		total += n
	}
	if len(got) != total {
		return nil, fmt.Errorf("intact file declares %d records, %d delivered", total, len(got))
	}
	if written != nil {
		// "exactly the records": the records delivered from the intact file are the records written
		if len(written) != len(got) {
			return nil, fmt.Errorf("%d records written, the intact file delivers %d", len(written), len(got))
		}
		for i := range got {
			if err := spec.Match(written[i], got[i], fmt.Sprintf("intact file, record[%d]", i)); err != nil {
				return nil, fmt.Errorf("the intact file does not deliver what was written: %v", err)
			}
		}
	}
	b.intact = got
	return b, nil
}

// readAbs reads a file and returns the denotation of each delivered record.
// failAt >= 0 makes the callback return errSentinel at that record index.
var errSentinel = errors.New("callback sentinel error")

// callbackErrors are the values a callback may return to stop the read: an
// ordinary error and errors the reader also uses internally (a caller reading
// from its own stream inside the callback will return exactly these).
var callbackErrors = []error{
	errSentinel,
	io.EOF,
	io.ErrUnexpectedEOF,
	fmt.Errorf("caller: %w", io.EOF),
}

func readAbs(file []byte, ts spec.TypeSpec, typ reflect.Type, failAt *int) ([]spec.AbsVal, error) {
	return readAbsErr(file, ts, typ, failAt, errSentinel)
}

// Reads alternate (as a function of the file's bytes) between a bytes.Reader, a
// small bufio.Reader and readers that return a few bytes per call.

func readAbsErr(file []byte, ts spec.TypeSpec, typ reflect.Type, failAt *int, cbErr error) ([]spec.AbsVal, error) {
	var got []spec.AbsVal
	// a pure function of the bytes read, so that a replay uses the same reader
	h := len(file)
	for i := 0; i < len(file) && i < 64; i++ {
		h = h*31 + int(file[len(file)-1-i])
	}
	if h < 0 {
		h = -h
	}
	kind := []int{0, 0, 1, 2, 0, 4, 101, 4195, 50, 51}[h%10]
	out := reflect.New(typ).Elem().Interface()
	if (h/10)%3 == 0 {
		// by pointer, into a struct the caller has used before
		p := reflect.New(typ)
		junkFill(p.Elem(), 3)
		out = p.Interface()
	}
	err := avro.ReadFile(makeReader(kind, file), out, func(val unsafe.Pointer, rb *avro.ResourceBank) error {
		got = append(got, spec.Abs(ts, false, reflect.NewAt(typ, val).Elem()))
		if failAt != nil && len(got)-1 == *failAt {
			return cbErr
		}
		return nil
	})
	return got, err
}

// prefixOfIntact checks that got equals the first len(got) intact records.
func (b *builtFile) prefixOfIntact(got []spec.AbsVal) error {
	if len(got) > len(b.intact) {
		return fmt.Errorf("%d records delivered, the file holds %d", len(got), len(b.intact))
	}
	for i := range got {
		if err := spec.Match(b.intact[i], got[i], fmt.Sprintf("record[%d]", i)); err != nil {
			return fmt.Errorf("delivered record differs from the intact file's: %w", err)
		}
	}
	return nil
}

func fileKey(file []byte, site int, class byte) uint64 {
	h := fnv.New64a()
	h.Write(file)
	h.Write([]byte{class, byte(site), byte(site >> 8), byte(site >> 16)})
	return h.Sum64()
}

func drawFileCase(t *rapid.T) fileCase {
	if gen.Uniform(t, "source", 3) == 0 {
		c := drawEncCase(t)
		if len(c.Records) > 5 {
			c.Records = c.Records[:5]
			c.FlushAfter = c.FlushAfter[:5]
		}
		if gen.Uniform(t, "repetitive", 40) == 0 {
			c = drawRepetitiveCase(t)
			if c.Repeat > 600 {
				c.Repeat = 600
			}
		}
		return fileCase{Enc: &c, Site: -1}
	}
	if gen.Uniform(t, "manyTiny", 10) == 0 {
		// many tiny records in one block: the block's count needs a multi-byte varint
		var w wireCase
		w.Schema = ref.Schema{Kind: "record", Name: "Tiny", Fields: []ref.Field{{Name: "b", Type: ref.Prim("boolean")}}}
		w.Target = spec.Struct(spec.FieldSpec{Go: "B", JSON: "b", T: spec.T("bool")})
		if rapid.Bool().Draw(t, "zeroWidth") {
			w.Schema.Fields, w.Target.Fields = nil, nil
		}
		w.GoType = w.Target.GoString()
		n := gen.UniformRange(t, "ntiny", 64, 140)
		for i := 0; i < n; i++ {
			d := ref.Datum{K: "record"}
			if len(w.Schema.Fields) == 1 {
				d.Fields = []ref.Datum{ref.Bool(i%3 == 0)}
			}
			w.Datums = append(w.Datums, d)
		}
		if rapid.Bool().Draw(t, "twoBlocks") {
			w.PerBlock = []int{gen.UniformRange(t, "firstBlock", 64, n)}
		}
		w.Codec = rapid.SampledFrom([]string{"null", "deflate", "snappy"}).Draw(t, "codec")
		w.Sync = rapid.SliceOfN(rapid.Byte(), 16, 16).Draw(t, "sync")
		return fileCase{Wire: &w, Site: -1}
	}
	w := drawWireCase(t, &gen.WireOpts{MaxDepth: 2, MultiUnion: true, Drop: 5})
	if w.Codec == "" && gen.Uniform(t, "keepNoCodec", 3) != 0 {
		w.Codec = "snappy"
	}
	return fileCase{Wire: &w, Site: -1}
}

// ---------------------------------------------------------------------------
// C08

const c08Rule = "rapid draws of valid files (reference-written as in C03, or written by the library's encoder as in C01; <= 4 KiB) and, for each file, EVERY cut position 0..len; " +
	"oracle from the reference block table: delivered records = the records of the blocks whose payload ends at or before the cut, equal to the intact file's records, in order; " +
	"err == nil iff the cut is at the end of the header or of a block; below the header end no callback at all; " +
	"evaluations = cuts; non-trivial = cut strictly inside a block of a file with >= 2 blocks; distinct by (file hash, cut); exhaustive per file (all cuts), not over files"

func init() {
	registerReplay("c08", func(c fileCase) error { _, _, err := runC08(c, nil); return err })
}

func cutClass(lay ref.FileLayout, cut, n int) string {
	switch {
	case cut < 4:
		return "magic"
	case cut < lay.SyncStart:
		return "meta"
	case cut < lay.HeaderEnd:
		return "header_sync"
	case cut == lay.HeaderEnd:
		return "boundary"
	}
	for _, b := range lay.Blocks {
		switch {
		case cut == b.End:
			return "boundary"
		case cut > b.End:
			continue
		case cut < b.CountEnd:
			return "count_varint"
		case cut < b.SizeEnd:
			return "size_varint"
		case cut < b.PayloadEnd:
			return "payload"
		default:
			return "block_sync"
		}
	}
	return "boundary"
}

func runC08(c fileCase, col *stats.Collector) (bool, []string, error) {
	b, err := c.build()
	if err != nil {
		return false, nil, err
	}
	if b == nil {
		return false, []string{"out_of_domain"}, nil
	}
	if len(b.file) > 4096 {
		return false, []string{"file_too_large_skipped"}, nil
	}
	labels := []string{"codec_" + b.codec}
	if len(b.lay.Blocks) >= 2 {
		labels = append(labels, "multi_block")
	}
	classes := map[string]int64{}
	for cut := 0; cut <= len(b.file); cut++ {
		if c.Site >= 0 && cut != c.Site {
			continue
		}
		class := cutClass(b.lay, cut, len(b.file))
		classes[class]++
		// expected records: blocks whose payload is completely present
		want := 0
		okCut := cut == b.lay.HeaderEnd
		for i, bl := range b.lay.Blocks {
			if cut >= bl.PayloadEnd {
				want += b.perBlk[i]
			}
			if cut == bl.End {
				okCut = true
			}
		}
		got, rerr := readAbs(b.file[:cut], b.ts, b.typ, nil)
		fail := func(format string, args ...interface{}) (bool, []string, error) {
			return true, labels, fmt.Errorf("cut at %d of %d (%s): %s", cut, len(b.file), class, fmt.Sprintf(format, args...))
		}
		if cut < b.lay.HeaderEnd && len(got) > 0 {
			return fail("%d callbacks although the header is incomplete", len(got))
		}
		if len(got) != want {
			return fail("%d records delivered, %d belong to blocks whose payload is complete", len(got), want)
		}
		if err := b.prefixOfIntact(got); err != nil {
			return fail("%v", err)
		}
		if okCut && rerr != nil {
			return fail("prefix ends exactly at a block boundary but ReadFile failed: %v", rerr)
		}
		if !okCut && rerr == nil {
			return fail("ReadFile reported success for a file cut in mid-%s", class)
		}
		if col != nil {
			inside := class != "boundary" && cut > b.lay.HeaderEnd
			col.RecordKey(fileKey(b.file, cut, 'c'), inside && len(b.lay.Blocks) >= 2)
		}
	}
	if col != nil {
		for k, n := range classes {
			col.LabelN("cut_"+k, n)
		}
		for _, l := range labels {
			col.Label(l)
		}
	}
	return len(b.lay.Blocks) >= 2, labels, nil
}

// enumCheck is propCheck for the enumerating checks: the collector counts
// fault sites (inside run), not files.
func enumCheck(t *testing.T, col *stats.Collector, entry string, run func(fileCase, *stats.Collector) (bool, []string, error)) {
	enumCheckWith(t, col, entry, drawFileCase, run)
}

func enumCheckWith(t *testing.T, col *stats.Collector, entry string, draw func(*rapid.T) fileCase, run func(fileCase, *stats.Collector) (bool, []string, error)) {
	defer col.Flush()
	files := 0
	rapid.Check(t, func(rt *rapid.T) {
		c := draw(rt)
		var nt bool
		err := protect(func() error {
			var e error
			nt, _, e = run(c, col)
			return e
		})
		files++
		if nt && files%7 == 1 {
			col.Sample(c)
		}
		if err != nil {
			col.Flush()
			failCase(rt, col.Property, entry, c, err)
		}
	})
	col.LabelN("files", int64(files))
}

// TestC08Large: a block whose payload exceeds 1 MiB (beyond any internal
// chunking of reads), cut at every structural boundary and at sampled
// positions inside each payload.
type c08LargeCase struct {
	Codec   string `json:"codec"`
	Cut     int    `json:"cut"`
	FileLen int    `json:"file_len"`
}

func init() {
	registerReplay("c08-large", func(c c08LargeCase) error { return c08Large(nil, c.Codec, c.Cut) })
}

func TestC08Large(t *testing.T) {
	col := stats.New("C08")
	col.Rule = c08Rule
	defer col.Flush()
	if err := c08Large(col, "", -1); err != nil {
		var lc c08LargeCase
		if le, ok := err.(*c08LargeErr); ok {
			lc = le.c
		}
		failCase(t, "C08", "c08-large", lc, err)
	}
	col.Label("large_block_files")
}

type c08LargeErr struct {
	c   c08LargeCase
	msg string
}

func (e *c08LargeErr) Error() string { return e.msg }

// buildLargeFile: blocks of 5, 12000 and 5 records {id, s}; the middle block is
// about 1.3 MiB and stays large after compression.
func buildLargeFile(schema ref.Schema, codec string, ci int) ([]byte, ref.FileLayout, error) {
	var blocks []ref.Block
	id := int64(0)
	mk := func(n, strLen int) ref.Block {
		var payload []byte
		for i := 0; i < n; i++ {
			str := make([]byte, strLen)
			// letters that do not repeat in a pattern: the block stays large after compression
			// (hundreds of KiB), as real data does
			x := uint64(id)*0x9e3779b97f4a7c15 + 0x1234567
			for j := range str {
				x ^= x << 13
				x ^= x >> 7
				x ^= x << 17
				str[j] = byte('a' + x%26)
			}
			payload, _ = (&ref.Encoder{}).Encode(payload, schema, ref.Datum{K: "record", Fields: []ref.Datum{ref.Long(id), {K: "string", S: str}}})
			id++
		}
		return ref.Block{Count: int64(n), Payload: payload}
	}
	blocks = append(blocks, mk(5, 20), mk(12000, 105+int(seedVal()%7)), mk(5, 20))
	fs := ref.FileSpec{Schema: []byte(ref.Render(schema, nil)), Codec: codec, Blocks: blocks}
	for i := range fs.Sync {
		fs.Sync[i] = byte(i*17 + ci)
	}
	return ref.WriteFile(fs)
}

// TestC07Large: a file with a block of more than 1 MiB (after a small one, so that
// buffers have to grow in mid-file): intact, every record is delivered as written;
// with the large block's marker damaged, an error and nothing but intact records.
func TestC07Large(t *testing.T) {
	col := stats.New("C07")
	col.Rule = c07Rule
	defer col.Flush()
	if err := c07Large(col, "", 0, true); err != nil {
		var lc c08LargeCase
		if le, ok := err.(*c08LargeErr); ok {
			lc = le.c
		}
		failCase(t, "C07", "c07-large", lc, err)
	}
}

func init() {
	registerReplay("c07-large", func(c c08LargeCase) error { return c07Large(nil, c.Codec, -c.Cut, false) })
}

func c07Large(col *stats.Collector, onlyCodec string, onlyVariant int, all bool) error {
	schema := ref.Schema{Kind: "record", Name: "Big", Fields: []ref.Field{{Name: "id", Type: ref.Prim("long")}, {Name: "s", Type: ref.Prim("string")}}}
	target := spec.Struct(spec.FieldSpec{Go: "ID", JSON: "id", T: spec.T("int64")}, spec.FieldSpec{Go: "S", JSON: "s", T: spec.T("string")})
	typ := spec.Build(target)
	for ci, codec := range []string{"null", "deflate", "snappy"} {
		if onlyCodec != "" && codec != onlyCodec {
			continue
		}
		file, lay, err := buildLargeFile(schema, codec, ci)
		if err != nil {
			return fmt.Errorf("VERIF-INCONCLUSIVE %v", err)
		}
		_, _, want, err := ref.ReadRecords(file)
		if err != nil {
			return fmt.Errorf("VERIF-INCONCLUSIVE %v", err)
		}
		var flat []ref.Datum
		for _, b := range want {
			flat = append(flat, b...)
		}
		for variant := 0; variant < 2; variant++ {
			if !all && variant != onlyVariant {
				continue
			}
			data := file
			if variant == 1 {
				data = append([]byte(nil), file...)
				data[lay.Blocks[1].PayloadEnd+9] ^= 0x04
			}
			n := 0
			var bad error
			rerr := avro.ReadFile(bytes.NewReader(data), reflect.New(typ).Elem().Interface(), func(val unsafe.Pointer, rb *avro.ResourceBank) error {
				v := reflect.NewAt(typ, val).Elem()
				if bad == nil && (n >= len(flat) || v.Field(0).Int() != flat[n].Fields[0].I || v.Field(1).String() != string(flat[n].Fields[1].S)) {
					bad = fmt.Errorf("record %d delivered as {%d, %d-byte string}, not as the block declares it", n, v.Field(0).Int(), v.Field(1).Len())
				}
				n++
				rb.Close()
				return nil
			})
			c := c08LargeCase{codec, -variant, len(file)}
			if col != nil {
				col.RecordKey(fileKey(file[:64], variant, byte('M'+ci)), true)
				col.Label("large_block_files")
			}
			var ferr error
			switch {
			case bad != nil:
				ferr = fmt.Errorf("%s file with a 1.3 MiB block (variant %d): %v", codec, variant, bad)
			case variant == 0 && (rerr != nil || n != len(flat)):
				ferr = fmt.Errorf("intact %s file with a 1.3 MiB block: %d of %d records delivered, error %v", codec, n, len(flat), rerr)
			case variant == 1 && rerr == nil:
				ferr = fmt.Errorf("%s file whose 1.3 MiB block is followed by a damaged marker was read without an error", codec)
			}
			if ferr != nil {
				return &c08LargeErr{c, ferr.Error()}
			}
		}
	}
	return nil
}

func c08Large(col *stats.Collector, onlyCodec string, onlyCut int) error {
	schema := ref.Schema{Kind: "record", Name: "Big", Fields: []ref.Field{{Name: "id", Type: ref.Prim("long")}, {Name: "s", Type: ref.Prim("string")}}}
	target := spec.Struct(spec.FieldSpec{Go: "ID", JSON: "id", T: spec.T("int64")}, spec.FieldSpec{Go: "S", JSON: "s", T: spec.T("string")})
	typ := spec.Build(target)
	for ci, codec := range []string{"null", "deflate", "snappy"} {
		if onlyCodec != "" && codec != onlyCodec {
			continue
		}
		file, lay, err := buildLargeFile(schema, codec, ci)
		if err != nil {
			return fmt.Errorf("VERIF-INCONCLUSIVE %v", err)
		}
		var cuts []int
		for _, bl := range lay.Blocks {
			cuts = append(cuts, bl.Start, bl.CountEnd, bl.SizeEnd, bl.PayloadEnd, bl.PayloadEnd+7, bl.End)
			n := bl.PayloadEnd - bl.SizeEnd
			for k := 1; k <= 15; k++ {
				cuts = append(cuts, bl.SizeEnd+n*k/16+int(seedVal())%5)
			}
			if n > 1<<20 {
				cuts = append(cuts, bl.SizeEnd+1<<20, bl.SizeEnd+1<<20+1, bl.SizeEnd+1<<20-1)
			}
		}
		perBlk := []int{5, 12000, 5}
		for _, cut := range cuts {
			if cut < 0 || cut > len(file) || (onlyCut >= 0 && cut != onlyCut) {
				continue
			}
			want := 0
			okCut := cut == lay.HeaderEnd
			for i, bl := range lay.Blocks {
				if cut >= bl.PayloadEnd {
					want += perBlk[i]
				}
				if cut == bl.End {
					okCut = true
				}
			}
			n := 0
			var bad error
			rerr := avro.ReadFile(bytes.NewReader(file[:cut]), reflect.New(typ).Elem().Interface(), func(val unsafe.Pointer, rb *avro.ResourceBank) error {
				v := reflect.NewAt(typ, val).Elem()
				if v.Field(0).Int() != int64(n) && bad == nil {
					bad = fmt.Errorf("record %d delivered with id %d", n, v.Field(0).Int())
				}
				n++
				rb.Close()
				return nil
			})
			var ferr error
			switch {
			case bad != nil:
				ferr = bad
			case n != want:
				ferr = fmt.Errorf("%d records delivered, %d belong to blocks whose payload is complete", n, want)
			case okCut && rerr != nil:
				ferr = fmt.Errorf("cut at a block boundary but ReadFile failed: %v", rerr)
			case !okCut && rerr == nil:
				ferr = fmt.Errorf("ReadFile reported success for a file cut in mid-block")
			}
			if col != nil {
				col.RecordKey(fileKey(file[:64], cut, byte('L'+ci)), true)
			}
			if ferr != nil {
				return &c08LargeErr{c08LargeCase{codec, cut, len(file)},
					fmt.Sprintf("large-block file (%s, blocks of 5/12000/5 records, %d bytes) cut at %d: %v", codec, len(file), cut, ferr)}
			}
		}
	}
	return nil
}

func TestC08(t *testing.T) {
	col := stats.New("C08")
	col.Rule = c08Rule
	enumCheck(t, col, "c08", runC08)
}

// ---------------------------------------------------------------------------
// C07

const c07Rule = "rapid draws of valid files (as C08) and, for each file, enumeration of: every bit of every block-trailing sync marker and of the header's marker, every bit of every snappy CRC, " +
	"every bit of every compressed payload (at most 4096 sites per file, strided beyond), every bit of the magic, header rewrites (schema removed, codec removed, codec replaced by unknown names), " +
	"a block count raised by one, a complete nested read of the same file from inside the callback, every record index (in files of more than 200 records: the first 50, the last 20 and every 97th) as the point where the callback fails (returning an ordinary error, io.EOF, io.ErrUnexpectedEOF or an error wrapping io.EOF); oracle: intact file -> the reference decode, nil error; sync / CRC / magic damage, missing schema, unknown codec -> non-nil error and only intact records before it; " +
	"payload damage -> error exactly when the reference decompressor (compress/flate, snappy + CRC) rejects the damaged payload; no avro.codec -> same records as the null codec; " +
	"callback error at k -> exactly k+1 callbacks and the identical error value; evaluations = sites; non-trivial = site in a block other than the first of a multi-block file, or callback failure at k > 0; distinct by (file hash, site)"

func init() {
	registerReplay("c07", func(c fileCase) error { _, _, err := runC07(c, nil); return err })
}

// minWidthOfFile: least encoded size of one record of the file's schema (0 for
// zero-width records, for which a larger declared count is not detectable).
func minWidthOfFile(c fileCase) int {
	if c.Wire != nil {
		return minWidth(c.Wire.Schema)
	}
	if c.Enc != nil {
		if s, err := spec.ModelSchema(c.Enc.Type, nil); err == nil {
			return minWidth(s)
		}
	}
	return 0
}

func flipBit(file []byte, byteOff int, bit uint) []byte {
	out := append([]byte(nil), file...)
	out[byteOff] ^= 1 << bit
	return out
}

func runC07(c fileCase, col *stats.Collector) (bool, []string, error) {
	b, err := c.build()
	if err != nil {
		return false, nil, err
	}
	if b == nil {
		return false, []string{"out_of_domain"}, nil
	}
	if len(b.file) > 8192 {
		return false, []string{"file_too_large_skipped"}, nil
	}
	multi := len(b.lay.Blocks) >= 2
	site := 0
	counts := map[string]int64{}
	var failure error
	// try runs one damaged variant; check judges the outcome.
	try := func(class string, blockIdx int, nontrivial bool, data []byte, check func(got []spec.AbsVal, rerr error) error) {
		my := site
		site++
		if failure != nil || (c.Site >= 0 && my != c.Site) {
			return
		}
		counts[class]++
		var got []spec.AbsVal
		var rerr error
		perr := protect(func() error {
			got, rerr = readAbs(data, b.ts, b.typ, nil)
			return nil
		})
		if perr == nil {
			perr = check(got, rerr)
		}
		if perr != nil {
			failure = fmt.Errorf("site %d (%s, block %d): %v", my, class, blockIdx, perr)
		}
		if col != nil {
			col.RecordKey(fileKey(b.file, my, 's'), nontrivial)
		}
	}
	recordsBefore := func(blockIdx int) int {
		n := 0
		for i := 0; i < blockIdx; i++ {
			n += b.perBlk[i]
		}
		return n
	}
	mustFail := func(maxRecords int) func([]spec.AbsVal, error) error {
		return func(got []spec.AbsVal, rerr error) error {
			if rerr == nil {
				return fmt.Errorf("damage accepted: ReadFile returned nil and delivered %d records", len(got))
			}
			if len(got) > maxRecords {
				return fmt.Errorf("%d records delivered, at most %d precede the damage", len(got), maxRecords)
			}
			return b.prefixOfIntact(got)
		}
	}

	// 0. the intact file (already compared with its own decode in build; here against nil error)
	try("intact", -1, false, b.file, func(got []spec.AbsVal, rerr error) error {
		if rerr != nil {
			return fmt.Errorf("intact file: %v", rerr)
		}
		if len(got) != len(b.intact) {
			return fmt.Errorf("intact file: %d records, want %d", len(got), len(b.intact))
		}
		return b.prefixOfIntact(got)
	})
	// 1. magic: every bit
	for i := 0; i < 4; i++ {
		for bit := uint(0); bit < 8; bit++ {
			try("magic", -1, false, flipBit(b.file, i, bit), mustFail(0))
		}
	}
	// 2. sync markers after each block: every bit. Records of that block may have
	// been delivered before the marker is reached.
	for bi, bl := range b.lay.Blocks {
		for i := bl.PayloadEnd; i < bl.End; i++ {
			for bit := uint(0); bit < 8; bit++ {
				try("block_sync", bi, multi && bi > 0, flipBit(b.file, i, bit), mustFail(recordsBefore(bi+1)))
			}
		}
	}
	// the header's own marker: every block then disagrees with it
	if len(b.lay.Blocks) > 0 {
		for i := b.lay.SyncStart; i < b.lay.HeaderEnd; i++ {
			for bit := uint(0); bit < 8; bit += 3 {
				try("header_sync", 0, false, flipBit(b.file, i, bit), mustFail(recordsBefore(1)))
			}
		}
	}
	// 2b. a block that declares one record more than its payload holds (the
	// reader must not deliver "exactly the declared records" silently short)
	if minWidthOfFile(c) > 0 {
		for bi, bl := range b.lay.Blocks {
			if bl.Count < 1 || bl.Count >= 63 {
				continue // keep the count varint one byte long so that nothing else moves
			}
			damaged := append([]byte(nil), b.file...)
			damaged[bl.Start] = ref.AppendLong(nil, bl.Count+1)[0]
			try("block_count_plus_one", bi, multi && bi > 0, damaged, mustFail(recordsBefore(bi+1)))
		}
	}
	// 3. snappy CRC: every bit
	if b.codec == "snappy" {
		for bi, bl := range b.lay.Blocks {
			for i := bl.PayloadEnd - 4; i < bl.PayloadEnd; i++ {
				for bit := uint(0); bit < 8; bit++ {
					try("snappy_crc", bi, multi && bi > 0, flipBit(b.file, i, bit), mustFail(recordsBefore(bi)))
				}
			}
		}
	}
	// 4. compressed payload: every bit (capped), oracle computed with the reference decompressor
	if b.codec == "snappy" || b.codec == "deflate" {
		totalBits := 0
		for _, bl := range b.lay.Blocks {
			n := bl.PayloadEnd - bl.SizeEnd
			if b.codec == "snappy" {
				n -= 4
			}
			totalBits += 8 * n
		}
		stride := 1
		if totalBits > 4096 {
			stride = (totalBits + 4095) / 4096
		}
		k := 0
		for bi, bl := range b.lay.Blocks {
			end := bl.PayloadEnd
			if b.codec == "snappy" {
				end -= 4
			}
			for i := bl.SizeEnd; i < end; i++ {
				for bit := uint(0); bit < 8; bit++ {
					k++
					if k%stride != 0 {
						continue
					}
					damaged := flipBit(b.file, i, bit)
					_, refErr := ref.DecompressLenient(b.codec, damaged[bl.SizeEnd:bl.PayloadEnd])
					before := recordsBefore(bi)
					if refErr != nil {
						try("payload_rejected_by_reference", bi, multi && bi > 0, damaged, func(got []spec.AbsVal, rerr error) error {
							if rerr == nil {
								return fmt.Errorf("the decompressor rejects the damaged block (%v) but ReadFile returned nil with %d records", refErr, len(got))
							}
							if len(got) > before {
								return fmt.Errorf("the decompressor rejects the damaged block (%v) but records of it were delivered (%d > %d)", refErr, len(got), before)
							}
							return b.prefixOfIntact(got)
						})
					} else {
						// The damaged block is another valid compressed stream: this
						// property requires nothing of it (what the decoder does with
						// the altered bytes, panics included, is C06's subject).
						counts["payload_still_decompresses"]++
						site++
					}
				}
			}
		}
	}
	// 5. header rewrites (reference-written files only: we know how to rebuild them)
	if c.Wire != nil {
		w := *c.Wire
		rebuild := func(mod func(*ref.FileSpec)) []byte {
			enc := ref.Encoder{C: &ref.Choices{Bits: w.Choices}}
			fs := ref.FileSpec{Schema: []byte(ref.Render(w.Schema, nil)), Codec: w.Codec}
			copy(fs.Sync[:], w.Sync)
			i, bi := 0, 0
			for i < len(w.Datums) {
				n := len(w.Datums) - i
				if bi < len(w.PerBlock) && w.PerBlock[bi] < n {
					n = w.PerBlock[bi]
				}
				bi++
				var payload []byte
				for k := 0; k < n; k++ {
					payload, _ = enc.Encode(payload, w.Schema, w.Datums[i+k])
				}
				fs.Blocks = append(fs.Blocks, ref.Block{Count: int64(n), Payload: payload})
				i += n
			}
			for ; bi < len(w.PerBlock); bi++ {
				if w.PerBlock[bi] == 0 {
					fs.Blocks = append(fs.Blocks, ref.Block{})
				}
			}
			mod(&fs)
			out, _, _ := ref.WriteFile(fs)
			return out
		}
		try("schema_removed", -1, false, rebuild(func(fs *ref.FileSpec) { fs.NoSchema = true }), mustFail(0))
		for _, name := range []string{"bzip2", "xz", "zstandard", "Deflate", "", "nul", "snappy "} {
			nm := name
			try("unknown_codec", -1, false, rebuild(func(fs *ref.FileSpec) { fs.CodecRaw = []byte(nm) }), mustFail(0))
		}
		same := func(got []spec.AbsVal, rerr error) error {
			if rerr != nil {
				return fmt.Errorf("valid header variant rejected: %v", rerr)
			}
			if len(got) != len(b.intact) {
				return fmt.Errorf("%d records, want %d", len(got), len(b.intact))
			}
			return b.prefixOfIntact(got)
		}
		// no codec entry = uncompressed
		try("codec_entry_removed", -1, len(b.intact) > 0, rebuild(func(fs *ref.FileSpec) { fs.Codec = "" }), same)
		// extra metadata and a metadata map split into two blocks are legal
		try("extra_metadata", -1, false, rebuild(func(fs *ref.FileSpec) {
			fs.ExtraMeta = map[string][]byte{"user.note": []byte("hello"), "avro.zzz": {0, 1, 2}}
		}), same)
		try("metadata_two_blocks", -1, false, rebuild(func(fs *ref.FileSpec) { fs.MetaSplit = true }), same)
	}
	// 6. callback failure at every record index
	for k := range b.intact {
		my := site
		site++
		if failure != nil || (c.Site >= 0 && my != c.Site) {
			continue
		}
		if n := len(b.intact); n > 200 && c.Site < 0 && !(k < 50 || k >= n-20 || k%97 == len(b.file)%97) {
			continue // long files: the first 50, the last 20 and every 97th record index
		}
		counts["callback_error"]++
		kk := k
		var got []spec.AbsVal
		var rerr error
		cbErr := callbackErrors[(k+len(b.file))%len(callbackErrors)]
		if perr := protect(func() error { got, rerr = readAbsErr(b.file, b.ts, b.typ, &kk, cbErr); return nil }); perr != nil {
			failure = fmt.Errorf("site %d (callback error at record %d): %v", my, k, perr)
		} else if len(got) != k+1 {
			failure = fmt.Errorf("site %d: callback failed at record %d but %d callbacks were made", my, k, len(got))
		} else if rerr != cbErr {
			failure = fmt.Errorf("site %d: callback returned %q (%T) at record %d, ReadFile returned %v (not the identical error value)", my, cbErr, cbErr, k, rerr)
		}
		if failure == nil && len(b.perBlk) == len(b.lay.Blocks) {
			// the same stop when what FOLLOWS the record's block is damaged or missing (the
			// writer died after the payload; a bit of the marker flipped): reading stopped
			// at that record, so nothing behind it has a say in what is returned
			blk, seen := 0, 0
			for blk < len(b.perBlk) && seen+b.perBlk[blk] <= k {
				seen += b.perBlk[blk]
				blk++
			}
			if blk < len(b.lay.Blocks) {
				bl := b.lay.Blocks[blk]
				variants := [][]byte{b.file[:bl.PayloadEnd]}
				if bl.PayloadEnd < len(b.file) {
					flipped := append([]byte(nil), b.file...)
					flipped[bl.PayloadEnd+(k%16)] ^= 0x40
					variants = append(variants, flipped, b.file[:bl.PayloadEnd+1+k%15])
				}
				for vi, data := range variants {
					counts["callback_error_before_damage"]++
					var got []spec.AbsVal
					var rerr error
					if perr := protect(func() error { got, rerr = readAbsErr(data, b.ts, b.typ, &kk, cbErr); return nil }); perr != nil {
						failure = fmt.Errorf("site %d (callback error at record %d, block's marker damaged, variant %d): %v", my, k, vi, perr)
					} else if len(got) != k+1 || rerr != cbErr {
						failure = fmt.Errorf("site %d: callback returned %q at record %d of a file whose marker after that record's block is missing or damaged (variant %d): %d callbacks, ReadFile returned %v (not the identical error value)", my, cbErr, k, vi, len(got), rerr)
					}
					if failure != nil {
						break
					}
				}
			}
		}
		if col != nil {
			col.RecordKey(fileKey(b.file, my, 's'), k > 0)
		}
	}
	// 7. a callback that itself reads a file (the same bytes, same codec) and then
	// lets the outer read continue: both must deliver exactly their records
	for k := 0; k < len(b.intact) && k < 3; k++ {
		my := site
		site++
		if failure != nil || (c.Site >= 0 && my != c.Site) {
			continue
		}
		counts["nested_read"]++
		var outer, inner []spec.AbsVal
		var innerErr error
		perr := protect(func() error {
			return avro.ReadFile(bytes.NewReader(b.file), reflect.New(b.typ).Elem().Interface(), func(val unsafe.Pointer, rb *avro.ResourceBank) error {
				outer = append(outer, spec.Abs(b.ts, false, reflect.NewAt(b.typ, val).Elem()))
				if len(outer)-1 == k {
					inner, innerErr = readAbs(b.file, b.ts, b.typ, nil)
				}
				return nil
			})
		})
		switch {
		case perr != nil:
			failure = fmt.Errorf("site %d (nested read inside the callback at record %d): outer read: %v", my, k, perr)
		case innerErr != nil:
			failure = fmt.Errorf("site %d (nested read inside the callback at record %d): inner read: %v", my, k, innerErr)
		case len(outer) != len(b.intact) || len(inner) != len(b.intact):
			failure = fmt.Errorf("site %d (nested read at record %d): outer delivered %d, inner %d, file holds %d", my, k, len(outer), len(inner), len(b.intact))
		default:
			if err := b.prefixOfIntact(outer); err != nil {
				failure = fmt.Errorf("site %d (nested read at record %d): outer read: %v", my, k, err)
			} else if err := b.prefixOfIntact(inner); err != nil {
				failure = fmt.Errorf("site %d (nested read at record %d): inner read: %v", my, k, err)
			}
		}
		if col != nil {
			col.RecordKey(fileKey(b.file, my, 's'), multi)
		}
	}
	labels := []string{"codec_" + b.codec}
	if col != nil {
		for k, n := range counts {
			col.LabelN("site_"+k, n)
		}
		col.Label(labels[0])
		if multi {
			col.Label("multi_block")
		}
	}
	return multi, labels, failure
}

func TestC07(t *testing.T) {
	col := stats.New("C07")
	col.Rule = c07Rule
	enumCheck(t, col, "c07", runC07)
}

// TestC07Repetitive: files whose blocks hold hundreds of identical rows (blocks
// that compress by more than an order of magnitude).
func TestC07Repetitive(t *testing.T) {
	col := stats.New("C07")
	col.Rule = c07Rule
	enumCheckWith(t, col, "c07", func(t *rapid.T) fileCase {
		c := drawRepetitiveCase(t)
		if c.Repeat > 1500 {
			c.Repeat = 1500
		}
		return fileCase{Enc: &c, Site: -1}
	}, runC07)
}
