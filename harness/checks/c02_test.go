package checks

import (
	"bytes"
	"fmt"
	"reflect"
	"testing"

	avro "github.com/philpearl/avro"

	"verifh/ref"
	"verifh/spec"
	"verifh/stats"
)

// C02 — files are valid Avro that an independent reader decodes identically.

const c02Rule = "same generator as C01; oracle: the reference container reader (magic, metadata with avro.schema + avro.codec, exact block counts and sizes, " +
	"clean decompression incl. snappy CRC, sync markers, no trailing bytes) and the reference datum decoder under the embedded schema alone (exact fit per block), " +
	"datum i must match Abs(in[i]) including the union branch (null / value / either per DESIGN 4.3); " +
	"non-trivial = C01's rule AND some nullable field written in both branches across the sequence; distinct by case JSON hash"

func init() { registerReplay("c02", func(c encCase) error { _, _, err := runC02(c); return err }) }

func runC02(c encCase) (bool, []string, error) {
	file, in, err := encodeCase(c)
	if err != nil {
		return false, nil, err
	}
	nt, labels := encLabels(c, in, countBlocks(file))
	both := bothBranchesSeen(in)
	if both {
		labels = append(labels, "both_branches")
	}
	nt = nt && both
	schema, lay, blocks, err := ref.ReadRecords(file)
	if err != nil {
		return nt, labels, fmt.Errorf("reference reader rejects the file: %w", err)
	}
	if got := string(lay.Meta["avro.codec"]); got != c.Compression {
		return nt, labels, fmt.Errorf("avro.codec is %q, requested %q", got, c.Compression)
	}
	if err := ref.Validate(schema); err != nil {
		labels = append(labels, "schema_invalid_by_validator")
		// structural validity of generated schemas is C15's subject; here the
		// schema only has to be usable by the reference decoder, which it was.
	}
	var datums []ref.Datum
	for _, b := range blocks {
		if len(b) == 0 {
			return nt, labels, fmt.Errorf("file contains an empty block")
		}
		datums = append(datums, b...)
	}
	if len(datums) != len(in) {
		return nt, labels, fmt.Errorf("wrote %d records, file holds %d", len(in), len(datums))
	}
	for i := range in {
		got := spec.AbsOfDatum(schema, datums[i])
		if err := spec.Match(in[i], got, fmt.Sprintf("record[%d]", i)); err != nil {
			return nt, labels, fmt.Errorf("independent reader sees different data: %w", err)
		}
	}
	return nt, labels, nil
}

func TestC02(t *testing.T) {
	col := stats.New("C02")
	col.Rule = c02Rule
	propCheck(t, col, "c02", drawEncCase, runC02)
}

// ---------------------------------------------------------------------------
// The same claim for files written through FileWriter directly (the API for rows
// that are already encoded): the application encodes all rows into one buffer and
// hands it over a block at a time, as windows of that buffer.

func init() {
	registerReplay("c02fw", func(c encCase) error { _, _, err := runC02FileWriter(c); return err })
}

func runC02FileWriter(c encCase) (bool, []string, error) {
	typ := spec.Build(c.Type)
	zero := reflect.New(typ).Elem().Interface()
	s, err := avro.SchemaForType(zero)
	if err != nil {
		return false, nil, fmt.Errorf("SchemaForType: %v", err)
	}
	codec, err := s.Codec(zero)
	if err != nil {
		return false, nil, fmt.Errorf("Schema.Codec: %v", err)
	}
	doc, err := s.Marshal()
	if err != nil {
		return false, nil, fmt.Errorf("Marshal: %v", err)
	}
	docWas := string(doc)
	wb := avro.NewWriteBuf(make([]byte, 0, 64))
	var in []spec.AbsVal
	ends := []int{}
	for _, r := range c.Records {
		v := spec.New(c.Type, r)
		in = append(in, spec.Abs(c.Type, false, v.Elem()))
		codec.Write(wb, v.UnsafePointer())
		ends = append(ends, wb.Len())
	}
	rows := wb.Bytes()
	rowsWas := append([]byte(nil), rows...)
	fw, err := avro.NewFileWriter(doc, avro.Compression(c.Compression))
	if err != nil {
		return false, nil, fmt.Errorf("NewFileWriter: %v", err)
	}
	var out, mirror bytes.Buffer
	mode := (len(rows) + len(c.Records)) % 3
	if mode == 1 {
		// the header rendered once more beforehand (a caller that wants to know its size)
		_ = fw.AppendHeader(nil)
	}
	if err := fw.WriteHeader(&out); err != nil {
		return false, nil, fmt.Errorf("WriteHeader: %v", err)
	}
	if mode == 2 {
		// one FileWriter, two destinations (a local copy and an upload): header and every block go to both
		if err := fw.WriteHeader(&mirror); err != nil {
			return false, nil, fmt.Errorf("WriteHeader (second destination): %v", err)
		}
	}
	start, first, nblocks := 0, 0, 0
	for i := range c.Records {
		last := i == len(c.Records)-1
		if !last && !(i < len(c.FlushAfter) && c.FlushAfter[i] > 0) {
			continue
		}
		// rows first..i are one block: a window of the buffer, the later rows right behind it
		if err := fw.WriteBlock(&out, i-first+1, rows[start:ends[i]]); err != nil {
			return false, nil, fmt.Errorf("WriteBlock: %v", err)
		}
		if mode == 2 {
			if err := fw.WriteBlock(&mirror, i-first+1, rows[start:ends[i]]); err != nil {
				return false, nil, fmt.Errorf("WriteBlock (second destination): %v", err)
			}
		}
		start, first = ends[i], i+1
		nblocks++
	}
	nt := nblocks >= 2 && len(rows) > 0
	labels := []string{"filewriter", "compression_" + c.Compression}
	if nblocks >= 2 {
		labels = append(labels, "filewriter_multi_block")
	}
	if !bytes.Equal(rows, rowsWas) {
		return nt, labels, fmt.Errorf("WriteBlock changed the caller's buffer of encoded rows")
	}
	if string(doc) != docWas {
		return nt, labels, fmt.Errorf("FileWriter changed the caller's schema bytes")
	}
	schema, lay, blocks, err := ref.ReadRecords(out.Bytes())
	if err != nil {
		return nt, labels, fmt.Errorf("reference reader rejects the file: %w", err)
	}
	if got := string(lay.Meta["avro.codec"]); got != c.Compression {
		return nt, labels, fmt.Errorf("avro.codec is %q, requested %q", got, c.Compression)
	}
	if len(blocks) != nblocks {
		return nt, labels, fmt.Errorf("%d blocks written, file holds %d", nblocks, len(blocks))
	}
	if mode == 2 {
		labels = append(labels, "filewriter_two_destinations")
		_, _, mb, err := ref.ReadRecords(mirror.Bytes())
		if err != nil {
			return nt, labels, fmt.Errorf("reference reader rejects the second destination's file (same FileWriter, same header and blocks): %w", err)
		}
		if len(mb) != nblocks {
			return nt, labels, fmt.Errorf("%d blocks written to the second destination, its file holds %d", nblocks, len(mb))
		}
	}
	var datums []ref.Datum
	for _, b := range blocks {
		datums = append(datums, b...)
	}
	if len(datums) != len(in) {
		return nt, labels, fmt.Errorf("wrote %d records, file holds %d", len(in), len(datums))
	}
	for i := range in {
		if err := spec.Match(in[i], spec.AbsOfDatum(schema, datums[i]), fmt.Sprintf("record[%d]", i)); err != nil {
			return nt, labels, fmt.Errorf("independent reader sees different data: %w", err)
		}
	}
	return nt, labels, nil
}

func TestC02FileWriter(t *testing.T) {
	col := stats.New("C02")
	col.Rule = c02Rule
	propCheck(t, col, "c02fw", drawEncCase, runC02FileWriter)
}

func TestC02Repetitive(t *testing.T) {
	col := stats.New("C02")
	col.Rule = c02Rule
	propCheck(t, col, "c02", drawRepetitiveCase, func(c encCase) (bool, []string, error) {
		nt, labels, err := runC02(c)
		return nt, append(labels, "repetitive"), err
	})
}
