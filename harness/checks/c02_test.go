package checks

import (
	"fmt"
	"testing"

	"verifh/ref"
	"verifh/spec"
	"verifh/stats"
)

// C02 — files are valid Avro that an independent reader decodes identically.

const c02Rule = "same generator as C01; oracle: the reference container reader (magic, metadata with avro.schema + avro.codec, exact block counts and sizes, " +
	"clean decompression incl. snappy CRC, sync markers, no trailing bytes) and the reference datum decoder under the embedded schema alone (exact fit per block), " +
	"datum i must match Abs(in[i]) including the union branch (null / value / either per DESIGN 4.3); " +
	"non-trivial = C01's rule AND some nullable field written in both branches across the sequence; distinct by case JSON hash"

func init() { registerReplay("c02", func(c encCase) error { _, _, err := runC02(c); return err }) }

func runC02(c encCase) (bool, []string, error) {
	file, in, err := encodeCase(c)
	if err != nil {
		return false, nil, err
	}
	nt, labels := encLabels(c, in, countBlocks(file))
	both := bothBranchesSeen(in)
	if both {
		labels = append(labels, "both_branches")
	}
	nt = nt && both
	schema, lay, blocks, err := ref.ReadRecords(file)
	if err != nil {
		return nt, labels, fmt.Errorf("reference reader rejects the file: %w", err)
	}
	if got := string(lay.Meta["avro.codec"]); got != c.Compression {
		return nt, labels, fmt.Errorf("avro.codec is %q, requested %q", got, c.Compression)
	}
	if err := ref.Validate(schema); err != nil {
		labels = append(labels, "schema_invalid_by_validator")
		// structural validity of generated schemas is C15's subject; here the
		// schema only has to be usable by the reference decoder, which it was.
	}
	var datums []ref.Datum
	for _, b := range blocks {
		if len(b) == 0 {
			return nt, labels, fmt.Errorf("file contains an empty block")
		}
		datums = append(datums, b...)
	}
	if len(datums) != len(in) {
		return nt, labels, fmt.Errorf("wrote %d records, file holds %d", len(in), len(datums))
	}
	for i := range in {
		got := spec.AbsOfDatum(schema, datums[i])
		if err := spec.Match(in[i], got, fmt.Sprintf("record[%d]", i)); err != nil {
			return nt, labels, fmt.Errorf("independent reader sees different data: %w", err)
		}
	}
	return nt, labels, nil
}

func TestC02(t *testing.T) {
	col := stats.New("C02")
	col.Rule = c02Rule
	propCheck(t, col, "c02", drawEncCase, runC02)
}
