package checks

import (
	"encoding/json"
	"os"
	"path/filepath"
	"sort"
	"testing"

	"verifh/stats"
)

// TestRegress replays every committed witness of the property named by
// VERIF_REGRESS (witnesses/<ID>/*.json): shrunk failures found earlier — on the
// pinned tree before a fix: commit, or on a seeded mutation — kept as plain
// regression cases that bypass rapid.
func TestRegress(t *testing.T) {
	pid := os.Getenv("VERIF_REGRESS")
	if pid == "" {
		t.Skip("VERIF_REGRESS not set")
	}
	col := stats.New(pid)
	col.Exhaustive = true // every committed witness is replayed: neutral for the merged "exhaustive" flag
	defer col.Flush()
	files, _ := filepath.Glob(filepath.Join(verifRoot(), "witnesses", pid, "*.json"))
	sort.Strings(files)
	for _, f := range files {
		b, err := os.ReadFile(f)
		if err != nil {
			t.Fatalf("VERIF-INCONCLUSIVE %v", err)
		}
		var fl stats.Failure
		if err := json.Unmarshal(b, &fl); err != nil {
			t.Fatalf("VERIF-INCONCLUSIVE %s: %v", f, err)
		}
		run, ok := replayers[fl.Entry]
		if !ok {
			t.Fatalf("VERIF-INCONCLUSIVE %s: no replayer for entry %q", f, fl.Entry)
		}
		col.Bulk(1)
		col.LabelN("regression_witnesses", 1)
		if err := run(fl.Case); err != nil {
			stats.WriteFailure(pid, fl.Entry, err.Error(), fl.Case)
			t.Fatalf("VERIF-FAIL property=%s entry=%s witness=%s: %v", pid, fl.Entry, filepath.Base(f), err)
		}
	}
}
