package checks

import (
	"fmt"
	"reflect"
	"sort"
	"testing"
	"unsafe"

	"github.com/philpearl/avro"

	"verifh/stats"
)

// C10, counts: one bank asked for hundreds of distinct types and for tens of
// thousands of values of one type, closed, obtained again and asked again: every
// value handed out is zeroed and disjoint from every other live one, and keeps what
// was put into it, whatever number of types, values or re-uses has gone before.

type manyCase struct {
	Types  int `json:"types"`
	Values int `json:"values"`
	Rounds int `json:"rounds"`
}

func init() { registerReplay("c10many", func(c manyCase) error { return runC10Many(c) }) }

func runC10Many(c manyCase) error {
	u16 := reflect.TypeOf(uint16(0))
	i64 := reflect.TypeOf(int64(0))
	for round := 0; round < c.Rounds; round++ {
		rb := avro.NewReadBuf(nil)
		type rec struct {
			p    unsafe.Pointer
			size uintptr
			tag  uint16
		}
		var recs []rec
		alloc := func(typ reflect.Type, tag uint16, what string) error {
			p := rb.Alloc(typ)
			b := unsafe.Slice((*byte)(p), typ.Size())
			for i, x := range b {
				if x != 0 {
					return fmt.Errorf("round %d: %s: byte %d of a value just handed out is %#x, not zero", round, what, i, x)
				}
			}
			for i := range b {
				b[i] = byte(tag) ^ byte(i) | 1
			}
			recs = append(recs, rec{p, typ.Size(), tag})
			return nil
		}
		for k := 1; k <= c.Types; k++ {
			for rep := 0; rep < 2; rep++ {
				if err := alloc(reflect.ArrayOf(k, u16), uint16(k+round), fmt.Sprintf("type %d of %d ([%d]uint16)", k, c.Types, k)); err != nil {
					return err
				}
			}
		}
		for i := 0; i < c.Values; i++ {
			if err := alloc(i64, uint16(i+round*7), fmt.Sprintf("value %d of %d of one type", i, c.Values)); err != nil {
				return err
			}
		}
		for i, r := range recs {
			b := unsafe.Slice((*byte)(r.p), r.size)
			for j, x := range b {
				if x != byte(r.tag)^byte(j)|1 {
					return fmt.Errorf("round %d: allocation %d of %d no longer holds what was put into it (byte %d is %#x)", round, i, len(recs), j, x)
				}
			}
		}
		idx := make([]int, len(recs))
		for i := range idx {
			idx[i] = i
		}
		sort.Slice(idx, func(a, b int) bool { return uintptr(recs[idx[a]].p) < uintptr(recs[idx[b]].p) })
		for i := 1; i < len(idx); i++ {
			a, b := recs[idx[i-1]], recs[idx[i]]
			if uintptr(a.p)+a.size > uintptr(b.p) {
				return fmt.Errorf("round %d: two live allocations overlap (%d bytes at %p, %d bytes at %p)", round, a.size, a.p, b.size, b.p)
			}
		}
		rb.ExtractResourceBank().Close()
	}
	return nil
}

func TestC10Many(t *testing.T) {
	col := stats.New("C10")
	defer col.Flush()
	cases := []manyCase{{Types: 300, Values: 70000, Rounds: 3}, {Types: 40, Values: 33000, Rounds: 4}, {Types: 260, Values: 1000, Rounds: 6}}
	if thorough() {
		cases = append(cases, manyCase{Types: 700, Values: 300000, Rounds: 3}, manyCase{Types: 2, Values: 1 << 20, Rounds: 2})
	}
	for _, c := range cases {
		err := protect(func() error { return runC10Many(c) })
		col.Record(c, true, "many_types_many_values")
		if err != nil {
			failCase(t, "C10", "c10many", c, err)
		}
	}
}
