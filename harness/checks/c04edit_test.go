package checks

import (
	"fmt"
	"reflect"
	"testing"

	"github.com/philpearl/avro"
	"pgregory.net/rapid"

	"verifh/gen"
	"verifh/ref"
	"verifh/spec"
	"verifh/stats"
)

// A Schema is a plain value; the caller may build a decoder from it, add a
// column to its records in place (the writer's schema moved on) and build a
// decoder again from the same value for the same narrow struct: the second
// decoder follows the schema as it is now. Same for two decoders built from one
// value without an edit in between: building a decoder leaves the value as it was.

type editCase struct {
	Schema ref.Schema    `json:"schema"`
	Target spec.TypeSpec `json:"target"`
	GoType string        `json:"go_type"`
	Datum  ref.Datum     `json:"datum"`
	Added  string        `json:"added"` // kind of the column added to every record
}

func init() {
	registerReplay("c04edit", func(c editCase) error { _, _, err := runC04Edit(c); return err })
}

func addedSchema(kind string) ref.Schema {
	switch kind {
	case "array":
		l := ref.Prim("long")
		return ref.Schema{Kind: "array", Items: &l}
	case "nullable":
		return ref.Nullable(ref.Prim("string"))
	}
	return ref.Prim(kind)
}

func addedDatum(kind string) ref.Datum {
	switch kind {
	case "array":
		return ref.Datum{K: "array", Items: []ref.Datum{ref.Long(-3), ref.Long(1 << 40)}}
	case "nullable":
		return ref.Union(1, ref.Str("added-value"))
	case "string":
		return ref.Str("a string that was not there before")
	}
	return ref.Long(-77777)
}

// withColumn returns the schema with one more field at the end of every record.
func withColumn(s ref.Schema, kind string) ref.Schema {
	out := s
	switch s.Kind {
	case "record":
		out.Fields = nil
		for _, f := range s.Fields {
			out.Fields = append(out.Fields, ref.Field{Name: f.Name, Type: withColumn(f.Type, kind)})
		}
		out.Fields = append(out.Fields, ref.Field{Name: "yy_new", Type: addedSchema(kind)})
	case "array":
		it := withColumn(*s.Items, kind)
		out.Items = &it
	case "map":
		v := withColumn(*s.Values, kind)
		out.Values = &v
	case "union":
		out.Branches = nil
		for _, b := range s.Branches {
			out.Branches = append(out.Branches, withColumn(b, kind))
		}
	}
	return out
}

func datumWithColumn(s ref.Schema, d ref.Datum, kind string) ref.Datum {
	out := d
	switch s.Kind {
	case "record":
		out.Fields = nil
		for i, f := range s.Fields {
			out.Fields = append(out.Fields, datumWithColumn(f.Type, d.Fields[i], kind))
		}
		out.Fields = append(out.Fields, addedDatum(kind))
	case "array":
		out.Items = nil
		for _, it := range d.Items {
			out.Items = append(out.Items, datumWithColumn(*s.Items, it, kind))
		}
	case "map":
		out.Vals = nil
		for _, v := range d.Vals {
			out.Vals = append(out.Vals, datumWithColumn(*s.Values, v, kind))
		}
	case "union":
		if d.U != nil && d.Branch < len(s.Branches) {
			u := datumWithColumn(s.Branches[d.Branch], *d.U, kind)
			out.U = &u
		}
	}
	return out
}

// addColumnInPlace edits the library's schema value where it stands.
func addColumnInPlace(s *avro.Schema, kind string) {
	for i := range s.Union {
		addColumnInPlace(&s.Union[i], kind)
	}
	o := s.Object
	if o == nil {
		return
	}
	switch s.Type {
	case "record":
		for i := range o.Fields {
			addColumnInPlace(&o.Fields[i].Type, kind)
		}
		o.Fields = append(o.Fields, avro.SchemaRecordField{Name: "yy_new", Type: toLib(addedSchema(kind))})
	case "array":
		addColumnInPlace(&o.Items, kind)
	case "map":
		addColumnInPlace(&o.Values, kind)
	}
}

func runC04Edit(c editCase) (bool, []string, error) {
	typ := spec.Build(c.Target)
	zero := reflect.New(typ).Elem().Interface()
	lib, err := avro.SchemaFromString(ref.Render(c.Schema, nil))
	if err != nil {
		return false, nil, fmt.Errorf("SchemaFromString rejects the schema: %v", err)
	}
	decode := func(codec avro.Codec, s ref.Schema, d ref.Datum, what string) error {
		body, err := ref.Encode(s, d, nil)
		if err != nil {
			return fmt.Errorf("VERIF-INCONCLUSIVE harness: %v", err)
		}
		v := reflect.New(typ)
		rb := avro.NewReadBuf(body)
		if err := codec.Read(rb, v.UnsafePointer()); err != nil {
			return fmt.Errorf("%s: Read failed: %v", what, err)
		}
		if rb.Len() != 0 {
			return fmt.Errorf("%s: %d of %d bytes left over", what, rb.Len(), len(body))
		}
		agreeIgnoreAbsent = true
		defer func() { agreeIgnoreAbsent = false }()
		if err := agree(s, d, c.Target, false, v.Elem(), dirRead, "value"); err != nil {
			return fmt.Errorf("%s: %v", what, err)
		}
		rb.ExtractResourceBank().Close()
		return nil
	}
	codec1, err := lib.Codec(zero)
	if err != nil {
		return false, []string{"refused"}, nil
	}
	if d := fromLib(lib).Diff(c.Schema, ""); d != "" {
		return true, nil, fmt.Errorf("building a decoder changed the caller's schema value: %s", d)
	}
	if err := decode(codec1, c.Schema, c.Datum, "first decoder"); err != nil {
		return true, nil, err
	}
	// a second decoder from the same value, nothing edited
	codec1b, err := lib.Codec(zero)
	if err != nil {
		return true, nil, fmt.Errorf("a second decoder from the same schema value is refused: %v", err)
	}
	if err := decode(codec1b, c.Schema, c.Datum, "second decoder built from the same schema value"); err != nil {
		return true, nil, err
	}
	// the writer's schema moves on: the caller edits its value in place and builds again
	edited := withColumn(c.Schema, c.Added)
	addColumnInPlace(&lib, c.Added)
	if d := fromLib(lib).Diff(edited, ""); d != "" {
		return true, nil, fmt.Errorf("VERIF-INCONCLUSIVE harness: in-place edit differs from the reference edit: %s", d)
	}
	codec2, err := lib.Codec(zero)
	if err != nil {
		return true, nil, fmt.Errorf("after a column was added to the schema value in place a decoder for the same struct is refused: %v", err)
	}
	if err := decode(codec2, edited, datumWithColumn(c.Schema, c.Datum, c.Added), "decoder built after a column was added to every record of the schema value in place"); err != nil {
		return true, nil, err
	}
	// the decoder built earlier still reads data of the earlier schema
	if err := decode(codec1, c.Schema, c.Datum, "first decoder, used again after the edit"); err != nil {
		return true, nil, err
	}
	return true, []string{"added_" + c.Added}, nil
}

func TestC04Edit(t *testing.T) {
	col := stats.New("C04")
	col.Rule = c04Rule
	o := &gen.WireOpts{MaxDepth: 3, MultiUnion: true}
	propCheck(t, col, "c04edit", func(t *rapid.T) editCase {
		var c editCase
		for tries := 0; ; tries++ {
			c.Schema = gen.WireRecord(t, o, 0)
			full, ok := gen.Target(t, c.Schema, o, false)
			if !ok {
				continue
			}
			full = full.StripPtr()
			c.Datum = gen.WireDatum(t, c.Schema, full, true)
			if datumFits(c.Schema, c.Datum, full) || tries > 10 {
				c.Target = project(t, full, 0)
				if !datumFits(c.Schema, c.Datum, full) {
					c.Target = spec.TypeSpec{K: "struct"}
				}
				break
			}
		}
		c.GoType = c.Target.GoString()
		c.Added = []string{"long", "string", "array", "nullable"}[gen.Uniform(t, "added", 4)]
		return c
	}, runC04Edit)
}
