package checks

import (
	"bytes"
	"fmt"
	"reflect"
	"strings"
	"testing"
	"unsafe"

	"github.com/philpearl/avro"
	"pgregory.net/rapid"

	"verifh/cat"
	"verifh/gen"
	"verifh/ref"
	"verifh/spec"
	"verifh/stats"
)

// C03 — the reader decodes every spec-legal encoding of a datum to that datum.

const c03Rule = "rapid draws of (record schema over null/boolean/int/long/float/double/bytes/string/fixed/record/array/map/unions, compatible Go target chosen node by node: " +
	"pointer depth 0-2, integer width, float width, null.* wrappers, [N]byte, time.Time for RFC 3339 strings and for date / timestamp-millis / timestamp-micros / plain long; 0-6 datums; per-collection block partition and size-prefix choices; " +
	"partition of records into file blocks; codec), written by the reference writer; oracle: if every integer fits its Go field ReadFile succeeds and each delivered value agrees with the datum, " +
	"otherwise ReadFile returns an error and the records before the misfit are delivered intact; " +
	"non-trivial = the encoding uses a multi-block collection, a size-prefixed block, null as second branch or >=2 file blocks AND the target differs from the canonical mapping in some node; distinct by case JSON hash"

type wireCase struct {
	Schema   ref.Schema    `json:"schema"`
	Target   spec.TypeSpec `json:"target"`
	GoType   string        `json:"go_type"`
	Datums   []ref.Datum   `json:"datums"`
	Choices  []byte        `json:"choices"`
	PerBlock []int         `json:"per_block"` // records per file block; the remainder goes to a last block
	Codec    string        `json:"codec"`     // null, deflate, snappy, "" = no avro.codec entry
	Sync     []byte        `json:"sync"`
	Reader   int           `json:"reader,omitempty"` // see makeReader
}

func init() { registerReplay("c03", func(c wireCase) error { _, _, err := runC03(c); return err }) }

// buildWireFile writes the case with the reference writer.
func buildWireFile(c wireCase) ([]byte, ref.FileLayout, ref.EncStats, error) {
	enc := ref.Encoder{C: &ref.Choices{Bits: c.Choices}}
	fs := ref.FileSpec{Schema: []byte(ref.Render(c.Schema, nil)), Codec: c.Codec}
	copy(fs.Sync[:], c.Sync)
	// the header as other writers may lay it out (a function of the case's sync
	// bytes): metadata in two map blocks, blocks in the sized form, other entry
	// order, additional application metadata
	if len(c.Sync) > 3 {
		switch c.Sync[3] % 10 {
		case 4:
			fs.MetaSplit = true
		case 5:
			fs.MetaSized = true
		case 6:
			fs.MetaSplit, fs.MetaSized = true, true
		case 7:
			fs.MetaReverse = true
			fs.ExtraMeta = map[string][]byte{"app.writer": []byte("other-implementation 1.0"), "avro.other": {}}
		case 8:
			fs.MetaSplit, fs.MetaReverse = true, true
		}
	}
	i := 0
	bi := 0
	for i < len(c.Datums) {
		n := len(c.Datums) - i
		if bi < len(c.PerBlock) && c.PerBlock[bi] < n {
			n = c.PerBlock[bi]
		}
		bi++
		var payload []byte
		var err error
		for k := 0; k < n; k++ {
			if payload, err = enc.Encode(payload, c.Schema, c.Datums[i+k]); err != nil {
				return nil, ref.FileLayout{}, enc.Stats, fmt.Errorf("VERIF-INCONCLUSIVE harness: reference encoder: %v", err)
			}
		}
		fs.Blocks = append(fs.Blocks, ref.Block{Count: int64(n), Payload: payload})
		i += n
	}
	for ; bi < len(c.PerBlock); bi++ {
		if c.PerBlock[bi] == 0 {
			fs.Blocks = append(fs.Blocks, ref.Block{}) // an empty block after the last record
		}
	}
	file, lay, err := ref.WriteFile(fs)
	return file, lay, enc.Stats, err
}

// canonicalTarget: the target is exactly what the documented mapping would
// pair with the schema (no narrowing, no wrappers, pointer iff union).
func nonCanonical(s ref.Schema, ts spec.TypeSpec) bool {
	base := ts.StripPtr()
	switch s.Kind {
	case "int", "long":
		return base.K != "int64"
	case "float":
		return true
	case "double":
		return base.K != "float64"
	case "string":
		return base.K != "string"
	case "boolean":
		return base.K != "bool"
	case "fixed":
		return true
	case "record":
		for _, f := range s.Fields {
			found := false
			for _, tf := range base.Fields {
				if tf.AvroName() == f.Name {
					found = true
					if nonCanonical(f.Type, tf.T) {
						return true
					}
				}
			}
			if !found {
				return true
			}
		}
	case "array":
		return base.Elem != nil && nonCanonical(*s.Items, *base.Elem)
	case "map":
		return base.Elem != nil && nonCanonical(*s.Values, *base.Elem)
	case "union":
		sh, ni := gen.UnionShape(s)
		if sh == "nullable" {
			return ts.K != "ptr" || ni == 1 || nonCanonical(s.Branches[1-ni], ts)
		}
		return true
	}
	return ts.K == "ptr"
}

func hasNullSecond(s ref.Schema) bool {
	if s.Kind == "union" && len(s.Branches) == 2 && s.Branches[1].Kind == "null" {
		return true
	}
	if s.Items != nil && hasNullSecond(*s.Items) {
		return true
	}
	if s.Values != nil && hasNullSecond(*s.Values) {
		return true
	}
	for _, f := range s.Fields {
		if hasNullSecond(f.Type) {
			return true
		}
	}
	for _, b := range s.Branches {
		if hasNullSecond(b) {
			return true
		}
	}
	return false
}

func wireLabels(c wireCase, st ref.EncStats, nblocks int) (bool, []string) {
	var labels []string
	enc := false
	if st.MultiBlock > 0 {
		labels = append(labels, "multi_block_collection")
		enc = true
	}
	if st.Sized > 0 {
		labels = append(labels, "size_prefixed_block")
		enc = true
	}
	if hasNullSecond(c.Schema) {
		labels = append(labels, "null_second")
		enc = true
	}
	if nblocks >= 2 {
		labels = append(labels, "multi_file_block")
		enc = true
	}
	labels = append(labels, "codec_"+c.Codec)
	nc := nonCanonical(c.Schema, c.Target)
	if nc {
		labels = append(labels, "non_canonical_target")
	}
	return enc && nc && len(c.Datums) > 0, labels
}

type delivered struct {
	v reflect.Value // a copy of the delivered struct (shallow copy; banks are never closed here)
}

func readWire(file []byte, typ reflect.Type) ([]reflect.Value, error) {
	return readWireFrom(bytes.NewReader(file), typ)
}

func readWireFrom(rd avro.Reader, typ reflect.Type) ([]reflect.Value, error) {
	return readWireInto(rd, typ, false)
}

// readWireInto reads by value, or (dirty) by pointer into a struct the caller has
// already used: every field holds an old value when ReadFile starts.
func readWireInto(rd avro.Reader, typ reflect.Type, dirty bool) ([]reflect.Value, error) {
	var got []reflect.Value
	out := reflect.New(typ).Elem().Interface()
	if dirty {
		p := reflect.New(typ)
		junkFill(p.Elem(), 3)
		out = p.Interface()
	}
	err := avro.ReadFile(rd, out, func(val unsafe.Pointer, rb *avro.ResourceBank) error {
		cp := reflect.New(typ).Elem()
		cp.Set(reflect.NewAt(typ, val).Elem())
		got = append(got, cp)
		return nil
	})
	return got, err
}

// dirtyBanks decodes the file once and closes every bank, so that the pool holds
// recycled banks full of old values when the read under test starts (an
// application that closes its banks, which is what they are for).
func dirtyBanks(file []byte, typ reflect.Type) {
	_ = protect(func() error {
		return avro.ReadFile(bytes.NewReader(file), reflect.New(typ).Elem().Interface(), func(val unsafe.Pointer, rb *avro.ResourceBank) error {
			rb.Close()
			return nil
		})
	})
}

func runC03(c wireCase) (bool, []string, error) {
	file, lay, st, err := buildWireFile(c)
	if err != nil {
		return false, nil, err
	}
	if len(c.Sync) > 0 && c.Sync[0]%2 == 0 {
		dirtyBanks(file, spec.Build(c.Target))
	}
	nt, labels := wireLabels(c, st, len(lay.Blocks))
	if strings.HasPrefix(c.Target.Cat, "Gen") {
		labels = append(labels, "generated_named_target")
	}
	typ := spec.Build(c.Target)
	dirtyTarget := len(c.Sync) > 1 && c.Sync[1]%4 == 0
	if dirtyTarget {
		labels = append(labels, "dirty_target")
	}
	got, rerr := readWireInto(makeReader(c.Reader, file), typ, dirtyTarget)
	firstMisfit := -1
	for i, d := range c.Datums {
		if !datumFits(c.Schema, d, c.Target) {
			firstMisfit = i
			break
		}
	}
	if firstMisfit >= 0 {
		labels = append(labels, "value_does_not_fit")
		if rerr == nil {
			return nt, labels, fmt.Errorf("record %d holds an integer that does not fit its Go field, but ReadFile returned no error", firstMisfit)
		}
		if len(got) > firstMisfit {
			return nt, labels, fmt.Errorf("record %d does not fit its Go field but %d records were delivered", firstMisfit, len(got))
		}
	} else {
		if rerr != nil {
			return nt, labels, fmt.Errorf("ReadFile failed on a valid file: %v", rerr)
		}
		if len(got) != len(c.Datums) {
			return nt, labels, fmt.Errorf("file holds %d records, %d delivered", len(c.Datums), len(got))
		}
	}
	for i, v := range got {
		if err := agree(c.Schema, c.Datums[i], c.Target, false, v, dirRead, fmt.Sprintf("record[%d]", i)); err != nil {
			return nt, labels, err
		}
	}
	return nt, labels, nil
}

// embedSchemaPool: fields a writer's schema may have next to (or instead of) the
// record field of an embedded struct; "a" and "b" are the names of the embedded
// struct's own fields, which are NOT fields of the outer record.
func drawEmbedSchema(t *rapid.T) ref.Schema {
	long, str := ref.Prim("long"), ref.Prim("string")
	inner := ref.Schema{Kind: "record", Name: "Inner", Fields: []ref.Field{{Name: "a", Type: long}, {Name: "b", Type: ref.Nullable(str)}}}
	pool := []ref.Field{
		{Name: "x", Type: long}, {Name: "y", Type: str}, {Name: "a", Type: long}, {Name: "b", Type: ref.Nullable(str)},
		{Name: "Inner", Type: inner}, {Name: "q", Type: ref.Prim("double")},
	}
	s := ref.Schema{Kind: "record", Name: "Outer"}
	for _, f := range pool {
		if gen.Uniform(t, "keepField", 4) != 0 {
			s.Fields = append(s.Fields, f)
		}
	}
	for i := len(s.Fields) - 1; i > 0; i-- {
		j := gen.Uniform(t, "perm", i+1)
		s.Fields[i], s.Fields[j] = s.Fields[j], s.Fields[i]
	}
	if rapid.Bool().Draw(t, "nullableInner") {
		for i := range s.Fields {
			if s.Fields[i].Name == "Inner" {
				s.Fields[i].Type = ref.Nullable(inner)
			}
		}
	}
	return s
}

var wireNamed []string
var wireNamedDone bool

// wireNamedTargets: the generated named types whose schema (by the documented
// mapping) the reference side can express and give values to.
func wireNamedTargets() []string {
	if wireNamedDone {
		return wireNamed
	}
	wireNamedDone = true
	for _, n := range cat.GenNames() {
		sp := cat.Get(n).Spec
		s, err := spec.ModelSchema(sp, goNaming)
		if err != nil || ref.Validate(s) != nil {
			continue
		}
		// named-type-free of the shapes the wire value generator has no rule for
		ok := true
		func() {
			defer func() {
				if recover() != nil {
					ok = false
				}
			}()
			g := rapid.Custom(func(t *rapid.T) ref.Datum { return gen.WireDatum(t, s, sp, true) })
			for seed := 1; seed <= 3; seed++ {
				d := g.Example(seed)
				if !datumFits(s, d, sp) {
					ok = false
				}
			}
		}()
		if ok {
			wireNamed = append(wireNamed, n)
		}
	}
	return wireNamed
}

func drawWireCase(t *rapid.T, o *gen.WireOpts) wireCase {
	var c wireCase
	if gen.Uniform(t, "embedArm", 15) == 0 {
		// a named target type with an embedded struct (catalogue), against schemas
		// that also carry fields named like the embedded struct's own fields
		c.Target = cat.Get([]string{"EmbedMid", "EmbedPtr", "Embeds"}[gen.Uniform(t, "embedType", 3)]).Spec
		c.Schema = drawEmbedSchema(t)
	} else if gen.Uniform(t, "narrowArm", 14) == 0 {
		// a table of narrow columns only (16/32-bit numbers, booleans, some of them
		// nullable) read into plain narrow fields: a pointer-free struct of 2-22 bytes,
		// its size rarely a multiple of 8, fields sharing machine words
		c.Schema = ref.Schema{Kind: "record", Name: "Narrow"}
		c.Target = spec.TypeSpec{K: "struct"}
		for i, n := 0, gen.UniformRange(t, "narrowN", 1, 6); i < n; i++ {
			var fs ref.Schema
			var ft spec.TypeSpec
			switch gen.Uniform(t, "narrowKind", 4) {
			case 0:
				fs, ft = ref.Prim("int"), spec.T([]string{"int32", "int16"}[gen.Uniform(t, "narrowInt", 2)])
			case 1:
				fs, ft = ref.Prim("float"), spec.T("float32")
			case 2:
				fs, ft = ref.Prim("boolean"), spec.T("bool")
			default:
				fs, ft = ref.Prim("long"), spec.T("int32")
			}
			if gen.Uniform(t, "narrowNullable", 2) == 0 {
				if gen.Uniform(t, "narrowNullSecond", 3) == 0 {
					fs = ref.Schema{Kind: "union", Branches: []ref.Schema{fs, ref.Prim("null")}}
				} else {
					fs = ref.Nullable(fs)
				}
			}
			c.Schema.Fields = append(c.Schema.Fields, ref.Field{Name: fmt.Sprintf("f%d", i), Type: fs})
			c.Target.Fields = append(c.Target.Fields, spec.FieldSpec{Go: fmt.Sprintf("F%d", i), JSON: fmt.Sprintf("f%d", i), T: ft})
		}
	} else if names := wireNamedTargets(); len(names) > 0 && gen.Uniform(t, "namedArm", 12) == 0 {
		// a named struct type generated for this run (named nested structs, embedding,
		// unexported fields, defined collection types) as the target of a file written
		// by another implementation under the schema the documented mapping gives the type
		e := cat.Get(names[gen.Uniform(t, "namedTarget", len(names))])
		c.Target = e.Spec
		c.Schema, _ = spec.ModelSchema(e.Spec, goNaming)
	} else {
		c.Schema = gen.WireRecord(t, o, 0)
		tgt, _ := gen.Target(t, c.Schema, o, false)
		c.Target = tgt.StripPtr()
	}
	c.GoType = c.Target.GoString()
	n := gen.UniformRange(t, "ndatums", 0, 6)
	if o.ManyDatums && gen.Uniform(t, "manyDatums", 25) == 0 {
		// more records than any small ring or batch a reader might keep (64, 128)
		n = []int{65, 66, 67, 100, 129, 130, 200}[gen.Uniform(t, "manyN", 7)]
	}
	for i := 0; i < n; i++ {
		c.Datums = append(c.Datums, gen.WireDatum(t, c.Schema, c.Target, true))
	}
	if rapid.IntRange(0, 3).Draw(t, "canonicalEncoding") != 0 {
		c.Choices = gen.ChoiceBytes(t, "choices", gen.UniformRange(t, "nchoices", 4, 40))
	}
	nb := gen.UniformRange(t, "nsplit", 0, 3)
	for i := 0; i < nb; i++ {
		// 0: a block holding no records (a writer flushing on a timer)
		c.PerBlock = append(c.PerBlock, rapid.SampledFrom([]int{0, 1, 1, 2, 2, 3}).Draw(t, "perblock"))
	}
	c.Codec = rapid.SampledFrom([]string{"null", "deflate", "snappy", "null", "deflate", "snappy", ""}).Draw(t, "codec")
	c.Sync = rapid.SliceOfN(rapid.Byte(), 16, 16).Draw(t, "sync")
	c.Reader = []int{0, 0, 0, 1, 2, 5, 102, 4195, 50, 51}[gen.Uniform(t, "reader", 10)]
	return c
}

func TestC03(t *testing.T) {
	col := stats.New("C03")
	col.Rule = c03Rule
	propCheck(t, col, "c03", func(t *rapid.T) wireCase {
		d := 3
		if thorough() {
			d = 5
		}
		return drawWireCase(t, &gen.WireOpts{MaxDepth: d, MultiUnion: true, Drop: 8, Logical: true, ManyDatums: true})
	}, runC03)
}
