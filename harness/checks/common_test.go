package checks

import (
	"encoding/json"
	"fmt"
	"os"
	"reflect"
	"runtime/debug"
	"strconv"
	"strings"
	"sync"
	"testing"
	"time"

	"pgregory.net/rapid"

	"verifh/stats"
)

// tier, seed and shard come from the driver; defaults make `go test` usable by hand.
func tier() string {
	if t := os.Getenv("VERIF_TIER"); t != "" {
		return t
	}
	return "quick"
}

func thorough() bool { return tier() == "thorough" }

func seedVal() int64 {
	if s, err := strconv.ParseInt(os.Getenv("VERIF_SEED"), 10, 64); err == nil {
		return s
	}
	return 1
}

// shard returns (index, count).
func shard() (int, int) {
	parts := strings.Split(os.Getenv("VERIF_SHARD"), "/")
	if len(parts) == 2 {
		i, e1 := strconv.Atoi(parts[0])
		n, e2 := strconv.Atoi(parts[1])
		if e1 == nil && e2 == nil && n > 0 && i >= 0 && i < n {
			return i, n
		}
	}
	return 0, 1
}

func verifRoot() string {
	if r := os.Getenv("VERIF_ROOT"); r != "" {
		return r
	}
	return "/verif"
}

// replayers maps an entry name to a function that re-runs one stored case.
var (
	replayMu  sync.Mutex
	replayers = map[string]func(raw json.RawMessage) error{}
)

func registerReplay[C any](entry string, run func(C) error) {
	replayMu.Lock()
	defer replayMu.Unlock()
	replayers[entry] = func(raw json.RawMessage) error {
		var c C
		if err := json.Unmarshal(raw, &c); err != nil {
			return fmt.Errorf("VERIF-INCONCLUSIVE cannot decode case: %v", err)
		}
		return protect(func() error { return run(c) })
	}
}

// protect turns a panic in the code under test into an error.
func protect(f func() error) (err error) {
	defer func() {
		if r := recover(); r != nil {
			err = fmt.Errorf("panic: %v\n%s", r, debug.Stack())
		}
	}()
	return f()
}

// failCase records a failing case for the driver and fails the rapid test.
type fataler interface {
	Fatalf(format string, args ...any)
	Helper()
}

func failCase(t fataler, property, entry string, cs interface{}, err error) {
	t.Helper()
	stats.WriteFailure(property, entry, err.Error(), cs)
	msg := err.Error()
	if len(msg) > 3000 {
		msg = msg[:3000] + "…"
	}
	t.Fatalf("VERIF-FAIL property=%s entry=%s: %s", property, entry, msg)
}

// propCheck is the standard shape of a generated check: draw a Case, run it
// against the oracle, record what was covered.
func propCheck[C any](t *testing.T, col *stats.Collector, entry string,
	draw func(*rapid.T) C, run func(C) (nontrivial bool, labels []string, err error)) {
	t.Helper()
	defer col.Flush()
	rapid.Check(t, func(rt *rapid.T) {
		c := draw(rt)
		var nt bool
		var labels []string
		err := protect(func() error {
			var e error
			nt, labels, e = run(c)
			return e
		})
		col.Record(c, nt, labels...)
		if err != nil {
			col.Flush()
			failCase(rt, col.Property, entry, c, err)
		}
	})
}

// TestReplay re-runs one stored failing case without rapid.
func TestReplay(t *testing.T) {
	path := os.Getenv("VERIF_REPLAY")
	if path == "" {
		t.Skip("VERIF_REPLAY not set")
	}
	b, err := os.ReadFile(path)
	if err != nil {
		t.Fatalf("VERIF-INCONCLUSIVE %v", err)
	}
	var f stats.Failure
	if err := json.Unmarshal(b, &f); err != nil {
		t.Fatalf("VERIF-INCONCLUSIVE %v", err)
	}
	run, ok := replayers[f.Entry]
	if !ok {
		t.Fatalf("VERIF-INCONCLUSIVE no replayer for entry %q", f.Entry)
	}
	if err := run(f.Case); err != nil {
		t.Fatalf("VERIF-FAIL property=%s entry=%s: %v", f.Property, f.Entry, err)
	}
	t.Logf("case passes")
}

func jsonMarshal(v interface{}) ([]byte, error) { return json.Marshal(v) }

// junkFill sets every settable part of v to a non-zero value: a caller's struct
// that is not empty when it is handed to ReadFile by pointer.
func junkFill(v reflect.Value, depth int) {
	if !v.CanSet() {
		return
	}
	switch v.Kind() {
	case reflect.Bool:
		v.SetBool(true)
	case reflect.Int, reflect.Int8, reflect.Int16, reflect.Int32, reflect.Int64:
		v.SetInt(0x55)
	case reflect.Uint, reflect.Uint8, reflect.Uint16, reflect.Uint32, reflect.Uint64, reflect.Uintptr:
		v.SetUint(0x55)
	case reflect.Float32, reflect.Float64:
		v.SetFloat(5.5)
	case reflect.String:
		v.SetString("junk-left-by-the-caller")
	case reflect.Slice:
		if depth <= 0 {
			return
		}
		s := reflect.MakeSlice(v.Type(), 2, 3)
		junkFill(s.Index(0), depth-1)
		junkFill(s.Index(1), depth-1)
		v.Set(s)
	case reflect.Array:
		for i := 0; i < v.Len(); i++ {
			junkFill(v.Index(i), depth)
		}
	case reflect.Ptr:
		if depth <= 0 {
			return
		}
		p := reflect.New(v.Type().Elem())
		junkFill(p.Elem(), depth-1)
		v.Set(p)
	case reflect.Map:
		if depth <= 0 {
			return
		}
		m := reflect.MakeMap(v.Type())
		k := reflect.New(v.Type().Key()).Elem()
		junkFill(k, depth-1)
		e := reflect.New(v.Type().Elem()).Elem()
		junkFill(e, depth-1)
		m.SetMapIndex(k, e)
		v.Set(m)
	case reflect.Struct:
		if v.Type() == reflect.TypeOf(time.Time{}) {
			v.Set(reflect.ValueOf(time.Date(1999, 9, 9, 9, 9, 9, 9, time.UTC)))
			return
		}
		for i := 0; i < v.NumField(); i++ {
			junkFill(v.Field(i), depth)
		}
	}
}
