package checks

import (
	"encoding/json"
	"fmt"
	"os"
	"runtime/debug"
	"strconv"
	"strings"
	"sync"
	"testing"

	"pgregory.net/rapid"

	"verifh/stats"
)

// tier, seed and shard come from the driver; defaults make `go test` usable by hand.
func tier() string {
	if t := os.Getenv("VERIF_TIER"); t != "" {
		return t
	}
	return "quick"
}

func thorough() bool { return tier() == "thorough" }

func seedVal() int64 {
	if s, err := strconv.ParseInt(os.Getenv("VERIF_SEED"), 10, 64); err == nil {
		return s
	}
	return 1
}

// shard returns (index, count).
func shard() (int, int) {
	parts := strings.Split(os.Getenv("VERIF_SHARD"), "/")
	if len(parts) == 2 {
		i, e1 := strconv.Atoi(parts[0])
		n, e2 := strconv.Atoi(parts[1])
		if e1 == nil && e2 == nil && n > 0 && i >= 0 && i < n {
			return i, n
		}
	}
	return 0, 1
}

func verifRoot() string {
	if r := os.Getenv("VERIF_ROOT"); r != "" {
		return r
	}
	return "/verif"
}

// replayers maps an entry name to a function that re-runs one stored case.
var (
	replayMu  sync.Mutex
	replayers = map[string]func(raw json.RawMessage) error{}
)

func registerReplay[C any](entry string, run func(C) error) {
	replayMu.Lock()
	defer replayMu.Unlock()
	replayers[entry] = func(raw json.RawMessage) error {
		var c C
		if err := json.Unmarshal(raw, &c); err != nil {
			return fmt.Errorf("VERIF-INCONCLUSIVE cannot decode case: %v", err)
		}
		return protect(func() error { return run(c) })
	}
}

// protect turns a panic in the code under test into an error.
func protect(f func() error) (err error) {
	defer func() {
		if r := recover(); r != nil {
			err = fmt.Errorf("panic: %v\n%s", r, debug.Stack())
		}
	}()
	return f()
}

// failCase records a failing case for the driver and fails the rapid test.
type fataler interface {
	Fatalf(format string, args ...any)
	Helper()
}

func failCase(t fataler, property, entry string, cs interface{}, err error) {
	t.Helper()
	stats.WriteFailure(property, entry, err.Error(), cs)
	msg := err.Error()
	if len(msg) > 3000 {
		msg = msg[:3000] + "…"
	}
	t.Fatalf("VERIF-FAIL property=%s entry=%s: %s", property, entry, msg)
}

// propCheck is the standard shape of a generated check: draw a Case, run it
// against the oracle, record what was covered.
func propCheck[C any](t *testing.T, col *stats.Collector, entry string,
	draw func(*rapid.T) C, run func(C) (nontrivial bool, labels []string, err error)) {
	t.Helper()
	defer col.Flush()
	rapid.Check(t, func(rt *rapid.T) {
		c := draw(rt)
		var nt bool
		var labels []string
		err := protect(func() error {
			var e error
			nt, labels, e = run(c)
			return e
		})
		col.Record(c, nt, labels...)
		if err != nil {
			col.Flush()
			failCase(rt, col.Property, entry, c, err)
		}
	})
}

// TestReplay re-runs one stored failing case without rapid.
func TestReplay(t *testing.T) {
	path := os.Getenv("VERIF_REPLAY")
	if path == "" {
		t.Skip("VERIF_REPLAY not set")
	}
	b, err := os.ReadFile(path)
	if err != nil {
		t.Fatalf("VERIF-INCONCLUSIVE %v", err)
	}
	var f stats.Failure
	if err := json.Unmarshal(b, &f); err != nil {
		t.Fatalf("VERIF-INCONCLUSIVE %v", err)
	}
	run, ok := replayers[f.Entry]
	if !ok {
		t.Fatalf("VERIF-INCONCLUSIVE no replayer for entry %q", f.Entry)
	}
	if err := run(f.Case); err != nil {
		t.Fatalf("VERIF-FAIL property=%s entry=%s: %v", f.Property, f.Entry, err)
	}
	t.Logf("case passes")
}

func jsonMarshal(v interface{}) ([]byte, error) { return json.Marshal(v) }
