package checks

import (
	"bytes"
	"encoding/binary"
	"fmt"
	"math"
	"reflect"
	"strings"
	"sync/atomic"
	"testing"
	"time"
	"unsafe"

	"github.com/philpearl/avro"
	avronull "github.com/philpearl/avro/null"
	avrotime "github.com/philpearl/avro/time"
	null "github.com/unravelin/null/v5"
	"pgregory.net/rapid"

	"verifh/gen"
	"verifh/ref"
	"verifh/spec"
	"verifh/stats"
)

// C20 — a registered custom codec governs its type everywhere and nothing else.

const c20Rule = "rapid draws of histories over the ops register(custom type in {struct, named int64, named []string: bytes schema; named string: string schema; the unnamed type []float32 and the predeclared type uint64: bytes schema}, builder j in {0,1}, schema form in {T, [null,T]}) and " +
	"roundtrip(a generated struct type placing registered types and unregistered look-alikes with the same underlying type as field, behind 1-2 pointers, as slice element, as map value, under omitempty, next to time.Time / null.*; values); " +
	"every builder frames its payload with its own marker byte and counts Read/Write calls; also: a user registration for time.Time / null.Int followed by the library's own RegisterCodecs() again (latest wins both ways), and one record whose time.Time fields sit under timestamp-millis / -micros / long / string schemas (the registered builder must be given each position's schema); model = latest registration per type; oracle per roundtrip: SchemaForType equals the model mapping with the registered schema at each occurrence " +
	"(wrapped in a union exactly when the mapping says so); the reference decoder finds the latest builder's marker at every occurrence and none at look-alikes (which use the default mapping); values round-trip; " +
	"only the latest builder's counters move; non-trivial = a registered type in a slice-element or map-value position, or a roundtrip after a re-registration; distinct by case JSON hash"

// the custom types
type (
	CStruct struct {
		A int64
		B string
	}
	CInt   int64
	CSlice []string
	CStr   string
	// look-alikes: same underlying types, never registered
	LStruct struct {
		A int64
		B string
	}
	LInt   int64
	LSlice []string
)

type customDef struct {
	wire   string // schema type the custom codec is registered with: bytes or string
	kind   string
	typ    reflect.Type
	encode func(p unsafe.Pointer) []byte
	decode func(p unsafe.Pointer, b []byte) error
	isZero func(p unsafe.Pointer) bool
}

var customDefs = []*customDef{
	{
		kind: "cstruct", typ: reflect.TypeOf(CStruct{}),
		encode: func(p unsafe.Pointer) []byte {
			v := (*CStruct)(p)
			return append(binary.LittleEndian.AppendUint64(nil, uint64(v.A)), v.B...)
		},
		decode: func(p unsafe.Pointer, b []byte) error {
			if len(b) < 8 {
				return fmt.Errorf("CStruct payload too short")
			}
			v := (*CStruct)(p)
			v.A, v.B = int64(binary.LittleEndian.Uint64(b)), string(b[8:])
			return nil
		},
		isZero: func(p unsafe.Pointer) bool { return *(*CStruct)(p) == CStruct{} },
	},
	{
		kind: "cint", typ: reflect.TypeOf(CInt(0)),
		encode: func(p unsafe.Pointer) []byte { return binary.LittleEndian.AppendUint64(nil, uint64(*(*CInt)(p))) },
		decode: func(p unsafe.Pointer, b []byte) error {
			if len(b) != 8 {
				return fmt.Errorf("CInt payload must be 8 bytes")
			}
			*(*CInt)(p) = CInt(binary.LittleEndian.Uint64(b))
			return nil
		},
		isZero: func(p unsafe.Pointer) bool { return *(*CInt)(p) == 0 },
	},
	{
		kind: "cslice", typ: reflect.TypeOf(CSlice(nil)),
		encode: func(p unsafe.Pointer) []byte { return []byte(strings.Join(*(*CSlice)(p), "\x00")) },
		decode: func(p unsafe.Pointer, b []byte) error {
			if len(b) == 0 {
				*(*CSlice)(p) = nil
				return nil
			}
			*(*CSlice)(p) = strings.Split(string(b), "\x00")
			return nil
		},
		isZero: func(p unsafe.Pointer) bool { return len(*(*CSlice)(p)) == 0 },
	},
	{
		// a named string registered with a *string* schema: in a nullable union this
		// is exactly the shape the library has a dedicated fast codec for
		kind: "cstr", typ: reflect.TypeOf(CStr("")), wire: "string",
		encode: func(p unsafe.Pointer) []byte { return []byte(strings.ToValidUTF8(string(*(*CStr)(p)), "?")) },
		decode: func(p unsafe.Pointer, b []byte) error {
			*(*CStr)(p) = CStr(b)
			return nil
		},
		isZero: func(p unsafe.Pointer) bool { return *(*CStr)(p) == "" },
	},
}

func init() {
	// registrations are keyed by reflect.Type: nothing requires the type to be a
	// defined type with a package path. An unnamed composite type and a
	// predeclared type, registered like any other.
	customDefs = append(customDefs,
		&customDef{
			kind: "cf32s", typ: reflect.TypeOf([]float32(nil)),
			encode: func(p unsafe.Pointer) []byte {
				var b []byte
				for _, f := range *(*[]float32)(p) {
					b = binary.LittleEndian.AppendUint32(b, math.Float32bits(f))
				}
				return b
			},
			decode: func(p unsafe.Pointer, b []byte) error {
				if len(b)%4 != 0 {
					return fmt.Errorf("[]float32 payload length %d", len(b))
				}
				var out []float32
				for i := 0; i+4 <= len(b); i += 4 {
					out = append(out, math.Float32frombits(binary.LittleEndian.Uint32(b[i:])))
				}
				*(*[]float32)(p) = out
				return nil
			},
			isZero: func(p unsafe.Pointer) bool { return len(*(*[]float32)(p)) == 0 },
		},
		&customDef{
			kind: "cu64", typ: reflect.TypeOf(uint64(0)),
			encode: func(p unsafe.Pointer) []byte { return binary.LittleEndian.AppendUint64(nil, *(*uint64)(p)) },
			decode: func(p unsafe.Pointer, b []byte) error {
				if len(b) != 8 {
					return fmt.Errorf("uint64 payload must be 8 bytes")
				}
				*(*uint64)(p) = binary.LittleEndian.Uint64(b)
				return nil
			},
			isZero: func(p unsafe.Pointer) bool { return *(*uint64)(p) == 0 },
		},
	)
}

func (d *customDef) wireKind() string {
	if d.wire == "" {
		return "bytes"
	}
	return d.wire
}

// registration state (the model): latest builder and schema form per custom kind
type regState struct {
	builder  int
	nullable bool
}

var (
	c20State  = map[string]*regState{}
	c20Reads  [6][2]atomic.Int64 // [type][builder]
	c20Writes [6][2]atomic.Int64
	c20Builds [6][2]atomic.Int64
)

// markedCodec is the custom codec: bytes = marker ‖ payload.
type markedCodec struct {
	avro.BytesCodec
	def      *customDef
	ti, j    int
	omit     bool
	nullable bool
}

func c20Marker(def *customDef, ti, j int) byte {
	if def.wireKind() == "string" {
		return byte('A' + ti*2 + j) // stays valid UTF-8
	}
	return byte(0xC0 + ti*2 + j)
}

func (c markedCodec) marker() byte { return c20Marker(c.def, c.ti, c.j) }

func (c markedCodec) Read(r *avro.ReadBuf, p unsafe.Pointer) error {
	c20Reads[c.ti][c.j].Add(1)
	var b []byte
	if c.def.wireKind() == "string" {
		var s string
		if err := (avro.StringCodec{}).Read(r, unsafe.Pointer(&s)); err != nil {
			return err
		}
		b = []byte(s)
	} else if err := c.BytesCodec.Read(r, unsafe.Pointer(&b)); err != nil {
		return err
	}
	if len(b) == 0 || b[0] != c.marker() {
		return fmt.Errorf("custom codec %s/%d: payload does not start with its marker: % x", c.def.kind, c.j, b)
	}
	return c.def.decode(p, b[1:])
}

func (c markedCodec) Write(w *avro.WriteBuf, p unsafe.Pointer) {
	c20Writes[c.ti][c.j].Add(1)
	b := append([]byte{c.marker()}, c.def.encode(p)...)
	if c.def.wireKind() == "string" {
		s := string(b)
		avro.StringCodec{}.Write(w, unsafe.Pointer(&s))
		return
	}
	c.BytesCodec.Write(w, unsafe.Pointer(&b))
}

func (c markedCodec) New(r *avro.ReadBuf) unsafe.Pointer { return r.Alloc(c.def.typ) }

func (c markedCodec) Omit(p unsafe.Pointer) bool {
	return (c.omit || c.nullable) && c.def.isZero(p)
}

// c20SchemaFirst: whether the next registration calls RegisterSchema before
// Register (both orders are legitimate; the library's own packages use codec first).
var c20SchemaFirst bool

// c20NullSecond: the next nullable registration puts null SECOND in the registered union.
var c20NullSecond bool

// c20Logical: the next registration's schema carries a logicalType attribute
// (the registered schema is emitted attribute for attribute).
var c20Logical bool

const c20LogicalName = "verif-marked"

func c20Register(ti, j int, nullable bool) {
	def := customDefs[ti]
	regSchema := func() {
		plain := avro.Schema{Type: def.wireKind()}
		if c20Logical {
			plain.Object = &avro.SchemaObject{Type: def.wireKind(), LogicalType: c20LogicalName}
		}
		lib := plain
		if nullable {
			lib = avro.Schema{Type: "union", Union: []avro.Schema{{Type: "null"}, plain}}
			if c20NullSecond {
				lib.Union[0], lib.Union[1] = lib.Union[1], lib.Union[0]
			}
		}
		avro.RegisterSchema(def.typ, lib)
		// the value stays the caller's (one template edited and registered again for the
		// next type of a family is ordinary use): what was registered must not follow it
		scrambleLibSchema(&lib)
	}
	if c20SchemaFirst {
		regSchema()
	}
	avro.Register(def.typ, func(s avro.Schema, typ reflect.Type, omit bool) (avro.Codec, error) {
		if s.Type != def.wireKind() {
			return nil, fmt.Errorf("custom type %s needs a %s schema, not %q", def.kind, def.wireKind(), s.Type)
		}
		c20Builds[ti][j].Add(1)
		return markedCodec{def: def, ti: ti, j: j, omit: omit, nullable: nullable}, nil
	})
	lib := avro.Schema{Type: def.wireKind()}
	model := ref.Prim(def.wireKind())
	if c20Logical {
		model = ref.Schema{Kind: def.wireKind(), LogicalType: c20LogicalName, ObjectForm: true}
	}
	if nullable {
		lib = avro.Schema{Type: "union", Union: []avro.Schema{{Type: "null"}, {Type: def.wireKind()}}}
		if c20NullSecond {
			model = ref.Schema{Kind: "union", Branches: []ref.Schema{model, ref.Prim("null")}}
		} else {
			model = ref.Nullable(model)
		}
	}
	_ = lib
	if !c20SchemaFirst {
		regSchema()
	}
	c20State[def.kind] = &regState{builder: j, nullable: nullable}
	spec.Custom[def.kind].Schema = model
}

func init() {
	for ti, def := range customDefs {
		ti, def := ti, def
		base := map[string]string{"cstruct": "int64", "cint": "int64", "cslice": "string", "cstr": "string", "cf32s": "bytes", "cu64": "int64"}[def.kind]
		spec.Custom[def.kind] = &spec.CustomKind{
			Type: def.typ, Schema: ref.Prim(def.wireKind()), Base: base,
			Set: func(dst reflect.Value, v spec.ValueSpec) { c20Set(def.kind, dst, v) },
			Abs: func(v reflect.Value) spec.AbsVal {
				st := c20State[def.kind]
				p := reflect.New(def.typ)
				p.Elem().Set(v)
				a := spec.AbsVal{K: def.wireKind(), S: append([]byte{c20Marker(def, ti, st.builder)}, def.encode(p.UnsafePointer())...)}
				if st.nullable {
					a.Nullable = true
					if def.isZero(p.UnsafePointer()) {
						a.Null = spec.NullYes
					}
				}
				return a
			},
		}
	}
	// the look-alikes follow the default mapping
	str := ref.Prim("string")
	spec.Custom["lstruct"] = &spec.CustomKind{
		Type: reflect.TypeOf(LStruct{}), Base: "int64",
		Schema: ref.Schema{Kind: "record", Name: "LStruct", Namespace: "verifh.checks", Fields: []ref.Field{{Name: "A", Type: ref.Prim("long")}, {Name: "B", Type: str}}},
		Set:    func(dst reflect.Value, v spec.ValueSpec) { c20Set("lstruct", dst, v) },
		Abs: func(v reflect.Value) spec.AbsVal {
			return spec.AbsVal{K: "record", Names: []string{"A", "B"}, Fields: []spec.AbsVal{{K: "long", I: v.Field(0).Int()}, {K: "string", S: []byte(v.Field(1).String())}}}
		},
	}
	spec.Custom["lint"] = &spec.CustomKind{
		Type: reflect.TypeOf(LInt(0)), Base: "int64", Schema: ref.Prim("long"),
		Set: func(dst reflect.Value, v spec.ValueSpec) { dst.SetInt(v.I) },
		Abs: func(v reflect.Value) spec.AbsVal { return spec.AbsVal{K: "long", I: v.Int()} },
	}
	spec.Custom["lslice"] = &spec.CustomKind{
		Type: reflect.TypeOf(LSlice(nil)), Base: "string", Schema: ref.Schema{Kind: "array", Items: &str},
		Set: func(dst reflect.Value, v spec.ValueSpec) { c20Set("lslice", dst, v) },
		Abs: func(v reflect.Value) spec.AbsVal {
			a := spec.AbsVal{K: "array"}
			for i := 0; i < v.Len(); i++ {
				a.Items = append(a.Items, spec.AbsVal{K: "string", S: []byte(v.Index(i).String())})
			}
			return a
		},
	}
	registerReplay("c20", func(c c20Case) error { _, _, err := runC20(c); return err })
}

func c20Set(kind string, dst reflect.Value, v spec.ValueSpec) {
	switch kind {
	case "cstruct", "lstruct":
		dst.Field(0).SetInt(v.I)
		if v.I%3 != 0 {
			dst.Field(1).SetString(fmt.Sprintf("b%d", v.I%1000))
		}
	case "cint":
		dst.SetInt(v.I)
	case "cstr":
		dst.SetString(strings.ToValidUTF8(string(v.S), "?"))
	case "cu64":
		dst.SetUint(uint64(v.I))
	case "cf32s":
		if v.Nil || len(v.S) == 0 {
			return
		}
		fs := make([]float32, 0, len(v.S))
		for _, b := range v.S {
			fs = append(fs, float32(b)/4)
		}
		dst.Set(reflect.ValueOf(fs))
	case "cslice", "lslice":
		parts := strings.FieldsFunc(string(v.S), func(r rune) bool { return r == ' ' || r == 0 || r == '-' })
		if len(parts) == 0 {
			return
		}
		s := reflect.MakeSlice(dst.Type(), len(parts), len(parts))
		for i, p := range parts {
			s.Index(i).SetString(p)
		}
		dst.Set(s)
	}
}

type c20Op struct {
	// LibCycle: a user registration for one of the library's own types
	// (time.Time / null.Int), checked, then the library's RegisterCodecs() again,
	// checked: the most recent registration wins in both directions.
	LibCycle string `json:"lib_cycle,omitempty"`
	Register bool   `json:"register,omitempty"`
	// SchemaFirst: RegisterSchema is called before Register for this registration.
	SchemaFirst bool `json:"schema_first,omitempty"`
	Type        int  `json:"type,omitempty"`
	Builder     int  `json:"builder,omitempty"`
	Nullable    bool `json:"nullable,omitempty"`
	NullSecond  bool `json:"null_second,omitempty"` // with Nullable: the registered union is [T, null]
	Logical     bool `json:"logical,omitempty"`     // the registered schema carries a logicalType attribute
	// roundtrip
	TS      spec.TypeSpec    `json:"ts,omitempty"`
	GoType  string           `json:"go_type,omitempty"`
	Records []spec.ValueSpec `json:"records,omitempty"`
}

type c20Case struct {
	Ops []c20Op `json:"ops"`
}

func customOccurrences(ts spec.TypeSpec, out map[string]int, inCollection map[string]int, coll bool) {
	if _, ok := spec.Custom[ts.K]; ok && strings.HasPrefix(ts.K, "c") {
		out[ts.K]++
		if coll {
			inCollection[ts.K]++
		}
	}
	if ts.Elem != nil {
		customOccurrences(*ts.Elem, out, inCollection, coll || ts.K == "slice" || ts.K == "map")
	}
	for _, f := range ts.Fields {
		if f.AvroName() != "" {
			customOccurrences(f.T, out, inCollection, coll)
		}
	}
}

func runC20(c c20Case) (bool, []string, error) {
	// baseline: every run starts from the same registrations
	for ti := range customDefs {
		c20Register(ti, 0, false)
	}
	nontrivial := false
	reRegistered := false
	var labels []string
	for step, op := range c.Ops {
		if op.LibCycle == "embedded" {
			if err := c20EmbeddedPosition(); err != nil {
				return true, append(labels, "embedded_position"), fmt.Errorf("step %d: %v", step, err)
			}
			labels = append(labels, "embedded_position")
			nontrivial = true
			continue
		}
		if op.LibCycle == "perpos" {
			if err := c20PerPosition(step + len(c.Ops)); err != nil {
				return true, append(labels, "per_position_schema"), fmt.Errorf("step %d: %v", step, err)
			}
			labels = append(labels, "per_position_schema")
			nontrivial = true
			continue
		}
		if op.LibCycle != "" {
			if err := c20LibCycle(op.LibCycle); err != nil {
				return true, append(labels, "library_type_reregistered"), fmt.Errorf("step %d: %v", step, err)
			}
			labels = append(labels, "library_type_reregistered")
			nontrivial = true
			continue
		}
		if op.Register {
			c20SchemaFirst = op.SchemaFirst
			c20NullSecond = op.NullSecond
			c20Logical = op.Logical
			c20Register(op.Type%len(customDefs), op.Builder%2, op.Nullable)
			c20NullSecond = false
			c20SchemaFirst = false
			c20Logical = false
			reRegistered = true
			continue
		}
		ts := op.TS
		occ, inColl := map[string]int{}, map[string]int{}
		customOccurrences(ts, occ, inColl, false)
		if len(inColl) > 0 {
			labels = append(labels, "registered_type_in_collection")
			nontrivial = true
		}
		if reRegistered && len(occ) > 0 {
			labels = append(labels, "roundtrip_after_reregistration")
			nontrivial = true
		}
		typ := spec.Build(ts)
		zero := reflect.New(typ).Elem().Interface()
		// (1) schema
		s, err := avro.SchemaForType(zero)
		if err != nil {
			return nontrivial, labels, fmt.Errorf("step %d: SchemaForType: %v", step, err)
		}
		want, err := spec.ModelSchema(ts, nil)
		if err != nil {
			return nontrivial, labels, fmt.Errorf("VERIF-INCONCLUSIVE harness: model: %v", err)
		}
		if d := fromLib(s).Diff(want, ""); d != "" {
			b, _ := s.Marshal()
			return nontrivial, labels, fmt.Errorf("step %d: schema does not show the registered schema where the type occurs: %s\n%s", step, d, b)
		}
		// (2) write
		var before [6][2][2]int64
		for ti := range customDefs {
			for j := 0; j < 2; j++ {
				before[ti][j] = [2]int64{c20Reads[ti][j].Load(), c20Writes[ti][j].Load()}
			}
		}
		ec := encCase{Type: ts, Records: op.Records, Compression: "null", BlockSize: 64}
		file, in, err := encodeCase(ec)
		if err != nil {
			return nontrivial, labels, fmt.Errorf("step %d: %v", step, err)
		}
		// (3) independent decode: markers of the latest builders, none at look-alikes
		schema, _, blocks, err := ref.ReadRecords(file)
		if err != nil {
			return nontrivial, labels, fmt.Errorf("step %d: reference reader: %v", step, err)
		}
		i := 0
		for _, b := range blocks {
			for _, d := range b {
				if i < len(in) {
					if err := spec.Match(in[i], spec.AbsOfDatum(schema, d), fmt.Sprintf("step %d record[%d]", step, i)); err != nil {
						return nontrivial, labels, fmt.Errorf("written data does not carry the latest registration's encoding: %v", err)
					}
				}
				i++
			}
		}
		if i != len(in) {
			return nontrivial, labels, fmt.Errorf("step %d: %d records written, file holds %d", step, len(in), i)
		}
		// (4) read back
		out, err := readBack(file, ts, typ, false)
		if err != nil {
			return nontrivial, labels, fmt.Errorf("step %d: %v", step, err)
		}
		if len(out) != len(in) {
			return nontrivial, labels, fmt.Errorf("step %d: %d records written, %d read", step, len(in), len(out))
		}
		for k := range in {
			if err := spec.Match(in[k], out[k], fmt.Sprintf("step %d record[%d]", step, k)); err != nil {
				return nontrivial, labels, fmt.Errorf("round trip through the custom codec changed a value: %v", err)
			}
		}
		// (5) only the latest builders ran
		for ti, def := range customDefs {
			st := c20State[def.kind]
			for j := 0; j < 2; j++ {
				dr := c20Reads[ti][j].Load() - before[ti][j][0]
				dw := c20Writes[ti][j].Load() - before[ti][j][1]
				if j != st.builder && (dr != 0 || dw != 0) {
					return nontrivial, labels, fmt.Errorf("step %d: builder %d of %s ran (%d reads, %d writes) although builder %d was registered later", step, j, def.kind, dr, dw, st.builder)
				}
			}
		}
	}
	return nontrivial, labels, nil
}

// libOverrideCodec: a user codec for a library type, writing a long.
type libOverrideCodec struct {
	avro.Int64Codec
	typ reflect.Type
}

func (c libOverrideCodec) Write(w *avro.WriteBuf, p unsafe.Pointer) {
	v := int64(424242)
	c.Int64Codec.Write(w, unsafe.Pointer(&v))
}
func (c libOverrideCodec) Read(r *avro.ReadBuf, p unsafe.Pointer) error {
	var v int64
	return c.Int64Codec.Read(r, unsafe.Pointer(&v))
}
func (c libOverrideCodec) New(r *avro.ReadBuf) unsafe.Pointer { return r.Alloc(c.typ) }
func (c libOverrideCodec) Omit(p unsafe.Pointer) bool         { return false }

type libTimeHolder struct {
	T  time.Time   `json:"t"`
	Ts []time.Time `json:"ts"`
}
type libNullHolder struct {
	N  null.Int            `json:"n"`
	Ns map[string]null.Int `json:"ns"`
}

// c20PerPosition: a registered builder is consulted with the schema of each
// position: one record whose time.Time fields are carried as timestamp-millis,
// timestamp-micros, a plain long and a string must use the right unit in each.
type perPosHolder struct {
	A time.Time   `json:"a"`
	B time.Time   `json:"b"`
	C time.Time   `json:"c"`
	D *time.Time  `json:"d"`
	E []time.Time `json:"e"`
	F time.Time   `json:"f"`
}

func c20PerPosition(order int) error {
	ms := ref.Schema{Kind: "long", LogicalType: "timestamp-millis", ObjectForm: true}
	us := ref.Schema{Kind: "long", LogicalType: "timestamp-micros", ObjectForm: true}
	fields := []ref.Field{{Name: "a", Type: ms}, {Name: "b", Type: us}, {Name: "c", Type: ref.Prim("long")},
		{Name: "d", Type: ref.Nullable(us)}, {Name: "e", Type: ref.Schema{Kind: "array", Items: &ms}}, {Name: "f", Type: ref.Prim("string")}}
	// the order in which the positions are met must not matter
	for i := 0; i < order%len(fields); i++ {
		fields = append(fields[1:], fields[0])
	}
	schema := ref.Schema{Kind: "record", Name: "P", Fields: fields}
	lib, err := avro.SchemaFromString(ref.Render(schema, nil))
	if err != nil {
		return err
	}
	codec, err := lib.Codec(perPosHolder{})
	if err != nil {
		return fmt.Errorf("Schema.Codec: %v", err)
	}
	tm := time.Date(2021, 3, 4, 5, 6, 7, 123456000, time.UTC)
	v := perPosHolder{A: tm, B: tm, C: tm, D: &tm, E: []time.Time{tm, tm}, F: tm}
	wb := avro.NewWriteBuf(nil)
	codec.Write(wb, unsafe.Pointer(&v))
	d, err := ref.DecodeExact(schema, wb.Bytes())
	if err != nil {
		return fmt.Errorf("written record is not valid under the caller's schema: %v", err)
	}
	want := map[string]int64{"a": tm.UnixMilli(), "b": tm.UnixMicro(), "c": tm.UnixNano()}
	for i, f := range fields {
		fd := d.Fields[i]
		switch f.Name {
		case "a", "b", "c":
			if fd.I != want[f.Name] {
				return fmt.Errorf("field %s (%s) of one record written as %d, want %d: the time codec did not get this position's schema", f.Name, lt(f.Type), fd.I, want[f.Name])
			}
		case "d":
			if fd.Branch != 1 || fd.U.I != tm.UnixMicro() {
				return fmt.Errorf("field d ([null, timestamp-micros]) written as %+v", fd)
			}
		case "e":
			if len(fd.Items) != 2 || fd.Items[0].I != tm.UnixMilli() {
				return fmt.Errorf("field e (array of timestamp-millis) written as %+v", fd)
			}
		case "f":
			if string(fd.S) != tm.Format(time.RFC3339Nano) {
				return fmt.Errorf("field f (string) written as %q", fd.S)
			}
		}
	}
	var back perPosHolder
	if err := codec.Read(avro.NewReadBuf(wb.Bytes()), unsafe.Pointer(&back)); err != nil {
		return fmt.Errorf("reading the record back: %v", err)
	}
	msT, usT := tm.Truncate(time.Millisecond), tm.Truncate(time.Microsecond)
	if !back.A.Equal(msT) || !back.B.Equal(usT) || !back.C.Equal(tm) || back.D == nil || !back.D.Equal(usT) || len(back.E) != 2 || !back.E[1].Equal(msT) || !back.F.Equal(tm) {
		return fmt.Errorf("one record with time fields under different logical types read back as %+v", back)
	}
	return nil
}

// Embedded position: a field that embeds a registered type is named after the
// type; it must carry exactly the schema, and be handled by exactly the codec,
// that a named field of that type and name gets.
type c20EmbedUser struct {
	CStruct
	X int64 `json:"x"`
}
type c20NamedUser struct {
	CStruct CStruct
	X       int64 `json:"x"`
}
type c20EmbedLib struct {
	X int64 `json:"x"`
	time.Time
	null.Int
	CInt
}
type c20NamedLib struct {
	X    int64 `json:"x"`
	Time time.Time
	Int  null.Int
	CInt CInt
}

func c20EmbeddedPosition() error {
	for _, pair := range [][2]interface{}{{c20EmbedUser{}, c20NamedUser{}}, {c20EmbedLib{}, c20NamedLib{}}} {
		se, err := avro.SchemaForType(pair[0])
		if err != nil {
			return fmt.Errorf("SchemaForType(%T): %v", pair[0], err)
		}
		sn, err := avro.SchemaForType(pair[1])
		if err != nil {
			return fmt.Errorf("SchemaForType(%T): %v", pair[1], err)
		}
		fe, fn := fromLib(se), fromLib(sn)
		if len(fe.Fields) != len(fn.Fields) {
			return fmt.Errorf("%T has fields %v; with named fields instead of embedded ones the record has %v", pair[0], fieldNames(fe), fieldNames(fn))
		}
		for i := range fe.Fields {
			if fe.Fields[i].Name != fn.Fields[i].Name {
				return fmt.Errorf("%T: field %d is named %q, the type embedded there is %q", pair[0], i, fe.Fields[i].Name, fn.Fields[i].Name)
			}
			if d := fe.Fields[i].Type.Diff(fn.Fields[i].Type, ""); d != "" {
				return fmt.Errorf("%T: the embedded %s does not get the schema a named field of that type gets: %s", pair[0], fe.Fields[i].Name, d)
			}
		}
	}
	// values: written through the embedding struct and through the naming struct, the bytes are the same
	tm := time.Date(2022, 2, 3, 4, 5, 6, 7000, time.UTC)
	ve := c20EmbedLib{X: 5, Time: tm, Int: null.IntFrom(-9), CInt: 77}
	vn := c20NamedLib{X: 5, Time: tm, Int: null.IntFrom(-9), CInt: 77}
	var out [2][]byte
	for i, v := range []interface{}{ve, vn} {
		s, _ := avro.SchemaForType(v)
		c, err := s.Codec(v)
		if err != nil {
			return fmt.Errorf("Schema.Codec(%T): %v", v, err)
		}
		wb := avro.NewWriteBuf(nil)
		p := reflect.New(reflect.TypeOf(v))
		p.Elem().Set(reflect.ValueOf(v))
		c.Write(wb, p.UnsafePointer())
		out[i] = append([]byte(nil), wb.Bytes()...)
		back := reflect.New(reflect.TypeOf(v))
		if err := c.Read(avro.NewReadBuf(out[i]), back.UnsafePointer()); err != nil {
			return fmt.Errorf("%T: reading back: %v", v, err)
		}
		x := back.Elem()
		if x.FieldByName("X").Int() != 5 || !x.FieldByName("Time").Interface().(time.Time).Equal(tm) || x.FieldByName("Int").Interface().(null.Int) != null.IntFrom(-9) || x.FieldByName("CInt").Int() != 77 {
			return fmt.Errorf("%T: %+v read back as %+v", v, v, x.Interface())
		}
	}
	if !bytes.Equal(out[0], out[1]) {
		return fmt.Errorf("a struct embedding time.Time, null.Int and a registered type is written as % x, the same struct with named fields as % x", out[0], out[1])
	}
	return nil
}

func fieldNames(s ref.Schema) []string {
	var out []string
	for _, f := range s.Fields {
		out = append(out, f.Name)
	}
	return out
}

func c20LibCycle(lib string) error {
	var typ reflect.Type
	var holder interface{}
	var restore func()
	var libSchema string
	switch lib {
	case "time":
		typ, holder, restore = reflect.TypeOf(time.Time{}), libTimeHolder{}, avrotime.RegisterCodecs
		libSchema = `{"type":"record","name":"libTimeHolder","namespace":"verifh.checks","fields":[{"name":"t","type":["null","string"]},{"name":"ts","type":{"type":"array","items":["null","string"]}}]}`
	default:
		typ, holder, restore = reflect.TypeOf(null.Int{}), libNullHolder{}, avronull.RegisterCodecs
		libSchema = `{"type":"record","name":"libNullHolder","namespace":"verifh.checks","fields":[{"name":"n","type":["null","long"]},{"name":"ns","type":{"type":"map","values":["null","long"]}}]}`
	}
	defer restore() // whatever happens, leave the library's registrations in force
	// (1) the user's registration governs the library type
	avro.Register(typ, func(s avro.Schema, t reflect.Type, omit bool) (avro.Codec, error) {
		return libOverrideCodec{typ: typ}, nil
	})
	avro.RegisterSchema(typ, avro.Schema{Type: "long"})
	s, err := avro.SchemaForType(holder)
	if err != nil {
		return fmt.Errorf("after a user registration for %s: %v", typ, err)
	}
	if b, _ := s.Marshal(); !strings.Contains(string(b), `"type":"long"`) || strings.Contains(string(b), `"null"`) {
		return fmt.Errorf("a user registration for %s does not govern the generated schema: %s", typ, b)
	}
	codec, err := s.Codec(holder)
	if err != nil {
		return fmt.Errorf("after a user registration for %s: Schema.Codec: %v", typ, err)
	}
	wb := avro.NewWriteBuf(nil)
	hv := reflect.New(reflect.TypeOf(holder))
	codec.Write(wb, hv.UnsafePointer())
	if want := append(ref.AppendLong(nil, 424242), 0); !bytes.Equal(wb.Bytes(), want) {
		return fmt.Errorf("a user registration for %s does not govern encoding: wrote % x, want % x", typ, wb.Bytes(), want)
	}
	// (2) the library registers again: most recent wins
	restore()
	s2, err := avro.SchemaForType(holder)
	if err != nil {
		return err
	}
	if b, _ := s2.Marshal(); string(b) != libSchema {
		return fmt.Errorf("after the library's RegisterCodecs() was called again (the most recent registration), the schema for %s is still the user's: %s", typ, b)
	}
	codec2, err := s2.Codec(holder)
	if err != nil {
		return err
	}
	wb = avro.NewWriteBuf(nil)
	switch lib {
	case "time":
		v := libTimeHolder{T: time.Date(2020, 2, 3, 4, 5, 6, 0, time.UTC)}
		codec2.Write(wb, unsafe.Pointer(&v))
		want := append(append([]byte{2}, append(ref.AppendLong(nil, 20), "2020-02-03T04:05:06Z"...)...), 0)
		if !bytes.Equal(wb.Bytes(), want) {
			return fmt.Errorf("after re-registration by the library, time.Time is not encoded by the library's codec: % x", wb.Bytes())
		}
	default:
		v := libNullHolder{}
		v.N.Int64, v.N.Valid = 7, true
		codec2.Write(wb, unsafe.Pointer(&v))
		if want := []byte{2, 14, 0}; !bytes.Equal(wb.Bytes(), want) {
			return fmt.Errorf("after re-registration by the library, null.Int is not encoded by the library's codec: % x", wb.Bytes())
		}
	}
	return nil
}

func drawC20(t *rapid.T) c20Case {
	var c c20Case
	leaves := []string{"cstruct", "cint", "cslice", "cstr", "cf32s", "cu64", "lstruct", "lint", "lslice", "cstruct", "cint", "cslice", "cstr", "time", "nullInt", "nullTime", "nullString", "nullFloat", "nullBool", "int64", "string"}
	n := gen.UniformRange(t, "nops", 1, 8)
	for i := 0; i < n; i++ {
		if gen.Uniform(t, "libcycle", 12) == 0 {
			c.Ops = append(c.Ops, c20Op{LibCycle: []string{"time", "null", "perpos", "embedded"}[gen.Uniform(t, "lib", 4)]})
			continue
		}
		if gen.Uniform(t, "op", 3) == 0 {
			c.Ops = append(c.Ops, c20Op{Register: true, Type: gen.Uniform(t, "type", 6), Builder: gen.Uniform(t, "builder", 2), Nullable: rapid.Bool().Draw(t, "nullable"), NullSecond: gen.Uniform(t, "nullSecond", 3) == 0, SchemaFirst: rapid.Bool().Draw(t, "schemaFirst"), Logical: gen.Uniform(t, "logicalAttr", 3) == 0})
			continue
		}
		ts := gen.StructType(t, gen.TypeOpts{MaxDepth: 3, MaxFields: 4, Leaves: leaves}, 1)
		nr := gen.UniformRange(t, "nrecords", 1, 3)
		c.Ops = append(c.Ops, c20Op{TS: ts, GoType: ts.GoString(), Records: gen.Records(t, ts, nr, gen.ValueOpts{MaxElems: 3})})
	}
	return c
}

func TestC20(t *testing.T) {
	col := stats.New("C20")
	col.Rule = c20Rule
	propCheck(t, col, "c20", drawC20, runC20)
}

var _ = bytes.Equal
