package checks

import (
	"bytes"
	"fmt"
	"reflect"
	"testing"
	"time"
	"unsafe"

	"github.com/philpearl/avro"

	"verifh/ref"
	"verifh/stats"
)

// C19, the registry route: time.Time registered (by the application) with a
// logical-type schema — BigQuery TIMESTAMP columns — and then used through
// SchemaForType / Encoder[T] / ReadFile: the generated schema names the logical
// type, the stored integers are in its unit, and what is read back is the instant
// written at that resolution. Runs in a process of its own: the registration stays.

type c19RegRow struct {
	ID  int64       `json:"id"`
	T   time.Time   `json:"t"`
	PT  *time.Time  `json:"pt"`
	Ts  []time.Time `json:"ts"`
	End int64       `json:"end"`
}

func runC19Registered(logical string) error {
	avro.RegisterSchema(reflect.TypeOf(time.Time{}), toLib(ref.Schema{Kind: "long", LogicalType: logical, ObjectForm: true}))
	unit := int64(1e3)
	if logical == "timestamp-millis" {
		unit = 1e6
	}
	s, err := avro.SchemaForType(c19RegRow{})
	if err != nil {
		return fmt.Errorf("SchemaForType: %v", err)
	}
	sb, _ := s.Marshal()
	rs, err := ref.ParseSchema(sb)
	if err != nil {
		return fmt.Errorf("generated schema %s: %v", sb, err)
	}
	if rs.Fields[1].Type.LogicalType != logical || rs.Fields[1].Type.Kind != "long" {
		return fmt.Errorf("time.Time is registered as %s, the generated schema says %s", logical, sb)
	}
	var buf bytes.Buffer
	enc, err := avro.NewEncoderFor[c19RegRow](&buf, avro.CompressionNull, 64)
	if err != nil {
		return fmt.Errorf("NewEncoderFor: %v", err)
	}
	instants := []time.Time{
		time.Date(2024, 2, 29, 12, 34, 56, 789012345, time.UTC), time.Date(1969, 12, 31, 23, 59, 59, 999999999, time.UTC),
		time.Date(1901, 1, 1, 0, 0, 0, 1, time.FixedZone("", 3600)), time.Date(2261, 1, 1, 0, 0, 0, 999, time.UTC), time.Unix(0, 0).UTC(),
	}
	for i, tm := range instants {
		other := instants[(i+1)%len(instants)]
		row := c19RegRow{ID: int64(i), T: tm, PT: &other, Ts: []time.Time{tm, other}, End: 77}
		if err := enc.Encode(&row); err != nil {
			return fmt.Errorf("Encode: %v", err)
		}
	}
	if err := enc.Flush(); err != nil {
		return fmt.Errorf("Flush: %v", err)
	}
	fschema, lay, blocks, err := ref.ReadRecords(buf.Bytes())
	if err != nil {
		return fmt.Errorf("reference reader rejects the file: %v", err)
	}
	if got := fschema.Fields[1].Type.LogicalType; got != logical {
		return fmt.Errorf("the file header's schema lost the logical type: %s", lay.Meta["avro.schema"])
	}
	floor := func(tm time.Time) int64 { return floorDiv(tm.UnixNano(), unit) }
	i := 0
	for _, b := range blocks {
		for _, d := range b {
			tm, other := instants[i], instants[(i+1)%len(instants)]
			if d.Fields[1].I != floor(tm) || d.Fields[2].U == nil || d.Fields[2].U.I != floor(other) || len(d.Fields[3].Items) != 2 || d.Fields[3].Items[1].I != floor(other) || d.Fields[4].I != 77 {
				return fmt.Errorf("row %d: %v under %s stored as %d (want %d); pointer column %v, array %v, last column %d", i, tm, logical, d.Fields[1].I, floor(tm), d.Fields[2], d.Fields[3], d.Fields[4].I)
			}
			i++
		}
	}
	if i != len(instants) {
		return fmt.Errorf("%d rows written, %d in the file", len(instants), i)
	}
	i = 0
	err = avro.ReadFile(bytes.NewReader(buf.Bytes()), c19RegRow{}, func(p unsafe.Pointer, rb *avro.ResourceBank) error {
		r := (*c19RegRow)(p)
		want := instants[i].Truncate(time.Duration(unit))
		if !r.T.Equal(want) || r.PT == nil || len(r.Ts) != 2 || !r.Ts[0].Equal(want) || r.End != 77 {
			return fmt.Errorf("row %d read back as %v (want %v), %v, %v, %d", i, r.T, want, r.PT, r.Ts, r.End)
		}
		i++
		return nil
	})
	return err
}

func TestC19Registered(t *testing.T) {
	col := stats.New("C19")
	col.Rule = c19Rule
	defer col.Flush()
	for _, logical := range []string{"timestamp-micros", "timestamp-millis", "timestamp-micros"} {
		c := struct{ Logical string }{logical}
		err := protect(func() error { return runC19Registered(logical) })
		col.Record(c, true, "registered_logical_schema")
		if err != nil {
			failCase(t, "C19", "c19registered", c, err)
		}
	}
}

func init() {
	registerReplay("c19registered", func(c struct{ Logical string }) error { return runC19Registered(c.Logical) })
}
