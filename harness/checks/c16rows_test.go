package checks

import (
	"errors"
	"fmt"
	"testing"

	"github.com/philpearl/avro"

	"verifh/ref"
	"verifh/stats"
)

// C16, counts: tens of thousands of tiny rows (more than 65536) into one encoder
// whose block size is far away, the writer failing at its k-th write: whichever
// call issues that write — the final Flush, or an Encode if the encoder decides
// to emit a block on the way — returns an error wrapping the writer's, and no
// call before it fails.

type rowsCase struct {
	Rows        int    `json:"rows"`
	Compression string `json:"compression"`
	FailAt      int    `json:"fail_at"`
}

type tinyRow struct {
	B bool `json:"b"`
}

func init() { registerReplay("c16rows", func(c rowsCase) error { return runC16Rows(c) }) }

func runC16Rows(c rowsCase) error {
	fw := &faultWriter{failAt: c.FailAt, permil: 500, err: errWriteSentinel}
	enc, err := avro.NewEncoderFor[tinyRow](fw, avro.Compression(c.Compression), 1<<22)
	if err != nil {
		if fw.fired && errors.Is(err, errWriteSentinel) {
			return nil
		}
		return fmt.Errorf("NewEncoderFor: %v", err)
	}
	if fw.fired {
		return fmt.Errorf("the header write failed but NewEncoderFor returned no error")
	}
	for i := 0; i < c.Rows; i++ {
		before := fw.fired
		err := enc.Encode(&tinyRow{B: i%3 == 0})
		if fw.fired && !before {
			if err == nil || !errors.Is(err, errWriteSentinel) {
				return fmt.Errorf("Encode of row %d issued the failing write %d but returned %v", i, c.FailAt, err)
			}
			return nil
		}
		if err != nil {
			return fmt.Errorf("Encode of row %d failed before any write had failed: %v", i, err)
		}
	}
	err = enc.Flush()
	if fw.fired {
		if err == nil || !errors.Is(err, errWriteSentinel) {
			return fmt.Errorf("Flush after %d rows issued the failing write %d but returned %v", c.Rows, c.FailAt, err)
		}
		return nil
	}
	if err != nil {
		return fmt.Errorf("Flush failed although no write failed: %v", err)
	}
	// the fault index lay beyond the last write: the file must be whole
	if _, _, blocks, err := ref.ReadRecords(fw.buf.Bytes()); err != nil {
		return fmt.Errorf("fault-free run of %d tiny rows: %v", c.Rows, err)
	} else {
		n := 0
		for _, b := range blocks {
			n += len(b)
		}
		if n != c.Rows {
			return fmt.Errorf("%d rows encoded, file holds %d", c.Rows, n)
		}
	}
	return nil
}

func TestC16Rows(t *testing.T) {
	col := stats.New("C16")
	col.Rule = c16Rule
	defer col.Flush()
	for _, codec := range []string{"null", "deflate", "snappy"} {
		for _, rows := range []int{65535, 65536, 70000, 140000} {
			for k := 0; k <= 14; k++ {
				c := rowsCase{rows, codec, k}
				err := protect(func() error { return runC16Rows(c) })
				col.Record(c, k > 0, "many_tiny_rows")
				if err != nil {
					failCase(t, "C16", "c16rows", c, err)
				}
			}
		}
	}
}
