package checks

import (
	"fmt"
	null "github.com/unravelin/null/v5"
	"math"
	"reflect"
	"testing"

	avro "github.com/philpearl/avro"
	"pgregory.net/rapid"

	"verifh/gen"
	"verifh/ref"
	"verifh/stats"
)

// The same numbers inside slices, maps and behind pointers: the record codec may
// take a different path for a whole slice than for one value.

type c17Holder struct {
	F32  []float32          `json:"f32"`
	F64  []float64          `json:"f64"`
	I16  []int16            `json:"i16"`
	I32  []int32            `json:"i32"`
	I64  []int64            `json:"i64"`
	B    []bool             `json:"b"`
	MF32 map[string]float32 `json:"mf32"`
	PF32 *float32           `json:"pf32"`
	F32b []float32          `json:"f32b"` // declared array<float> by the caller's schema
	// the null.* wrappers over the same wire types, at both integer and float widths
	NI32 null.Int   `json:"ni32"`
	NI64 null.Int   `json:"ni64"`
	NF32 null.Float `json:"nf32"`
	NF64 null.Float `json:"nf64"`
	SNI  []null.Int `json:"sni"`
	PNI  *null.Int  `json:"pni"`
	// nullable columns over plain (non-pointer) numeric fields: what the library's own
	// schemas give a field tagged omitempty. Each 32/16-bit field is followed by a field
	// the schema does not name, so that an over-wide load or store shows.
	OF32   float32 `json:"of32,omitempty"` // ["null","double"]
	OF32x  uint32  `json:"-"`
	OF32b  float32 `json:"of32b,omitempty"` // ["double","null"]
	OF32bx uint32  `json:"-"`
	OF32f  float32 `json:"of32f,omitempty"` // ["null","float"]
	OF32fx uint32  `json:"-"`
	OF64   float64 `json:"of64,omitempty"` // ["null","double"]
	OI16   int16   `json:"oi16,omitempty"` // ["null","int"]
	OI16x  uint16  `json:"-"`
	OI32   int32   `json:"oi32,omitempty"` // ["long","null"]
	OI32x  uint32  `json:"-"`
	OI64   int64   `json:"oi64,omitempty"` // ["null","long"]
}

type c17SliceCase struct {
	F32  []uint32 `json:"f32"`
	F64  []uint64 `json:"f64"`
	Ints []int64  `json:"ints"`
	B    []bool   `json:"b"`
	// Sub: the slices are windows into larger arrays (data follows them in memory)
	Sub bool `json:"sub"`
}

func init() {
	registerReplay("c17slices", func(c c17SliceCase) error {
		if err := runC17Slices(c); err != nil {
			return err
		}
		if err := runC17Skips(c); err != nil {
			return err
		}
		return runC17Narrow(c)
	})
}

var c17HolderSchema = `{"type":"record","name":"h","fields":[
 {"name":"f32","type":{"type":"array","items":"double"}},
 {"name":"f64","type":{"type":"array","items":"double"}},
 {"name":"i16","type":{"type":"array","items":"int"}},
 {"name":"i32","type":{"type":"array","items":"int"}},
 {"name":"i64","type":{"type":"array","items":"long"}},
 {"name":"b","type":{"type":"array","items":"boolean"}},
 {"name":"mf32","type":{"type":"map","values":"double"}},
 {"name":"pf32","type":["null","double"]},
 {"name":"f32b","type":{"type":"array","items":"float"}},
 {"name":"ni32","type":"int"},{"name":"ni64","type":"long"},{"name":"nf32","type":"float"},{"name":"nf64","type":"double"},
 {"name":"sni","type":{"type":"array","items":"int"}},{"name":"pni","type":["null","int"]},
 {"name":"of32","type":["null","double"]},{"name":"of32b","type":["double","null"]},{"name":"of32f","type":["null","float"]},{"name":"of64","type":["null","double"]},
 {"name":"oi16","type":["null","int"]},{"name":"oi32","type":["long","null"]},{"name":"oi64","type":["null","long"]}]}`

func runC17Slices(c c17SliceCase) error {
	lib, err := avro.SchemaFromString(c17HolderSchema)
	if err != nil {
		return fmt.Errorf("VERIF-INCONCLUSIVE harness: %v", err)
	}
	rs, err := ref.ParseSchema([]byte(c17HolderSchema))
	if err != nil {
		return fmt.Errorf("VERIF-INCONCLUSIVE harness: %v", err)
	}
	codec, err := lib.Codec(c17Holder{})
	if err != nil {
		return fmt.Errorf("Schema.Codec: %v", err)
	}
	window := func(n int) (lo, total int) {
		if c.Sub {
			return 1, n + 9
		}
		return 0, n
	}
	var h c17Holder
	{
		lo, tot := window(len(c.F32))
		a, b := make([]float32, tot), make([]float32, tot)
		for i := range a {
			a[i], b[i] = math.Float32frombits(0x7fa55aa5), math.Float32frombits(0x7fa55aa5)
		}
		h.F32, h.F32b = a[lo:lo+len(c.F32):lo+len(c.F32)], b[lo:lo+len(c.F32):lo+len(c.F32)]
		if c.Sub {
			h.F32, h.F32b = a[lo:lo+len(c.F32)], b[lo:lo+len(c.F32)]
		}
		h.MF32 = map[string]float32{}
		for i, x := range c.F32 {
			h.F32[i], h.F32b[i] = math.Float32frombits(x), math.Float32frombits(x)
			h.MF32[fmt.Sprintf("k%d", i)] = math.Float32frombits(x)
		}
		if len(c.F32) > 0 {
			p := math.Float32frombits(c.F32[0])
			h.PF32 = &p
		}
	}
	{
		lo, tot := window(len(c.F64))
		a := make([]float64, tot)
		for i := range a {
			a[i] = math.Float64frombits(0x7ff5a5a5a5a5a5a5)
		}
		h.F64 = a[lo : lo+len(c.F64)]
		for i, x := range c.F64 {
			h.F64[i] = math.Float64frombits(x)
		}
	}
	{
		lo, tot := window(len(c.Ints))
		a, b, d := make([]int16, tot), make([]int32, tot), make([]int64, tot)
		for i := range a {
			a[i], b[i], d[i] = -21931, -1431655766, -6148914691236517206
		}
		h.I16, h.I32, h.I64 = a[lo:lo+len(c.Ints)], b[lo:lo+len(c.Ints)], d[lo:lo+len(c.Ints)]
		for i, x := range c.Ints {
			h.I16[i], h.I32[i], h.I64[i] = int16(x), int32(x), x
		}
	}
	{
		lo, tot := window(len(c.B))
		a := make([]bool, tot)
		for i := range a {
			a[i] = true
		}
		h.B = a[lo : lo+len(c.B)]
		copy(h.B, c.B)
	}

	if len(c.Ints) > 0 {
		x := c.Ints[0]
		h.NI32, h.NI64 = null.IntFrom(int64(int32(x))), null.IntFrom(x)
		p := null.IntFrom(int64(int32(x)))
		h.PNI = &p
		for _, y := range c.Ints {
			h.SNI = append(h.SNI, null.IntFrom(int64(int32(y))))
		}
	}
	if len(c.F32) > 0 {
		h.NF32 = null.FloatFrom(float64(math.Float32frombits(c.F32[0])))
	}
	if len(c.F64) > 0 {
		h.NF64 = null.FloatFrom(math.Float64frombits(c.F64[0]))
	}
	const canary32, canary16 = 0xa5c3e1f7, 0xa5c3
	h.OF32x, h.OF32bx, h.OF32fx, h.OI16x, h.OI32x = canary32, canary32, canary32, canary16, canary32
	if len(c.F32) > 0 {
		x := math.Float32frombits(c.F32[len(c.F32)-1])
		h.OF32, h.OF32b, h.OF32f = x, x, x
	}
	if len(c.F64) > 0 {
		h.OF64 = math.Float64frombits(c.F64[len(c.F64)-1])
	}
	if len(c.Ints) > 0 {
		x := c.Ints[len(c.Ints)-1]
		h.OI16, h.OI32, h.OI64 = int16(x), int32(x), x
	}
	w := avro.NewWriteBuf(nil)
	codec.Write(w, reflect.ValueOf(&h).UnsafePointer())
	out := append([]byte(nil), w.Bytes()...)
	d, err := ref.DecodeExact(rs, out)
	if err != nil {
		return fmt.Errorf("the record written is not a valid encoding of its schema: %v (% x)", err, out)
	}
	dbl := func(x uint32, got ref.Datum, path string) error {
		want, nan := widen32(x)
		if got.F != want && !(nan && got.F == want|1<<51) {
			return fmt.Errorf("%s: float32 %#08x written as double %#016x, want %#016x", path, x, got.F, want)
		}
		return nil
	}
	f := d.Fields
	if len(f[0].Items) != len(c.F32) || len(f[8].Items) != len(c.F32) || len(f[6].Keys) != len(c.F32) {
		return fmt.Errorf("%d float32 values written as %d doubles, %d floats, %d map entries", len(c.F32), len(f[0].Items), len(f[8].Items), len(f[6].Keys))
	}
	mf := f[6].AsMap()
	for i, x := range c.F32 {
		if err := dbl(x, f[0].Items[i], fmt.Sprintf("f32[%d]", i)); err != nil {
			return err
		}
		if err := dbl(x, mf[fmt.Sprintf("k%d", i)], fmt.Sprintf("mf32[k%d]", i)); err != nil {
			return err
		}
		if g := uint32(f[8].Items[i].F); g != x {
			return fmt.Errorf("f32b[%d]: float32 %#08x written as float %#08x", i, x, g)
		}
	}
	if len(c.F32) > 0 {
		if f[7].Branch != 1 {
			return fmt.Errorf("pf32: non-nil pointer written as null")
		}
		if err := dbl(c.F32[0], *f[7].U, "pf32"); err != nil {
			return err
		}
	}
	if len(f[1].Items) != len(c.F64) {
		return fmt.Errorf("%d float64 values written as %d", len(c.F64), len(f[1].Items))
	}
	for i, x := range c.F64 {
		if f[1].Items[i].F != x {
			return fmt.Errorf("f64[%d]: %#016x written as %#016x", i, x, f[1].Items[i].F)
		}
	}
	if len(f[2].Items) != len(c.Ints) || len(f[3].Items) != len(c.Ints) || len(f[4].Items) != len(c.Ints) {
		return fmt.Errorf("%d integers written as %d/%d/%d", len(c.Ints), len(f[2].Items), len(f[3].Items), len(f[4].Items))
	}
	for i, x := range c.Ints {
		if f[2].Items[i].I != int64(int16(x)) || f[3].Items[i].I != int64(int32(x)) || f[4].Items[i].I != x {
			return fmt.Errorf("ints[%d]: %d/%d/%d written as %d/%d/%d", i, int16(x), int32(x), x, f[2].Items[i].I, f[3].Items[i].I, f[4].Items[i].I)
		}
	}
	if len(f[5].Items) != len(c.B) {
		return fmt.Errorf("%d booleans written as %d", len(c.B), len(f[5].Items))
	}
	for i, x := range c.B {
		if f[5].Items[i].B != x {
			return fmt.Errorf("b[%d]: %v written as %v", i, x, f[5].Items[i].B)
		}
	}

	// the wrappers: same wire values as the plain fields
	if len(c.Ints) > 0 {
		x := c.Ints[0]
		if f[9].I != int64(int32(x)) || f[10].I != x || f[14].Branch != 1 || f[14].U.I != int64(int32(x)) || len(f[13].Items) != len(c.Ints) {
			return fmt.Errorf("null.Int %d: written as int %d, long %d, [null,int] branch %d, %d array items", x, f[9].I, f[10].I, f[14].Branch, len(f[13].Items))
		}
		for i, y := range c.Ints {
			if f[13].Items[i].I != int64(int32(y)) {
				return fmt.Errorf("sni[%d]: null.Int %d written as %d", i, int32(y), f[13].Items[i].I)
			}
		}
	}
	if len(c.F32) > 0 {
		if _, nan := widen32(c.F32[0]); uint32(f[11].F) != c.F32[0] && !(nan && uint32(f[11].F) == c.F32[0]|1<<22) {
			return fmt.Errorf("null.Float holding float32 %#08x written under a float schema as %#08x", c.F32[0], uint32(f[11].F))
		}
	}
	if len(c.F64) > 0 && f[12].F != c.F64[0] {
		return fmt.Errorf("null.Float %#016x written as %#016x", c.F64[0], f[12].F)
	}

	// nullable columns over plain numeric fields: zero is the null branch, anything
	// else the other branch holding exactly the value (-0.0 may be either)
	nullable := func(idx int, nullBranch int, name string, zero, negZero bool, ok func(v ref.Datum) error) error {
		u := f[idx]
		switch {
		case u.Branch == nullBranch:
			if !zero && !negZero {
				return fmt.Errorf("%s: a non-zero value was written as null", name)
			}
		case zero:
			return fmt.Errorf("%s: the zero value of an omitempty field was written as the non-null branch", name)
		default:
			if err := ok(*u.U); err != nil {
				return err
			}
		}
		return nil
	}
	{
		var x32 uint32
		if len(c.F32) > 0 {
			x32 = c.F32[len(c.F32)-1]
		}
		z, nz := x32 == 0, x32 == 1<<31
		if err := nullable(15, 0, "of32", z, nz, func(v ref.Datum) error { return dbl(x32, v, "of32") }); err != nil {
			return err
		}
		if err := nullable(16, 1, "of32b", z, nz, func(v ref.Datum) error { return dbl(x32, v, "of32b") }); err != nil {
			return err
		}
		if err := nullable(17, 0, "of32f", z, nz, func(v ref.Datum) error {
			if uint32(v.F) != x32 {
				return fmt.Errorf("of32f: float32 %#08x written as float %#08x", x32, uint32(v.F))
			}
			return nil
		}); err != nil {
			return err
		}
		var x64 uint64
		if len(c.F64) > 0 {
			x64 = c.F64[len(c.F64)-1]
		}
		if err := nullable(18, 0, "of64", x64 == 0, x64 == 1<<63, func(v ref.Datum) error {
			if v.F != x64 {
				return fmt.Errorf("of64: %#016x written as %#016x", x64, v.F)
			}
			return nil
		}); err != nil {
			return err
		}
		var xi int64
		if len(c.Ints) > 0 {
			xi = c.Ints[len(c.Ints)-1]
		}
		for _, col := range []struct {
			idx, nb int
			name    string
			want    int64
		}{{19, 0, "oi16", int64(int16(xi))}, {20, 1, "oi32", int64(int32(xi))}, {21, 0, "oi64", xi}} {
			want := col.want
			if err := nullable(col.idx, col.nb, col.name, want == 0, false, func(v ref.Datum) error {
				if v.I != want {
					return fmt.Errorf("%s: %d written as %d", col.name, want, v.I)
				}
				return nil
			}); err != nil {
				return err
			}
		}
	}

	// and read back
	var g c17Holder
	g.OF32x, g.OF32bx, g.OF32fx, g.OI16x, g.OI32x = canary32, canary32, canary32, canary16, canary32
	rb := avro.NewReadBuf(out)
	if err := codec.Read(rb, reflect.ValueOf(&g).UnsafePointer()); err != nil || rb.Len() != 0 {
		return fmt.Errorf("reading the record back: err=%v, %d bytes left", err, rb.Len())
	}
	if g.OF32x != canary32 || g.OF32bx != canary32 || g.OF32fx != canary32 || g.OI16x != canary16 || g.OI32x != canary32 {
		return fmt.Errorf("reading a nullable numeric column changed the field next to it (not named in the schema): %#x %#x %#x %#x %#x", g.OF32x, g.OF32bx, g.OF32fx, g.OI16x, g.OI32x)
	}
	{
		eq32 := func(a, b float32) bool {
			return math.Float32bits(a) == math.Float32bits(b) || (a != a && b != b) || (a == 0 && b == 0)
		}
		if !eq32(g.OF32, h.OF32) || !eq32(g.OF32b, h.OF32b) || math.Float32bits(g.OF32f) != math.Float32bits(h.OF32f) && !(h.OF32f == 0 && g.OF32f == 0) ||
			math.Float64bits(g.OF64) != math.Float64bits(h.OF64) && !(h.OF64 == 0 && g.OF64 == 0) || g.OI16 != h.OI16 || g.OI32 != h.OI32 || g.OI64 != h.OI64 {
			return fmt.Errorf("nullable numeric columns read back differently: wrote %v %v %v %v %d %d %d, read %v %v %v %v %d %d %d",
				h.OF32, h.OF32b, h.OF32f, h.OF64, h.OI16, h.OI32, h.OI64, g.OF32, g.OF32b, g.OF32f, g.OF64, g.OI16, g.OI32, g.OI64)
		}
	}
	same32 := func(x uint32, got float32) bool {
		gb := math.Float32bits(got)
		_, nan := widen32(x)
		return gb == x || (nan && got != got && gb == x|1<<22)
	}
	if len(g.F32) != len(c.F32) || len(g.F32b) != len(c.F32) || len(g.MF32) != len(c.F32) || len(g.F64) != len(c.F64) ||
		len(g.I16) != len(c.Ints) || len(g.I32) != len(c.Ints) || len(g.I64) != len(c.Ints) || len(g.B) != len(c.B) {
		return fmt.Errorf("read back with other lengths: %d %d %d %d %d %d %d %d", len(g.F32), len(g.F32b), len(g.MF32), len(g.F64), len(g.I16), len(g.I32), len(g.I64), len(g.B))
	}
	for i, x := range c.F32 {
		if !same32(x, g.F32[i]) || !same32(x, g.MF32[fmt.Sprintf("k%d", i)]) || math.Float32bits(g.F32b[i]) != x {
			return fmt.Errorf("float32 %#08x read back as %#08x (array<double>), %#08x (map<double>), %#08x (array<float>)", x,
				math.Float32bits(g.F32[i]), math.Float32bits(g.MF32[fmt.Sprintf("k%d", i)]), math.Float32bits(g.F32b[i]))
		}
	}
	if len(c.F32) > 0 && (g.PF32 == nil || !same32(c.F32[0], *g.PF32)) {
		return fmt.Errorf("pf32: float32 %#08x read back as %v", c.F32[0], g.PF32)
	}
	for i, x := range c.F64 {
		if math.Float64bits(g.F64[i]) != x {
			return fmt.Errorf("float64 %#016x read back as %#016x", x, math.Float64bits(g.F64[i]))
		}
	}
	for i, x := range c.Ints {
		if g.I16[i] != int16(x) || g.I32[i] != int32(x) || g.I64[i] != x {
			return fmt.Errorf("ints[%d]=%d read back as %d/%d/%d", i, x, g.I16[i], g.I32[i], g.I64[i])
		}
	}
	for i, x := range c.B {
		if g.B[i] != x {
			return fmt.Errorf("b[%d] read back as %v", i, g.B[i])
		}
	}
	if len(c.Ints) > 0 {
		x := c.Ints[0]
		if !g.NI32.Valid || g.NI32.Int64 != int64(int32(x)) || !g.NI64.Valid || g.NI64.Int64 != x || g.PNI == nil || !g.PNI.Valid || g.PNI.Int64 != int64(int32(x)) || len(g.SNI) != len(c.Ints) {
			return fmt.Errorf("null.Int %d / %d read back as %+v (int), %+v (long), %+v ([null,int]), %d array items", int32(x), x, g.NI32, g.NI64, g.PNI, len(g.SNI))
		}
		for i, y := range c.Ints {
			if !g.SNI[i].Valid || g.SNI[i].Int64 != int64(int32(y)) {
				return fmt.Errorf("sni[%d]: null.Int %d read back as %+v", i, int32(y), g.SNI[i])
			}
		}
	}
	if len(c.F32) > 0 {
		want := float64(math.Float32frombits(c.F32[0]))
		if !g.NF32.Valid || (g.NF32.Float64 != want && want == want) || (want != want && g.NF32.Float64 == g.NF32.Float64) {
			return fmt.Errorf("null.Float holding float32 %#08x read back from a float column as %v", c.F32[0], g.NF32)
		}
	}
	if len(c.F64) > 0 && (!g.NF64.Valid || math.Float64bits(g.NF64.Float64) != c.F64[0]) {
		return fmt.Errorf("null.Float %#016x read back as %#016x", c.F64[0], math.Float64bits(g.NF64.Float64))
	}
	return nil
}

func TestC17Slices(t *testing.T) {
	col := stats.New("C17")
	col.Rule = c17Rule
	special32 := []uint32{0, 0x80000000, 1, 0x007fffff, 0x00800000, 0x7f7fffff, 0x7f800000, 0xff800000, 0x7fc00000, 0x7f800001, 0xffc12345, 0x3f800000, 0x3dcccccd, 0xc2f6e979}
	special64 := []uint64{0, 1 << 63, 1, 0x000fffffffffffff, 0x0010000000000000, 0x7fefffffffffffff, 0x7ff0000000000000, 0xfff0000000000000, 0x7ff8000000000000, 0x7ff0000000000001, 0x3ff0000000000000, 0x3fb999999999999a}
	propCheck(t, col, "c17slices", func(t *rapid.T) c17SliceCase {
		var c c17SliceCase
		for n := gen.UniformRange(t, "n32", 0, 6); n > 0; n-- {
			if rapid.Bool().Draw(t, "special") {
				c.F32 = append(c.F32, rapid.SampledFrom(special32).Draw(t, "s32"))
			} else {
				c.F32 = append(c.F32, rapid.Uint32().Draw(t, "f32"))
			}
		}
		for n := gen.UniformRange(t, "n64", 0, 6); n > 0; n-- {
			if rapid.Bool().Draw(t, "special") {
				c.F64 = append(c.F64, rapid.SampledFrom(special64).Draw(t, "s64"))
			} else {
				c.F64 = append(c.F64, rapid.Uint64().Draw(t, "f64"))
			}
		}
		bi := boundaryInts()
		for n := gen.UniformRange(t, "nint", 0, 6); n > 0; n-- {
			if rapid.Bool().Draw(t, "boundary") {
				c.Ints = append(c.Ints, rapid.SampledFrom(bi).Draw(t, "bint"))
			} else {
				c.Ints = append(c.Ints, rapid.Int64().Draw(t, "int"))
			}
		}
		c.B = rapid.SliceOfN(rapid.Bool(), 0, 6).Draw(t, "b")
		c.Sub = rapid.Bool().Draw(t, "sub")
		return c
	}, func(c c17SliceCase) (bool, []string, error) {
		nt := false
		for _, x := range c.F32 {
			nt = nt || specialFloat32(x)
		}
		for _, x := range c.Ints {
			nt = nt || nearBoundary(x)
		}
		labels := []string{"slices"}
		if c.Sub {
			labels = append(labels, "slices_are_windows")
		}
		if err := runC17Slices(c); err != nil {
			return nt, labels, err
		}
		if err := runC17Skips(c); err != nil {
			return nt, labels, err
		}
		return nt, labels, runC17Narrow(c)
	})
}

// Stepping over a number takes exactly the bytes the number occupies: a record in
// which every other field is absent from the Go struct.
type c17Skipper struct {
	A int64 `json:"a"`
	B int64 `json:"b"`
	C int64 `json:"c"`
	D int64 `json:"d"`
	E int64 `json:"e"`
	F int64 `json:"f"`
	G int64 `json:"g"`
}

var c17SkipSchema = `{"type":"record","name":"s","fields":[
 {"name":"a","type":"long"},{"name":"xf","type":"float"},
 {"name":"b","type":"long"},{"name":"xd","type":"double"},
 {"name":"c","type":"long"},{"name":"xi","type":"int"},{"name":"xl","type":"long"},{"name":"xb","type":"boolean"},
 {"name":"d","type":"long"},{"name":"xnf","type":["null","float"]},{"name":"xaf","type":{"type":"array","items":"float"}},
 {"name":"e","type":"long"},{"name":"xad","type":{"type":"array","items":"double"}},{"name":"xmf","type":{"type":"map","values":"float"}},
 {"name":"f","type":"long"},{"name":"xai","type":{"type":"array","items":"long"}},
 {"name":"g","type":"long"}]}`

func runC17Skips(c c17SliceCase) error {
	lib, err := avro.SchemaFromString(c17SkipSchema)
	if err != nil {
		return fmt.Errorf("VERIF-INCONCLUSIVE harness: %v", err)
	}
	rs, err := ref.ParseSchema([]byte(c17SkipSchema))
	if err != nil {
		return fmt.Errorf("VERIF-INCONCLUSIVE harness: %v", err)
	}
	codec, err := lib.Codec(c17Skipper{})
	if err != nil {
		return fmt.Errorf("Schema.Codec: %v", err)
	}
	f32 := func(i int) ref.Datum {
		if len(c.F32) == 0 {
			return ref.Datum{K: "float", F: 0x3fc00000}
		}
		return ref.Datum{K: "float", F: uint64(c.F32[i%len(c.F32)])}
	}
	f64 := func(i int) ref.Datum {
		if len(c.F64) == 0 {
			return ref.Datum{K: "double", F: 0x3ff8000000000000}
		}
		return ref.Datum{K: "double", F: c.F64[i%len(c.F64)]}
	}
	in := func(i int) int64 {
		if len(c.Ints) == 0 {
			return int64(i)
		}
		return c.Ints[i%len(c.Ints)]
	}
	arr := func(n int, item func(int) ref.Datum) ref.Datum {
		d := ref.Datum{K: "array"}
		for i := 0; i < n; i++ {
			d.Items = append(d.Items, item(i))
		}
		return d
	}
	mp := ref.Datum{K: "map"}
	for i := range c.F32 {
		mp.Keys, mp.Vals = append(mp.Keys, fmt.Sprintf("k%d", i)), append(mp.Vals, f32(i))
	}
	nf := ref.Union(1, f32(1))
	if len(c.B) > 0 && c.B[0] {
		nf = ref.Union(0, ref.Null())
	}
	rec := ref.Datum{K: "record", Fields: []ref.Datum{
		ref.Long(101), f32(0), ref.Long(102), f64(0), ref.Long(103), ref.Int(int64(int32(in(0)))), ref.Long(in(1)), ref.Bool(len(c.B)%2 == 1),
		ref.Long(104), nf, arr(len(c.F32), f32), ref.Long(105), arr(len(c.F64), f64), mp, ref.Long(106),
		arr(len(c.Ints), func(i int) ref.Datum { return ref.Long(in(i)) }), ref.Long(107)}}
	var choices *ref.Choices
	if c.Sub {
		choices = &ref.Choices{Bits: []byte{1, 3, 2, 1, 3, 1, 2, 3}} // sized / split blocks for the collections
	}
	body, err := ref.Encode(rs, rec, choices)
	if err != nil {
		return fmt.Errorf("VERIF-INCONCLUSIVE harness: %v", err)
	}
	var got c17Skipper
	rb := avro.NewReadBuf(body)
	if err := codec.Read(rb, reflect.ValueOf(&got).UnsafePointer()); err != nil {
		return fmt.Errorf("decoding a record whose numeric fields are stepped over: %v (% x)", err, body)
	}
	if rb.Len() != 0 {
		return fmt.Errorf("%d bytes left after the record", rb.Len())
	}
	if got != (c17Skipper{101, 102, 103, 104, 105, 106, 107}) {
		return fmt.Errorf("fields between the skipped numbers decoded as %+v, want 101..107 (% x)", got, body)
	}
	if err := codec.Skip(avro.NewReadBuf(body)); err != nil {
		return fmt.Errorf("Skip of the whole record: %v", err)
	}
	return nil
}

func init() {
	registerReplay("c17skips", func(c c17SliceCase) error { return runC17Skips(c) })
}

// A value outside the destination's width is an error wherever the destination
// sits: scalar, slice item, map value, behind a pointer.
type c17Narrow struct {
	A  []int32          `json:"a"`
	B  []int16          `json:"b"`
	M  map[string]int16 `json:"m"`
	P  *int32           `json:"p"`
	S  int16            `json:"s"`
	NI null.Int         `json:"ni"`
}

var c17NarrowSchema = `{"type":"record","name":"n","fields":[
 {"name":"a","type":{"type":"array","items":"long"}},{"name":"b","type":{"type":"array","items":"int"}},
 {"name":"m","type":{"type":"map","values":"long"}},{"name":"p","type":["null","long"]},{"name":"s","type":"long"},{"name":"ni","type":"long"}]}`

// runC17Narrow decodes a record whose values all fit, then the same record with
// one value (at position `where`) replaced by one that does not fit its field.
func runC17Narrow(c c17SliceCase) error {
	lib, err := avro.SchemaFromString(c17NarrowSchema)
	if err != nil {
		return fmt.Errorf("VERIF-INCONCLUSIVE harness: %v", err)
	}
	rs, _ := ref.ParseSchema([]byte(c17NarrowSchema))
	codec, err := lib.Codec(c17Narrow{})
	if err != nil {
		return fmt.Errorf("Schema.Codec: %v", err)
	}
	n := len(c.Ints)
	if n == 0 {
		return nil
	}
	build := func(bad int, badVal int64) ref.Datum {
		a, b, m := ref.Datum{K: "array"}, ref.Datum{K: "array"}, ref.Datum{K: "map"}
		for i, x := range c.Ints {
			va, vb, vm := int64(int32(x)), int64(int16(x)), int64(int16(x>>3))
			if bad == 0*n+i {
				va = badVal
			}
			if bad == 1*n+i {
				vb = badVal
			}
			if bad == 2*n+i {
				vm = badVal
			}
			a.Items = append(a.Items, ref.Long(va))
			b.Items = append(b.Items, ref.Int(vb))
			m.Keys, m.Vals = append(m.Keys, fmt.Sprintf("k%d", i)), append(m.Vals, ref.Long(vm))
		}
		p, s := int64(int32(c.Ints[0])), int64(int16(c.Ints[0]))
		if bad == 3*n {
			p = badVal
		}
		if bad == 3*n+1 {
			s = badVal
		}
		return ref.Datum{K: "record", Fields: []ref.Datum{a, b, m, ref.Union(1, ref.Long(p)), ref.Long(s), ref.Long(c.Ints[0])}}
	}
	decode := func(d ref.Datum) (c17Narrow, error) {
		body, err := ref.Encode(rs, d, nil)
		if err != nil {
			return c17Narrow{}, fmt.Errorf("VERIF-INCONCLUSIVE harness: %v", err)
		}
		var got c17Narrow
		rb := avro.NewReadBuf(body)
		err = codec.Read(rb, reflect.ValueOf(&got).UnsafePointer())
		return got, err
	}
	got, err := decode(build(-1, 0))
	if err != nil {
		return fmt.Errorf("a record whose values all fit their fields: %v", err)
	}
	for i, x := range c.Ints {
		if got.A[i] != int32(x) || got.B[i] != int16(x) || got.M[fmt.Sprintf("k%d", i)] != int16(x>>3) {
			return fmt.Errorf("item %d decoded as %d / %d / %d, want %d / %d / %d", i, got.A[i], got.B[i], got.M[fmt.Sprintf("k%d", i)], int32(x), int16(x), int16(x>>3))
		}
	}
	if got.P == nil || *got.P != int32(c.Ints[0]) || got.S != int16(c.Ints[0]) || !got.NI.Valid || got.NI.Int64 != c.Ints[0] {
		return fmt.Errorf("scalars decoded as %v / %d / %+v", got.P, got.S, got.NI)
	}
	// one value that does not fit: position and value from the case
	where := int(uint64(c.Ints[0]) % uint64(3*n+2))
	width := []int{32, 16, 16, 32, 16}[min(where/n, 3)+map[bool]int{true: 1, false: 0}[where == 3*n+1]]
	lo, hi := int64(math.MinInt32), int64(math.MaxInt32)
	if width == 16 {
		lo, hi = math.MinInt16, math.MaxInt16
	}
	if where/n == 1 && where < 3*n {
		// array<int> into []int16: the bad value still has to be a legal Avro int
		lo, hi = math.MinInt16, math.MaxInt16
	}
	for _, bad := range []int64{hi + 1, lo - 1, hi + 1 + int64(uint32(c.Ints[n-1])>>4), lo - 1 - int64(uint32(c.Ints[n-1])>>4)} {
		if where/n == 1 && where < 3*n && (bad > math.MaxInt32 || bad < math.MinInt32) {
			continue
		}
		if _, err := decode(build(where, bad)); err == nil {
			return fmt.Errorf("the value %d at position %d (a %d-bit destination: item of a, b, value of m, p, s in that order) was decoded without error", bad, where, width)
		}
	}
	return nil
}

func init() {
	registerReplay("c17narrow", func(c c17SliceCase) error { return runC17Narrow(c) })
}

// Columns declared "int" (other writers; hand-written schemas) read into 32-bit and
// 64-bit Go fields: a varint that does not fit the 32-bit destination is an error,
// whatever it would be after dropping its upper bits; a 64-bit destination gets the
// value the varint spells, or an error — never another value.
type c17IntCols struct {
	C []int32 `json:"c"`
	D int32   `json:"d"`
	E int64   `json:"e"`
	F int     `json:"f"`
	G int16   `json:"g"`
}

const c17IntColsSchema = `{"type":"record","name":"ic","fields":[{"name":"c","type":{"type":"array","items":"int"}},{"name":"d","type":"int"},{"name":"e","type":"int"},{"name":"f","type":{"type":"int"}},{"name":"g","type":"int"}]}`

func runC17IntCols(vals []int64) error {
	lib, err := avro.SchemaFromString(c17IntColsSchema)
	if err != nil {
		return fmt.Errorf("VERIF-INCONCLUSIVE harness: %v", err)
	}
	codec, err := lib.Codec(c17IntCols{})
	if err != nil {
		return fmt.Errorf("Schema.Codec: %v", err)
	}
	for _, v := range vals {
		for pos := 0; pos < 5; pos++ {
			// every column holds 7 except the one at pos
			col := func(i int) int64 {
				if i == pos {
					return v
				}
				return 7
			}
			body := ref.AppendLong(nil, 2)
			body = ref.AppendLong(ref.AppendLong(body, col(0)), 7)
			body = ref.AppendLong(body, 0)
			for i := 1; i < 5; i++ {
				body = ref.AppendLong(body, col(i))
			}
			var got c17IntCols
			rb := avro.NewReadBuf(body)
			err := codec.Read(rb, reflect.ValueOf(&got).UnsafePointer())
			fits := [5]bool{v >= math.MinInt32 && v <= math.MaxInt32, v >= math.MinInt32 && v <= math.MaxInt32, true, true, v >= math.MinInt16 && v <= math.MaxInt16}[pos]
			if !fits {
				if err == nil {
					return fmt.Errorf("an \"int\" column holding %d read into the narrower field at position %d (items of c []int32, d int32, e int64, f int, g int16) without an error: %+v", v, pos, got)
				}
				continue
			}
			if err != nil {
				if v >= math.MinInt32 && v <= math.MaxInt32 {
					return fmt.Errorf("an \"int\" column holding %d (position %d) is refused: %v", v, pos, err)
				}
				continue // beyond the schema's own range: refusing it is as good as delivering it
			}
			have := [5]int64{0, int64(got.D), got.E, int64(got.F), int64(got.G)}[pos]
			if pos == 0 {
				have = int64(got.C[0])
			}
			if have != v || rb.Len() != 0 {
				return fmt.Errorf("an \"int\" column holding %d (position %d) was read as %d with %d bytes left over", v, pos, have, rb.Len())
			}
		}
	}
	return nil
}

func TestC17IntCols(t *testing.T) {
	col := stats.New("C17")
	col.Rule = c17Rule
	defer col.Flush()
	var vals []int64
	for _, b := range boundaryInts() {
		vals = append(vals, b)
	}
	for k := uint(28); k <= 36; k++ {
		for _, d := range []int64{-9, -1, 0, 1, 5} {
			vals = append(vals, int64(1)<<k+d, -(int64(1)<<k)+d)
		}
	}
	err := protect(func() error { return runC17IntCols(vals) })
	col.Bulk(int64(len(vals) * 5))
	col.AddDistinct(int64(len(vals)))
	col.Label("int_columns")
	if err != nil {
		failCase(t, "C17", "c17intcols", struct{ N int }{len(vals)}, err)
	}
}

func init() {
	registerReplay("c17intcols", func(struct{ N int }) error {
		var vals []int64
		vals = append(vals, boundaryInts()...)
		for k := uint(28); k <= 36; k++ {
			for _, d := range []int64{-9, -1, 0, 1, 5} {
				vals = append(vals, int64(1)<<k+d, -(int64(1)<<k)+d)
			}
		}
		return runC17IntCols(vals)
	})
}
