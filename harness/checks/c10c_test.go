package checks

import (
	"bytes"
	"fmt"
	"reflect"
	"runtime"
	"testing"
	"time"
	"unsafe"

	"github.com/philpearl/avro"
	"pgregory.net/rapid"

	"verifh/gen"
	"verifh/spec"
	"verifh/stats"
)

// C10 (C): the application keeps decoded records but not the handles that came
// with them — the ReadBuf a value was decoded through is dropped without its bank
// ever being extracted, or the bank handed to a ReadFile callback is simply
// forgotten. A bank nobody closed has not been closed: whatever the collector and
// finalizers do with the forgotten handles, the records stay what was decoded,
// however many more records are decoded afterwards.

type forgetOp struct {
	Value int  `json:"value"` // index into the fixture's values
	How   int  `json:"how"`   // 0 ReadBuf dropped, bank never extracted; 1 bank extracted and forgotten; 2 extracted and closed (value not kept); 3 decoded through the case's one long-lived ReadBuf (Reset for every message, its bank never extracted)
	GC    bool `json:"gc"`    // collect (and let finalizers run) after this step
}

type forgetCase struct {
	Fixture int        `json:"fixture"`
	Ops     []forgetOp `json:"ops"`
	// File: instead, read the fixture's file Rounds times with a callback that keeps
	// every record and forgets its bank, collecting every GCEvery records.
	File    bool `json:"file,omitempty"`
	Rounds  int  `json:"rounds,omitempty"`
	GCEvery int  `json:"gc_every,omitempty"`
}

func init() {
	registerReplay("c10c", func(c forgetCase) error { _, _, err := runC10C(c); return err })
}

func collectAndFinalize() {
	runtime.GC()
	runtime.GC()
	time.Sleep(200 * time.Microsecond) // finalizers run on a goroutine of their own
	runtime.Gosched()
}

func runC10C(c forgetCase) (bool, []string, error) {
	c12Once.Do(c12Build)
	if c12Err != nil {
		return false, nil, fmt.Errorf("VERIF-INCONCLUSIVE fixtures: %v", c12Err)
	}
	f := c12Fixtures[c.Fixture%len(c12Fixtures)]
	type keptRec struct {
		v    reflect.Value
		want spec.AbsVal
		step int
	}
	var kept []keptRec
	check := func(when string) error {
		for _, k := range kept {
			if err := spec.Match(k.want, spec.Abs(f.ts, false, k.v), fmt.Sprintf("record kept since step %d", k.step)); err != nil {
				return fmt.Errorf("%s: a record whose bank was never closed (the handle was dropped, %d more steps were decoded) changed: %v", when, len(kept), err)
			}
		}
		return nil
	}
	gcs := 0
	if c.File {
		n := 0
		for round := 0; round < c.Rounds; round++ {
			i := 0
			err := avro.ReadFile(bytes.NewReader(f.file), reflect.New(f.typ).Elem().Interface(), func(val unsafe.Pointer, rb *avro.ResourceBank) error {
				v := reflect.New(f.typ).Elem()
				v.Set(reflect.NewAt(f.typ, val).Elem()) // the record is kept, rb is not
				if i < len(f.abs) {
					kept = append(kept, keptRec{v, f.abs[i], n})
				}
				i++
				n++
				if c.GCEvery > 0 && n%c.GCEvery == 0 {
					collectAndFinalize()
					gcs++
				}
				return nil
			})
			if err != nil {
				return true, nil, fmt.Errorf("ReadFile: %v", err)
			}
		}
		collectAndFinalize()
		return gcs > 0 && len(kept) > len(f.abs), []string{"file_banks_forgotten"}, check("after the reads")
	}
	shared := avro.NewReadBuf(nil)
	for step, op := range c.Ops {
		vi := op.Value % len(f.values)
		out := reflect.New(f.typ)
		rb := avro.NewReadBuf(f.bodies[vi])
		if op.How%4 == 3 {
			rb = shared
			rb.Reset(f.bodies[vi])
		}
		if err := f.codec.Read(rb, out.UnsafePointer()); err != nil {
			return true, nil, fmt.Errorf("step %d: decode: %v", step, err)
		}
		switch op.How % 4 {
		case 3:
			kept = append(kept, keptRec{out.Elem(), f.abs[vi], step})
		case 0:
			kept = append(kept, keptRec{out.Elem(), f.abs[vi], step})
		case 1:
			_ = rb.ExtractResourceBank()
			kept = append(kept, keptRec{out.Elem(), f.abs[vi], step})
		default:
			rb.ExtractResourceBank().Close()
		}
		rb = nil
		if op.GC {
			collectAndFinalize()
			gcs++
			if err := check(fmt.Sprintf("after step %d", step)); err != nil {
				return true, nil, err
			}
		}
	}
	collectAndFinalize()
	return gcs > 0 && len(kept) >= 2, []string{"readbufs_and_banks_forgotten"}, check("at the end")
}

func TestC10C(t *testing.T) {
	col := stats.New("C10")
	col.Rule = "(C) records decoded through Codec.Read / ReadFile are kept while the ReadBuf or bank handle they came with is dropped without being closed; collections (finalizers given time to run) at drawn steps, many more decodes in between; oracle: every kept record still denotes what was decoded; non-trivial = at least two kept records and one collection"
	propCheck(t, col, "c10c", func(t *rapid.T) forgetCase {
		c := forgetCase{Fixture: gen.Uniform(t, "fixture", 7)}
		if gen.Uniform(t, "file", 4) == 0 {
			c.File, c.Rounds, c.GCEvery = true, gen.UniformRange(t, "rounds", 2, 12), gen.UniformRange(t, "gcEvery", 1, 9)
			return c
		}
		n := gen.UniformRange(t, "nops", 4, 120)
		for i := 0; i < n; i++ {
			c.Ops = append(c.Ops, forgetOp{Value: gen.Uniform(t, "value", 5), How: gen.Uniform(t, "how", 4), GC: gen.Uniform(t, "gc", 8) == 0})
		}
		return c
	}, runC10C)
}
