package checks

import (
	"bytes"
	"encoding/binary"
	"errors"
	"fmt"
	"reflect"
	"regexp"
	"strings"
	"testing"
	"time"
	"unsafe"

	"github.com/philpearl/avro"
	"pgregory.net/rapid"

	"verifh/cat"
	"verifh/gen"
	"verifh/iso"
	"verifh/ref"
	"verifh/spec"
	"verifh/stats"
)

// C15 — schema generation is total, deterministic and follows the documented mapping.

const c15Rule = "rapid draws of Go struct types as data over the wide kind universe (supported kinds, other integer widths, unsigned, complex, Go arrays, non-string map keys, " +
	"interface/chan/func/unsafe.Pointer) with every tag combination, plus the committed catalogue of named types (reuse of a named struct, recursion, embedded and unexported fields, odd package path); " +
	"oracle: an independent model of the documented mapping (spec.ModelSchema) for the documented subset, 'must be an error' for inexpressible kinds, 'error or schema' for undocumented kinds; " +
	"determinism (two calls marshal identically; a RegisterSchema change and change back is reflected by enclosing types generated before), structural validity (no union in union, no repeated branch, named types defined once), Schema.Codec returns a codec or an error, marshal/parse stability; " +
	"non-trivial = >=2 nesting levels and one of: pointer to collection, omitempty on a pointer or registered type, registered type inside a collection, a tag with several options, a reused/recursive named type; distinct by type"

type c15Case struct {
	Type   spec.TypeSpec `json:"type"`
	GoType string        `json:"go_type"`
	// Flip: around this case the registered schema of the custom type is changed
	// and changed back: schema generation is a function of the type AND the
	// current registrations, for enclosing types seen before as well.
	Flip bool `json:"flip,omitempty"`
}

type c15Holder struct {
	A [5]uint16            `json:"a"`
	B [][5]uint16          `json:"b"`
	C map[string][5]uint16 `json:"c"`
}

func c15FlipCheck() error {
	gen1 := func() (string, error) {
		s, err := avro.SchemaForType(c15Holder{})
		if err != nil {
			return "", err
		}
		b, err := s.Marshal()
		return string(b), err
	}
	const plain = `{"type":"record","name":"c15Holder","namespace":"verifh.checks","fields":[{"name":"a","type":"bytes"},{"name":"b","type":{"type":"array","items":"bytes"}},{"name":"c","type":{"type":"map","values":"bytes"}}]}`
	const nullable = `{"type":"record","name":"c15Holder","namespace":"verifh.checks","fields":[{"name":"a","type":["null","bytes"]},{"name":"b","type":{"type":"array","items":["null","bytes"]}},{"name":"c","type":{"type":"map","values":["null","bytes"]}}]}`
	before, err := gen1()
	if err != nil || before != plain {
		return fmt.Errorf("schema of a type holding a registered type: %s (err %v)", before, err)
	}
	tmpl := toLib(ref.Nullable(ref.Prim("bytes")))
	avro.RegisterSchema(u16x5Type, tmpl)
	scrambleLibSchema(&tmpl) // the caller's own value, edited after the call
	during, err := gen1()
	avro.RegisterSchema(u16x5Type, toLib(ref.Prim("bytes")))
	if err != nil || during != nullable {
		return fmt.Errorf("after RegisterSchema changed the schema of [5]uint16, the schema of an enclosing type generated earlier still reads %s (err %v)", during, err)
	}
	after, err := gen1()
	if err != nil || after != plain {
		return fmt.Errorf("after the registration was changed back, the enclosing type's schema reads %s (err %v)", after, err)
	}
	return nil
}

func init() {
	registerReplay("c15", func(c c15Case) error { _, _, err := runC15(c); return err })
	registerIso("c15", func(c c15Case) error { _, _, err := runC15(c); return err })
	registerReplay("c15-iso", func(c c15Case) error {
		w, err := iso.NewWorker()
		if err != nil {
			return fmt.Errorf("VERIF-INCONCLUSIVE cannot start worker: %v", err)
		}
		defer w.Close()
		_, err = isoVerdict(w, "c15", c, 20*time.Second)
		return err
	})
	// witnesses of open known findings replay with the waiver switched off
	registerReplay("c15-strict", func(c c15Case) error {
		_, _, err := runC15With(c, true, func(zero interface{}) (avro.Schema, error) { return avro.SchemaForType(zero) })
		return err
	})
}

var unsupportedKinds = map[string]bool{"complex64": true, "complex128": true, "iface": true, "chan": true, "func": true, "unsafeptr": true}
var undocumentedKinds = map[string]bool{"int8": true, "uint": true, "uint8": true, "uint16": true, "uint32": true, "uint64": true, "uintptr": true,
	"barray": true, "array": true, "mapk": true, "recursive": true, "opaque": true}

var nsReplacer = strings.NewReplacer("/", ".", "-", "_")

func goNaming(t spec.TypeSpec) (string, string) { return t.TName, nsReplacer.Replace(t.TPkg) }

var avroNamespaceRE = regexp.MustCompile(`^[A-Za-z_][A-Za-z0-9_]*(\.[A-Za-z_][A-Za-z0-9_]*)*$`)

// countNamed counts occurrences of named struct types in the schema-visible tree.
func countNamed(t spec.TypeSpec, counts map[string]int) {
	if t.K == "struct" && t.TName != "" {
		counts[t.TPkg+"."+t.TName]++
	}
	if t.Elem != nil {
		countNamed(*t.Elem, counts)
	}
	for _, f := range t.Fields {
		if f.AvroName() != "" {
			countNamed(f.T, counts)
		}
	}
}

func c15Labels(ts spec.TypeSpec) (bool, []string) {
	var labels []string
	feature := false
	add := func(l string) { labels = append(labels, l); feature = true }
	if ts.Contains(spec.IsCollectionBehindPtr) {
		add("ptr_to_collection")
	}
	var walk func(t spec.TypeSpec)
	walk = func(t spec.TypeSpec) {
		for _, f := range t.Fields {
			if f.AvroName() == "" {
				continue
			}
			if f.OmitEmpty() && (f.T.K == "ptr" || f.T.IsRegistered()) {
				add("omitempty_on_ptr_or_registered")
			}
			if len(f.Opts) >= 2 {
				add("multi_option_tag")
			}
			walk(f.T)
		}
		if t.Elem != nil {
			if (t.K == "slice" || t.K == "map") && t.Elem.StripPtr().IsRegistered() {
				add("registered_in_collection")
			}
			walk(*t.Elem)
		}
	}
	walk(ts)
	counts := map[string]int{}
	countNamed(ts, counts)
	for _, n := range counts {
		if n > 1 {
			add("reused_named_type")
			break
		}
	}
	if ts.Contains(func(t spec.TypeSpec) bool { return t.K == "recursive" }) {
		add("recursive_type")
	}
	if ts.Contains(func(t spec.TypeSpec) bool { return unsupportedKinds[t.K] }) {
		labels = append(labels, "has_inexpressible_kind")
	}
	if ts.Contains(func(t spec.TypeSpec) bool { return undocumentedKinds[t.K] }) {
		labels = append(labels, "has_undocumented_kind")
	}
	return ts.Depth() >= 3 && feature, labels
}

// reusedNamedStruct is the class predicate of known finding KF-C15-1.
func reusedNamedStruct(ts spec.TypeSpec) bool {
	counts := map[string]int{}
	countNamed(ts, counts)
	for _, n := range counts {
		if n > 1 {
			return true
		}
	}
	return false
}

// c15Kept: the schema generated for the previous case's type, as returned, and what it said then.
var c15Kept struct {
	lib    avro.Schema
	want   ref.Schema
	goType string
	valid  bool
}

func runC15(c c15Case) (bool, []string, error) {
	return runC15With(c, false, func(zero interface{}) (avro.Schema, error) { return avro.SchemaForType(zero) })
}

func runC15With(c c15Case, strict bool, schemaForType func(interface{}) (avro.Schema, error)) (bool, []string, error) {
	ts := c.Type
	if ts.Cat != "" && cat.Get(ts.Cat) != nil {
		ts = cat.Get(ts.Cat).Spec
	}
	if c.Flip {
		if err := c15FlipCheck(); err != nil {
			return true, []string{"registration_flip"}, err
		}
	}
	nt, labels := c15Labels(ts)
	typ := spec.Build(ts)
	zero := reflect.New(typ).Elem().Interface()
	s1, err1 := schemaForType(zero)
	s2, err2 := schemaForType(reflect.New(typ).Interface()) // pointer form
	if (err1 == nil) != (err2 == nil) {
		return nt, labels, fmt.Errorf("SchemaForType(T) and SchemaForType(*T) disagree: %v vs %v", err1, err2)
	}
	// a typed nil pointer names the type just as well
	s0, err0 := schemaForType(reflect.Zero(reflect.PointerTo(typ)).Interface())
	if (err0 == nil) != (err1 == nil) {
		return nt, labels, fmt.Errorf("SchemaForType(T{}) and SchemaForType((*T)(nil)) disagree: %v vs %v", err1, err0)
	}
	if err0 == nil {
		if d := fromLib(s0).Diff(fromLib(s1), ""); d != "" {
			return nt, labels, fmt.Errorf("SchemaForType((*T)(nil)) gives a different schema: %s", d)
		}
	}
	mustErr := ts.Contains(func(t spec.TypeSpec) bool { return unsupportedKinds[t.K] })
	mayErr := ts.Contains(func(t spec.TypeSpec) bool { return undocumentedKinds[t.K] })
	if err1 != nil {
		if mustErr || mayErr {
			labels = append(labels, "refused")
			return nt, labels, nil
		}
		return nt, labels, fmt.Errorf("SchemaForType failed for a type of the documented subset: %v", err1)
	}
	if mustErr {
		return nt, labels, fmt.Errorf("SchemaForType returned a schema for a type it cannot express (contains complex/interface/chan/func/unsafe.Pointer)")
	}
	// deterministic
	b1, err := s1.Marshal()
	if err != nil {
		return nt, labels, fmt.Errorf("Marshal: %v", err)
	}
	b2, err := s2.Marshal()
	if err != nil {
		return nt, labels, fmt.Errorf("Marshal: %v", err)
	}
	if !bytes.Equal(b1, b2) {
		return nt, labels, fmt.Errorf("two calls give different schemas:\n%s\n%s", b1, b2)
	}
	got := fromLib(s1)
	// mapping
	if !mayErr {
		want, err := spec.ModelSchema(ts, goNaming)
		if err != nil {
			var u spec.ErrUndocumented
			if !errors.As(err, &u) {
				return nt, labels, fmt.Errorf("VERIF-INCONCLUSIVE harness: model failed: %v", err)
			}
		} else if d := got.Diff(want, ""); d != "" {
			return nt, labels, fmt.Errorf("schema differs from the documented mapping: %s\n got: %s", d, b1)
		}
	}
	// structurally valid
	if err := ref.Validate(got); err != nil {
		if strings.Contains(err.Error(), "defined more than once") && reusedNamedStruct(ts) && knownOpen("KF-C15-1") && !strict {
			labels = append(labels, "known_KF-C15-1")
		} else {
			return nt, labels, fmt.Errorf("generated schema is not structurally valid: %v\n%s", err, b1)
		}
	}
	if got.Namespace != "" && !avroNamespaceRE.MatchString(got.Namespace) {
		labels = append(labels, "namespace_not_avro_grammar")
	}
	// marshal -> parse stability (feeds C14's clause on generated schemas)
	rp, err := ref.ParseSchema(b1)
	if err != nil {
		return nt, labels, fmt.Errorf("reference parser rejects the marshalled schema: %v\n%s", err, b1)
	}
	if d := rp.Diff(got, ""); d != "" {
		return nt, labels, fmt.Errorf("marshalled schema differs from the schema value: %s", d)
	}
	s3, err := avro.SchemaFromString(string(b1))
	if err != nil {
		return nt, labels, fmt.Errorf("SchemaFromString rejects the marshalled schema: %v", err)
	}
	if d := fromLib(s3).Diff(got, ""); d != "" {
		return nt, labels, fmt.Errorf("parse(marshal(schema)) differs: %s", d)
	}
	// usable: a codec or an error, never a panic (protect() turns a panic into a failure)
	if _, err := s1.Codec(zero); err != nil {
		if !mayErr {
			return nt, labels, fmt.Errorf("Schema.Codec refuses the schema generated for its own type: %v", err)
		}
		labels = append(labels, "codec_refused")
	}
	// a result stays what it was while schemas of other types are generated: the one kept
	// from the previous case is looked at again now, and this case's is kept for the next
	if c15Kept.valid {
		if d := fromLib(c15Kept.lib).Diff(c15Kept.want, ""); d != "" {
			return nt, labels, fmt.Errorf("the schema generated for the previous type (%s) changed while this type's schema was generated: %s", c15Kept.goType, d)
		}
	}
	if keep, err := schemaForType(zero); err == nil {
		c15Kept.lib, c15Kept.want, c15Kept.goType, c15Kept.valid = keep, fromLib(keep), c.GoType, true
	}
	// deterministic also after the caller has edited the value it was given (a
	// schema is a plain value; BigQuery users mark columns as timestamps this way)
	scrambleLibSchema(&s1)
	s4, err := schemaForType(zero)
	if err != nil {
		return nt, labels, fmt.Errorf("SchemaForType fails after the caller edited an earlier result: %v", err)
	}
	if d := fromLib(s4).Diff(got, ""); d != "" {
		return nt, labels, fmt.Errorf("after the caller edited the schema an earlier call returned, SchemaForType gives a different schema for the same type: %s", d)
	}
	return nt, labels, nil
}

// An unnamed composite type with a registered schema and codec: registrations
// are keyed by reflect.Type, a type need not be a defined type with a package
// path to have one. (Go arrays of length 5 are never generated otherwise.)
type u16x5Codec struct{}

func (u16x5Codec) Read(r *avro.ReadBuf, p unsafe.Pointer) error {
	b, err := r.Next(10)
	if err != nil {
		return err
	}
	copy(unsafe.Slice((*byte)(p), 10), b)
	return nil
}
func (u16x5Codec) Skip(r *avro.ReadBuf) error         { _, err := r.Next(10); return err }
func (u16x5Codec) New(r *avro.ReadBuf) unsafe.Pointer { return r.Alloc(u16x5Type) }
func (u16x5Codec) Omit(p unsafe.Pointer) bool         { return false }
func (u16x5Codec) Write(w *avro.WriteBuf, p unsafe.Pointer) {
	b := unsafe.Slice((*byte)(p), 10)
	avro.BytesCodec{}.Write(w, unsafe.Pointer(&b))
}

var u16x5Type = reflect.TypeOf([5]uint16{})

func init() {
	schema := ref.Prim("bytes") // unnamed, so that using the type twice defines nothing twice (cf. KF-C15-1)
	avro.Register(u16x5Type, func(s avro.Schema, typ reflect.Type, omit bool) (avro.Codec, error) {
		if s.Type != "bytes" {
			return nil, fmt.Errorf("[5]uint16 needs a bytes schema")
		}
		return u16x5Codec{}, nil
	})
	avro.RegisterSchema(u16x5Type, toLib(schema))
	spec.Custom["cu16x5"] = &spec.CustomKind{
		Type: u16x5Type, Schema: schema, Base: "int64",
		Set: func(dst reflect.Value, v spec.ValueSpec) { dst.Index(0).SetUint(uint64(uint16(v.I))) },
		Abs: func(v reflect.Value) spec.AbsVal {
			b := make([]byte, 10)
			for i := 0; i < 5; i++ {
				b[2*i], b[2*i+1] = byte(v.Index(i).Uint()), byte(v.Index(i).Uint()>>8)
			}
			return spec.AbsVal{K: "bytes", S: b}
		},
	}
}

// A second unnamed composite type, registered with a *named* schema carrying a
// size: what the registry hands back must be the schema that was registered,
// attribute for attribute.
type u32x3Codec struct{}

func (u32x3Codec) Read(r *avro.ReadBuf, p unsafe.Pointer) error {
	b, err := r.Next(12)
	if err != nil {
		return err
	}
	copy(unsafe.Slice((*byte)(p), 12), b)
	return nil
}
func (u32x3Codec) Skip(r *avro.ReadBuf) error               { _, err := r.Next(12); return err }
func (u32x3Codec) New(r *avro.ReadBuf) unsafe.Pointer       { return r.Alloc(u32x3Type) }
func (u32x3Codec) Omit(p unsafe.Pointer) bool               { return false }
func (u32x3Codec) Write(w *avro.WriteBuf, p unsafe.Pointer) { w.Write(unsafe.Slice((*byte)(p), 12)) }

var u32x3Type = reflect.TypeOf([3]uint32{})

func init() {
	schema := ref.Schema{Kind: "fixed", Name: "u32x3", Namespace: "verifh.registered", Size: 12}
	avro.Register(u32x3Type, func(s avro.Schema, typ reflect.Type, omit bool) (avro.Codec, error) {
		if s.Type != "fixed" || s.Object == nil || s.Object.Size != 12 {
			return nil, fmt.Errorf("[3]uint32 needs a fixed schema of size 12, got %+v", s)
		}
		return u32x3Codec{}, nil
	})
	avro.RegisterSchema(u32x3Type, toLib(schema))
	spec.Custom["cu32x3"] = &spec.CustomKind{
		Type: u32x3Type, Schema: schema, Base: "int64",
		Set: func(dst reflect.Value, v spec.ValueSpec) { dst.Index(0).SetUint(uint64(uint32(v.I))) },
		Abs: func(v reflect.Value) spec.AbsVal {
			b := make([]byte, 12)
			for i := 0; i < 3; i++ {
				binary.LittleEndian.PutUint32(b[4*i:], uint32(v.Index(i).Uint()))
			}
			return spec.AbsVal{K: "bytes", S: b}
		},
	}
}

// onceOnly keeps the first use of a custom leaf and turns later ones into
// another: a named schema used twice is the open finding KF-C15-1, which has its
// own check.
func onceOnly(ts *spec.TypeSpec, kind, other string, seen *bool) {
	// the generator's own [3]uint32 arrays ARE the registered type
	natural := kind == "cu32x3" && ts.K == "array" && ts.N == 3 && ts.Elem != nil && ts.Elem.K == "uint32"
	if ts.K == kind || natural {
		if *seen {
			*ts = spec.TypeSpec{K: other}
			return
		}
		*seen = true
		if natural {
			return
		}
	}
	if ts.Elem != nil {
		onceOnly(ts.Elem, kind, other, seen)
	}
	for i := range ts.Fields {
		onceOnly(&ts.Fields[i].T, kind, other, seen)
	}
}

func drawC15(t *rapid.T) c15Case {
	o := gen.TypeOpts{MaxDepth: 4, MaxFields: 5, SkipFields: true, Wide: true,
		Leaves: []string{"bool", "int", "int16", "int32", "int64", "float32", "float64", "string", "bytes",
			"time", "nullInt", "nullBool", "nullFloat", "nullString", "nullTime", "cu16x5", "cu32x3"}}
	if thorough() {
		o.MaxDepth = 6
		o.MaxFields = 6
	}
	var c c15Case
	if rapid.IntRange(0, 9).Draw(t, "useCatalogue") == 0 {
		// recursive catalogue types are evaluated out of process (TestC15Recursive)
		var names []string
		for _, n := range cat.Names(false) {
			if !cat.Get(n).Spec.Contains(func(t spec.TypeSpec) bool { return t.K == "recursive" }) {
				names = append(names, n)
			}
		}
		c.Type = cat.Get(rapid.SampledFrom(names).Draw(t, "cat")).Spec
	} else if gen.Uniform(t, "deepChain", 80) == 0 {
		// structs nested in one another tens or hundreds of levels deep (directly, or
		// through a pointer, slice or map), nothing self-referential about them
		depth := []int{20, 33, 40, 64, 130, 300}[gen.Uniform(t, "chainDepth", 6)]
		inner := spec.Struct(spec.FieldSpec{Go: "Leaf", JSON: "leaf", T: spec.T("int64")})
		for i := 0; i < depth; i++ {
			ft := inner
			switch (i + depth) % 4 {
			case 1:
				ft = spec.Ptr(inner)
			case 2:
				ft = spec.Slice(inner)
			case 3:
				ft = spec.Map(inner)
			}
			inner = spec.Struct(spec.FieldSpec{Go: "A", JSON: "a", T: spec.T("string")}, spec.FieldSpec{Go: "N", JSON: fmt.Sprintf("n%d", i), T: ft})
		}
		c.Type = inner
	} else {
		c.Type = gen.StructType(t, o, 1)
		seen := false
		onceOnly(&c.Type, "cu32x3", "cu16x5", &seen)
	}
	c.GoType = c.Type.GoString()
	c.Flip = gen.Uniform(t, "flip", 50) == 0
	return c
}

// TestC15Recursive evaluates the self- and mutually-referential catalogue
// types in a worker process: on such types the failure mode is a stack
// overflow, which kills the process and cannot be recovered in-process.
func TestC15Recursive(t *testing.T) {
	col := stats.New("C15")
	col.Rule = c15Rule
	defer col.Flush()
	w, err := iso.NewWorker()
	if err != nil {
		t.Fatalf("VERIF-INCONCLUSIVE cannot start worker: %v", err)
	}
	defer w.Close()
	for _, n := range cat.Names(false) {
		sp := cat.Get(n).Spec
		if !sp.Contains(func(t spec.TypeSpec) bool { return t.K == "recursive" }) {
			continue
		}
		c := c15Case{Type: spec.TypeSpec{K: "struct", Cat: n}, GoType: "cat." + n + " " + sp.GoString()}
		col.Record(c, true, "recursive_type")
		if _, err := isoVerdict(w, "c15", c, 20*time.Second); err != nil {
			failCase(t, "C15", "c15-iso", c, fmt.Errorf("SchemaForType on a self-referential type: %v", err))
		}
	}
}

func TestC15(t *testing.T) {
	col := stats.New("C15")
	col.Rule = c15Rule
	propCheck(t, col, "c15", drawC15, runC15)
}
