package checks

import (
	"bytes"
	"fmt"
	"reflect"
	"runtime"
	"sort"
	"testing"
	"time"
	"unsafe"

	"github.com/philpearl/avro"
	"pgregory.net/rapid"

	"verifh/gen"
	"verifh/spec"
	"verifh/stats"
)

// C10 — delivered values stay intact until their resource bank is closed.

const c10Rule = "(A) rapid draws of multi-block files of every codec (strings, bytes, pointers, slices, maps, nested structs; written by the library's encoder) read with a generated retention plan: " +
	"each record's shallow copy and bank are kept and the bank is closed at a drawn later record, at the end, or never; the callback may stop the read with an error at a drawn record, and a second read of the file may follow; after EVERY callback and at the end every retained record whose bank is still open must denote what it denoted when delivered; " +
	"(B) rapid draws of histories on the bank API over several ReadBufs: Alloc(type) then fill, NextAsString / ToString, ExtractResourceBank, Close (once per bank), new ReadBuf, forced GC; " +
	"every pointer from Alloc is all-zero on return and disjoint from every live allocation, every live allocation and interned string still holds what was put there after every step; " +
	"non-trivial = (A) a retained record compared after a later block was decoded and a bank was closed and re-obtained, (B) an allocation made after a Close while another bank is live; distinct by case JSON hash"

// ---------------------------------------------------------------------------
// (A) retention plans over files

type retainCase struct {
	Enc     encCase `json:"enc"`
	CloseAt []int   `json:"close_at"` // per record: -1 never, otherwise the number of records after which its bank is closed (1 = right after the next record)
	GCEvery int     `json:"gc_every"` // force a collection every n callbacks (0 = never): empties the sync.Pool now and then
	// StopAt: the callback returns an error at this record (-1 never): the
	// caller still owns every bank it was handed, including that record's.
	StopAt int `json:"stop_at"`
	// SecondRead: after ReadFile returned, read the file again (banks come out
	// of the pool again) and re-verify what the first read retained.
	SecondRead bool `json:"second_read"`
}

func init() {
	registerReplay("c10a", func(c retainCase) error { _, _, err := runC10A(c); return err })
	registerReplay("c10b", func(c bankCase) error { _, _, err := runC10B(c); return err })
}

func runC10A(c retainCase) (bool, []string, error) {
	file, written, err := encodeCase(c.Enc)
	if err != nil {
		return false, nil, err
	}
	blocks := countBlocks(file)
	ts := c.Enc.Type
	typ := spec.Build(ts)
	type kept struct {
		v        reflect.Value
		bank     *avro.ResourceBank
		want     spec.AbsVal
		closeAt  int
		open     bool
		index    int
		verified int
	}
	var all []*kept
	closed := 0
	var failure error
	verify := func(when string) {
		for _, k := range all {
			if !k.open || failure != nil {
				continue
			}
			if err := spec.Match(k.want, spec.AbsStrict(ts, false, k.v), fmt.Sprintf("record[%d]", k.index)); err != nil {
				failure = fmt.Errorf("%s: a record whose bank is still open changed: %v", when, err)
			}
			k.verified++
		}
	}
	n := 0
	// one caller-owned struct passed by pointer to both reads, or a fresh value each time
	out1, out2 := reflect.New(typ).Elem().Interface(), reflect.New(typ).Elem().Interface()
	if c.GCEvery%2 == 1 || len(c.CloseAt)%3 == 0 {
		p := reflect.New(typ)
		out1, out2 = p.Interface(), p.Interface()
	}
	rerr := avro.ReadFile(bytes.NewReader(file), out1, func(val unsafe.Pointer, rb *avro.ResourceBank) error {
		cp := reflect.New(typ).Elem()
		cp.Set(reflect.NewAt(typ, val).Elem())
		k := &kept{v: cp, bank: rb, want: spec.AbsStrict(ts, false, cp), closeAt: -1, open: true, index: n}
		if n < len(written) && failure == nil {
			// "a later record never inherits field values from an earlier one": at
			// delivery the record is what was written
			if err := spec.Match(written[n], k.want, fmt.Sprintf("record[%d] at delivery", n)); err != nil {
				failure = err
			}
		}
		if n < len(c.CloseAt) && c.CloseAt[n] >= 0 {
			k.closeAt = n + c.CloseAt[n]
		}
		all = append(all, k)
		// close the banks that are due (never the one just delivered: closeAt > its own index)
		for _, o := range all {
			if o.open && o.closeAt >= 0 && o.closeAt <= n && o != k {
				o.bank.Close()
				o.open = false
				closed++
			}
		}
		if c.GCEvery > 0 && n%c.GCEvery == c.GCEvery-1 {
			runtime.GC()
		}
		verify(fmt.Sprintf("after callback %d", n))
		n++
		if failure != nil {
			return failure
		}
		if c.StopAt >= 0 && n-1 == c.StopAt {
			return errSentinel
		}
		return nil
	})
	if failure != nil {
		return true, nil, failure
	}
	if rerr != nil && !(c.StopAt >= 0 && rerr == errSentinel) {
		return false, nil, fmt.Errorf("ReadFile: %v", rerr)
	}
	verify("after ReadFile returned")
	if failure == nil {
		// "disjoint from every other live allocation": what the records still open point
		// to (pointer targets, slice backing arrays) never overlaps
		var spans []memSpan
		for _, k := range all {
			if k.open {
				collectSpans(k.v, fmt.Sprintf("record[%d]", k.index), &spans)
			}
		}
		if err := spansDisjoint(spans); err != nil {
			failure = err
		}
	}
	if c.SecondRead && failure == nil {
		// more decoding after the first read ended (possibly early): new banks are
		// taken from the pool, blocks are decompressed into fresh buffers
		var sink []spec.AbsVal
		var banks2 []*avro.ResourceBank
		k := 0
		err2 := avro.ReadFile(bytes.NewReader(file), out2, func(val unsafe.Pointer, rb *avro.ResourceBank) error {
			sink = append(sink, spec.Abs(ts, false, reflect.NewAt(typ, val).Elem()))
			if k < len(all) && failure == nil {
				// the same file: the second read delivers what the first one did
				if err := spec.Match(all[k].want, sink[k], fmt.Sprintf("second read, record[%d]", k)); err != nil {
					failure = err
				}
			}
			banks2 = append(banks2, rb)
			k++
			if k%2 == 0 {
				// close every other bank of the second read right away
				rb.Close()
				banks2 = banks2[:len(banks2)-1]
			}
			verify(fmt.Sprintf("during the second read, record %d", k-1))
			if failure != nil {
				return failure
			}
			return nil
		})
		if failure == nil && err2 != nil {
			return false, nil, fmt.Errorf("second ReadFile: %v", err2)
		}
		verify("after the second read")
		runtime.KeepAlive(banks2)
	}
	if failure != nil {
		return true, nil, failure
	}
	labels := []string{"codec_" + c.Enc.Compression}
	if blocks >= 2 {
		labels = append(labels, "multi_block")
	}
	if closed > 0 {
		labels = append(labels, "banks_closed_during_read")
	}
	longLived := false
	for _, k := range all {
		if k.verified >= 3 {
			longLived = true
		}
	}
	return blocks >= 2 && closed > 0 && longLived, labels, nil
}

func drawRetain(t *rapid.T) retainCase {
	var c retainCase
	c.Enc = drawEncCase(t)
	c.Enc.Repeat = 0
	// more records and small blocks: the interesting histories need several blocks
	n := gen.UniformRange(t, "nrecords2", 2, 10)
	c.Enc.Records = gen.Records(t, c.Enc.Type, n, gen.ValueOpts{MaxElems: 3})
	c.Enc.FlushAfter = nil
	c.Enc.BlockSize = []int{0, 1, 16, 60, 200}[gen.Uniform(t, "blocksize2", 5)]
	for i := 0; i < n; i++ {
		switch gen.Uniform(t, "retain", 4) {
		case 0:
			c.CloseAt = append(c.CloseAt, -1)
		default:
			c.CloseAt = append(c.CloseAt, gen.UniformRange(t, "closeAfter", 1, 4))
		}
	}
	c.GCEvery = gen.Uniform(t, "gcEvery", 4)
	c.StopAt = -1
	if gen.Uniform(t, "stop", 3) == 0 {
		c.StopAt = gen.Uniform(t, "stopAt", n)
	}
	c.SecondRead = gen.Uniform(t, "secondRead", 2) == 0
	return c
}

func TestC10A(t *testing.T) {
	col := stats.New("C10")
	col.Rule = c10Rule
	propCheck(t, col, "c10a", drawRetain, runC10A)
}

// ---------------------------------------------------------------------------
// (B) bank API histories

type bankOp struct {
	Op   string `json:"op"`   // newbuf, alloc, string, extract, close, gc
	Buf  int    `json:"buf"`  // which ReadBuf (mod number of bufs)
	Type int    `json:"type"` // alloc: index into bankTypes
	Bank int    `json:"bank"` // close: which extracted, still-open bank (mod count)
	Data []byte `json:"data,omitempty"`
	Seed byte   `json:"seed"`
}

type bankCase struct {
	Ops []bankOp `json:"ops"`
}

type withPtr struct {
	P *int64
	S string
	N int32
	B []byte
}

var bankTypes = []reflect.Type{
	reflect.TypeOf(int64(0)), reflect.TypeOf(int16(0)), reflect.TypeOf(""), reflect.TypeOf([24]byte{}),
	reflect.TypeOf(withPtr{}), reflect.TypeOf((*int64)(nil)), reflect.TypeOf([]byte(nil)), reflect.TypeOf(map[string]int(nil)), reflect.TypeOf(struct{}{}),
	reflect.TypeOf([3]uint16{}),
}

type liveAlloc struct {
	ptr   unsafe.Pointer
	typ   reflect.Type
	token int
	want  interface{} // value stored (compared with reflect.DeepEqual)
	step  int
}

type liveString struct {
	s     string
	want  string
	token int
}

func fillValue(typ reflect.Type, seed byte) reflect.Value {
	v := reflect.New(typ).Elem()
	switch typ.Kind() {
	case reflect.Int64, reflect.Int16:
		v.SetInt(int64(seed) + 1)
	case reflect.String:
		v.SetString(string(bytes.Repeat([]byte{'a' + seed%26}, int(seed%40)+1)))
	case reflect.Array:
		for i := 0; i < v.Len(); i++ {
			v.Index(i).SetUint(uint64(seed) + uint64(i) + 1)
		}
	case reflect.Struct:
		if typ.NumField() == 0 {
			return v
		}
		x := int64(seed) + 7
		v.Field(0).Set(reflect.ValueOf(&x))
		v.Field(1).SetString(fmt.Sprintf("str-%d", seed))
		v.Field(2).SetInt(int64(seed) + 3)
		v.Field(3).SetBytes(bytes.Repeat([]byte{seed | 1}, int(seed%9)+1))
	case reflect.Ptr:
		x := int64(seed) + 11
		v.Set(reflect.ValueOf(&x))
	case reflect.Slice:
		v.SetBytes(bytes.Repeat([]byte{seed | 1}, int(seed%17)+1))
	case reflect.Map:
		v.Set(reflect.ValueOf(map[string]int{"k": int(seed) + 1}))
	}
	return v
}

func runC10B(c bankCase) (bool, []string, error) {
	type buf struct {
		rb    *avro.ReadBuf
		token int
	}
	type bank struct {
		b     *avro.ResourceBank
		token int
	}
	nextToken := 0
	newToken := func() int { nextToken++; return nextToken }
	var bufs []*buf
	var banks []*bank // extracted, still open
	var allocs []*liveAlloc
	var strs []*liveString
	closedAny := false
	nontrivial := false
	closes, allocsAfterClose := 0, 0

	check := func(step int, what string) error {
		for _, a := range allocs {
			got := reflect.NewAt(a.typ, a.ptr).Elem().Interface()
			if !reflect.DeepEqual(got, a.want) {
				return fmt.Errorf("step %d (%s): allocation of %s made at step %d (bank still open) now holds %v, it was filled with %v", step, what, a.typ, a.step, got, a.want)
			}
		}
		for _, s := range strs {
			if s.s != s.want {
				return fmt.Errorf("step %d (%s): interned string now reads %q, was %q", step, what, s.s, s.want)
			}
		}
		return nil
	}
	dropToken := func(tok int) {
		var a2 []*liveAlloc
		for _, a := range allocs {
			if a.token != tok {
				a2 = append(a2, a)
			}
		}
		allocs = a2
		var s2 []*liveString
		for _, s := range strs {
			if s.token != tok {
				s2 = append(s2, s)
			}
		}
		strs = s2
	}
	for step, op := range c.Ops {
		if len(bufs) == 0 && op.Op != "newbuf" {
			op.Op = "newbuf"
		}
		switch op.Op {
		case "newbuf":
			data := op.Data
			if len(data) == 0 {
				data = []byte("some bytes to intern as strings 0123456789")
			}
			bufs = append(bufs, &buf{rb: avro.NewReadBuf(append([]byte(nil), data...)), token: newToken()})
		case "alloc":
			b := bufs[op.Buf%len(bufs)]
			typ := bankTypes[op.Type%len(bankTypes)]
			p := b.rb.Alloc(typ)
			size := typ.Size()
			if p == nil {
				return nontrivial, nil, fmt.Errorf("step %d: Alloc(%s) returned nil", step, typ)
			}
			if size > 0 {
				mem := unsafe.Slice((*byte)(p), size)
				for i, x := range mem {
					if x != 0 {
						return true, nil, fmt.Errorf("step %d: Alloc(%s) returned memory that is not zeroed (byte %d = %#x)", step, typ, i, x)
					}
				}
				lo, hi := uintptr(p), uintptr(p)+size
				for _, a := range allocs {
					alo, ahi := uintptr(a.ptr), uintptr(a.ptr)+a.typ.Size()
					if a.typ.Size() > 0 && lo < ahi && alo < hi {
						return true, nil, fmt.Errorf("step %d: Alloc(%s) returned [%#x,%#x) which overlaps the live allocation of %s from step %d [%#x,%#x)", step, typ, lo, hi, a.typ, a.step, alo, ahi)
					}
				}
			}
			v := fillValue(typ, op.Seed)
			reflect.NewAt(typ, p).Elem().Set(v)
			allocs = append(allocs, &liveAlloc{ptr: p, typ: typ, token: b.token, want: v.Interface(), step: step})
			if closedAny {
				allocsAfterClose++
				if len(banks) > 0 || len(bufs) > 1 {
					nontrivial = true
				}
			}
		case "string":
			b := bufs[op.Buf%len(bufs)]
			n := int(op.Seed % 12)
			if n > b.rb.Len() {
				n = b.rb.Len()
			}
			s, err := b.rb.NextAsString(n)
			if err != nil {
				return nontrivial, nil, fmt.Errorf("step %d: NextAsString(%d) with %d bytes left: %v", step, n, b.rb.Len(), err)
			}
			strs = append(strs, &liveString{s: s, want: string(append([]byte(nil), s...)), token: b.token})
		case "extract":
			b := bufs[op.Buf%len(bufs)]
			rb := b.rb.ExtractResourceBank()
			if rb == nil {
				return nontrivial, nil, fmt.Errorf("step %d: ExtractResourceBank returned nil", step)
			}
			banks = append(banks, &bank{b: rb, token: b.token})
			b.token = newToken()
		case "close":
			if len(banks) == 0 {
				continue
			}
			i := op.Bank % len(banks)
			bk := banks[i]
			dropToken(bk.token) // its memory may now be re-used: stop watching it
			bk.b.Close()
			banks = append(banks[:i], banks[i+1:]...)
			closedAny = true
			closes++
		case "bankalloc":
			// allocate directly on an extracted bank
			if len(banks) == 0 {
				continue
			}
			bk := banks[op.Bank%len(banks)]
			typ := bankTypes[op.Type%len(bankTypes)]
			p := bk.b.Alloc(typ)
			if typ.Size() > 0 {
				for i, x := range unsafe.Slice((*byte)(p), typ.Size()) {
					if x != 0 {
						return true, nil, fmt.Errorf("step %d: ResourceBank.Alloc(%s) returned memory that is not zeroed (byte %d = %#x)", step, typ, i, x)
					}
				}
				lo, hi := uintptr(p), uintptr(p)+typ.Size()
				for _, a := range allocs {
					alo, ahi := uintptr(a.ptr), uintptr(a.ptr)+a.typ.Size()
					if a.typ.Size() > 0 && lo < ahi && alo < hi {
						return true, nil, fmt.Errorf("step %d: ResourceBank.Alloc(%s) overlaps the live allocation from step %d", step, typ, a.step)
					}
				}
			}
			v := fillValue(typ, op.Seed)
			reflect.NewAt(typ, p).Elem().Set(v)
			allocs = append(allocs, &liveAlloc{ptr: p, typ: typ, token: bk.token, want: v.Interface(), step: step})
		case "bankstring":
			if len(banks) == 0 {
				continue
			}
			bk := banks[op.Bank%len(banks)]
			src := bytes.Repeat([]byte{'A' + op.Seed%26}, int(op.Seed%30))
			s := bk.b.ToString(src)
			for i := range src {
				src[i] = '!' // the caller's buffer is re-used: the string must not alias it
			}
			strs = append(strs, &liveString{s: s, want: string(bytes.Repeat([]byte{'A' + op.Seed%26}, int(op.Seed%30))), token: bk.token})
		case "gc":
			runtime.GC()
		}
		if err := check(step, op.Op); err != nil {
			return true, nil, err
		}
	}
	labels := []string{}
	if closes > 0 {
		labels = append(labels, "bank_closed")
	}
	if allocsAfterClose > 0 {
		labels = append(labels, "alloc_after_close")
	}
	runtime.KeepAlive(bufs)
	return nontrivial, labels, nil
}

func drawBankCase(t *rapid.T) bankCase {
	var c bankCase
	n := gen.UniformRange(t, "nops", 5, 80)
	for i := 0; i < n; i++ {
		op := bankOp{
			Op:   []string{"alloc", "alloc", "alloc", "string", "extract", "close", "newbuf", "gc", "bankalloc", "bankstring", "alloc", "extract", "close"}[gen.Uniform(t, "op", 13)],
			Buf:  gen.Uniform(t, "buf", 4),
			Type: gen.Uniform(t, "type", len(bankTypes)),
			Bank: gen.Uniform(t, "bank", 4),
			Seed: byte(gen.Uniform(t, "seed", 256)),
		}
		if op.Op == "gc" && gen.Uniform(t, "reallyGC", 4) != 0 {
			op.Op = "alloc"
		}
		c.Ops = append(c.Ops, op)
	}
	return c
}

func TestC10B(t *testing.T) {
	col := stats.New("C10")
	col.Rule = c10Rule
	propCheck(t, col, "c10b", drawBankCase, runC10B)
}

// memSpan is a piece of memory a decoded value owns through a pointer or a slice.
type memSpan struct {
	lo, hi uintptr
	what   string
}

// collectSpans walks a decoded value and records the target of every non-nil
// pointer and the backing array of every non-empty slice (strings are left out:
// they are immutable and may legitimately share storage). Zero-size targets
// are left out too (Go gives them all the same address).
func collectSpans(v reflect.Value, path string, out *[]memSpan) {
	switch v.Kind() {
	case reflect.Ptr:
		if v.IsNil() {
			return
		}
		if sz := v.Type().Elem().Size(); sz > 0 {
			*out = append(*out, memSpan{v.Pointer(), v.Pointer() + sz, path})
		}
		collectSpans(v.Elem(), "*"+path, out)
	case reflect.Slice:
		if v.Len() == 0 {
			return
		}
		if sz := v.Type().Elem().Size(); sz > 0 {
			*out = append(*out, memSpan{v.Pointer(), v.Pointer() + uintptr(v.Len())*sz, path})
		}
		if k := v.Type().Elem().Kind(); k == reflect.Ptr || k == reflect.Slice || k == reflect.Struct || k == reflect.Map || k == reflect.Array {
			for i := 0; i < v.Len(); i++ {
				collectSpans(v.Index(i), fmt.Sprintf("%s[%d]", path, i), out)
			}
		}
	case reflect.Array:
		for i := 0; i < v.Len(); i++ {
			collectSpans(v.Index(i), fmt.Sprintf("%s[%d]", path, i), out)
		}
	case reflect.Struct:
		if v.Type() == reflect.TypeOf(time.Time{}) {
			return
		}
		for i := 0; i < v.NumField(); i++ {
			if v.Type().Field(i).IsExported() {
				collectSpans(v.Field(i), path+"."+v.Type().Field(i).Name, out)
			}
		}
	case reflect.Map:
		it := v.MapRange()
		for it.Next() {
			collectSpans(it.Value(), fmt.Sprintf("%s[%q]", path, it.Key().String()), out)
		}
	}
}

func spansDisjoint(spans []memSpan) error {
	sort.Slice(spans, func(i, j int) bool { return spans[i].lo < spans[j].lo })
	for i := 1; i < len(spans); i++ {
		if spans[i].lo < spans[i-1].hi {
			return fmt.Errorf("two live allocations overlap: %s (%#x-%#x) and %s (%#x-%#x)", spans[i-1].what, spans[i-1].lo, spans[i-1].hi, spans[i].what, spans[i].lo, spans[i].hi)
		}
	}
	return nil
}
