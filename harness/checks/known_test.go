package checks

import (
	"encoding/json"
	"os"
	"path/filepath"
	"sync"
)

// known_findings.json is read-only at run time.
type knownFinding struct {
	ID       string `json:"id"`
	Property string `json:"property"`
	What     string `json:"what"`
	Witness  string `json:"witness"`
	Class    string `json:"class"`
}

var (
	knownOnce sync.Once
	knownSet  map[string]knownFinding
)

func knownOpen(id string) bool {
	knownOnce.Do(func() {
		knownSet = map[string]knownFinding{}
		b, err := os.ReadFile(filepath.Join(verifRoot(), "known_findings.json"))
		if err != nil {
			return
		}
		var f struct {
			Open []knownFinding `json:"open"`
		}
		if json.Unmarshal(b, &f) == nil {
			for _, k := range f.Open {
				knownSet[k.ID] = k
			}
		}
	})
	_, ok := knownSet[id]
	return ok
}
