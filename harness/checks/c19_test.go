package checks

import (
	"bytes"
	"fmt"
	"math"
	"reflect"
	"testing"
	"time"
	"unsafe"

	"github.com/philpearl/avro"
	"pgregory.net/rapid"

	"verifh/gen"
	"verifh/ref"
	"verifh/stats"
)

// C19 — logical date / timestamp types decode to the instant the spec defines.

const c19Rule = "date: int32 day counts (thorough: all 2^32, sharded; quick: boundaries, +-1..+-1000, seeded stride); timestamp-millis / timestamp-micros / plain long (ns): every varint boundary, " +
	"the extremes whose instant fits int64 ns, negatives and rapid draws; time.Time values in that range for the write direction; reached through Schema.Codec on caller schemas with time.Time and *time.Time fields; " +
	"oracle: read: date d = time.Unix(d*86400,0), millis/micros/ns = time.Unix(0, l*1e6 / l*1e3 / l); write: the stored integer (reference decoder) is the UTC calendar day resp. the instant within one unit " +
	"and decodes back to the written time at the type's resolution; non-trivial = negative value or a time that is not a multiple of the unit; distinct by (type, value)"

type c19Case struct {
	Logical string `json:"logical"` // date, timestamp-millis, timestamp-micros, long
	Ptr     bool   `json:"ptr"`     // *time.Time target under a [null, T] union
	Dir     string `json:"dir"`     // read | write
	Stored  int64  `json:"stored"`  // read: the integer in the file
	Sec     int64  `json:"sec"`     // write: the time
	Nsec    int64  `json:"nsec"`
	Off     int    `json:"off"`
	// Zero (write, required field): the zero time.Time, an ordinary value of date /
	// timestamp-millis / timestamp-micros where no union offers a null branch.
	Zero bool `json:"zero,omitempty"`
	// Local, if set, is the process's local time zone while the case runs (a zone with
	// daylight saving): what a stored integer means does not depend on where the reader sits.
	Local string `json:"local,omitempty"`
}

// withLocal runs f with time.Local set to the named zone.
func withLocal(name string, f func()) {
	if name != "" {
		if loc, err := time.LoadLocation(name); err == nil {
			old := time.Local
			time.Local = loc
			defer func() { time.Local = old }()
		}
	}
	f()
}

func init() { registerReplay("c19", func(c c19Case) error { _, err := runC19(c); return err }) }

type c19T struct {
	T time.Time `json:"t"`
}
type c19P struct {
	T *time.Time `json:"t"`
}

type c19Codec struct {
	schema ref.Schema
	codec  avro.Codec
}

var c19Codecs = map[string]c19Codec{}

func c19CodecFor(logical string, ptr bool) (c19Codec, error) {
	key := fmt.Sprintf("%s/%v", logical, ptr)
	if c, ok := c19Codecs[key]; ok {
		return c, nil
	}
	var ft ref.Schema
	switch logical {
	case "date":
		ft = ref.Schema{Kind: "int", LogicalType: "date", ObjectForm: true}
	case "long":
		ft = ref.Prim("long")
	default:
		ft = ref.Schema{Kind: "long", LogicalType: logical, ObjectForm: true}
	}
	if ptr {
		ft = ref.Nullable(ft)
	}
	s := ref.Schema{Kind: "record", Name: "r", Fields: []ref.Field{{Name: "t", Type: ft}}}
	lib, err := avro.SchemaFromString(ref.Render(s, nil))
	if err != nil {
		return c19Codec{}, err
	}
	var out interface{} = c19T{}
	if ptr {
		out = c19P{}
	}
	codec, err := lib.Codec(out)
	if err != nil {
		return c19Codec{}, err
	}
	c19Codecs[key] = c19Codec{s, codec}
	return c19Codecs[key], nil
}

func c19Field(s ref.Schema) ref.Schema {
	f := s.Fields[0].Type
	if f.Kind == "union" {
		return f.Branches[1]
	}
	return f
}

func runC19(c c19Case) (nt bool, err error) {
	withLocal(c.Local, func() { nt, err = runC19Zone(c) })
	return nt, err
}

func runC19Zone(c c19Case) (bool, error) {
	cc, err := c19CodecFor(c.Logical, c.Ptr)
	if err != nil {
		return false, fmt.Errorf("Schema.Codec for %s: %v", c.Logical, err)
	}
	fs := c19Field(cc.schema)
	if c.Dir == "read" {
		var body []byte
		if c.Ptr {
			body = ref.AppendLong(body, 1)
		}
		body = ref.AppendLong(body, c.Stored)
		rb := avro.NewReadBuf(body)
		var got time.Time
		if c.Ptr {
			var v c19P
			if err := cc.codec.Read(rb, reflect.ValueOf(&v).UnsafePointer()); err != nil {
				return true, fmt.Errorf("%s %d: Read failed: %v", c.Logical, c.Stored, err)
			}
			if v.T == nil {
				return true, fmt.Errorf("%s %d: pointer left nil", c.Logical, c.Stored)
			}
			got = *v.T
		} else {
			var v c19T
			if err := cc.codec.Read(rb, reflect.ValueOf(&v).UnsafePointer()); err != nil {
				return true, fmt.Errorf("%s %d: Read failed: %v", c.Logical, c.Stored, err)
			}
			got = v.T
		}
		if rb.Len() != 0 {
			return true, fmt.Errorf("%s %d: %d bytes left", c.Logical, c.Stored, rb.Len())
		}
		return c.Stored < 0, agreeTimeInt(fs, ref.Datum{K: fs.Kind, I: c.Stored}, got, dirRead, "t")
	}
	// write
	tm := time.Unix(c.Sec, c.Nsec).UTC()
	if c.Off != 0 {
		tm = tm.In(time.FixedZone("", c.Off))
	}
	if c.Zero {
		tm = time.Time{}
	}
	wb := avro.NewWriteBuf(nil)
	if c.Ptr {
		v := c19P{T: &tm}
		cc.codec.Write(wb, reflect.ValueOf(&v).UnsafePointer())
	} else {
		v := c19T{T: tm}
		cc.codec.Write(wb, reflect.ValueOf(&v).UnsafePointer())
	}
	out := append([]byte(nil), wb.Bytes()...)
	d, err := ref.DecodeExact(cc.schema, out)
	if err != nil {
		return true, fmt.Errorf("%s: written bytes % x are not a valid encoding: %v", c.Logical, out, err)
	}
	fd := d.Fields[0]
	if c.Ptr {
		if fd.Branch != 1 {
			return true, fmt.Errorf("%s: non-nil *time.Time %v written as null", c.Logical, tm)
		}
		fd = *fd.U
	}
	if err := agreeTimeInt(fs, fd, tm, dirWrite, "t"); err != nil {
		return true, err
	}
	// decode back: equal to the written time at the type's resolution
	rb := avro.NewReadBuf(out)
	var back time.Time
	if c.Ptr {
		var v c19P
		if err := cc.codec.Read(rb, reflect.ValueOf(&v).UnsafePointer()); err != nil || v.T == nil {
			return true, fmt.Errorf("%s: reading back failed: %v", c.Logical, err)
		}
		back = *v.T
	} else {
		var v c19T
		if err := cc.codec.Read(rb, reflect.ValueOf(&v).UnsafePointer()); err != nil {
			return true, fmt.Errorf("%s: reading back failed: %v", c.Logical, err)
		}
		back = v.T
	}
	if err := agreeTimeInt(fs, fd, back, dirRead, "t(read back)"); err != nil {
		return true, err
	}
	unit := time.Duration(logicalUnit(fs))
	if c.Logical == "date" {
		unit = 24 * time.Hour
	}
	if want := tm.Truncate(unit); c.Logical != "date" && !back.Equal(want) {
		return true, fmt.Errorf("%s: %v written and read back as %v, want the time at that resolution %v", c.Logical, tm.UTC(), back.UTC(), want.UTC())
	}
	if ds := tm.Unix() - back.Unix(); ds < 0 || ds > int64(unit/time.Second) {
		return true, fmt.Errorf("%s: %v written and read back as %v: not the same %v", c.Logical, tm.UTC(), back.UTC(), unit)
	}
	nonMultiple := c.Nsec != 0 || c.Sec%int64(unit/time.Second+1) != 0
	return c.Sec < 0 || nonMultiple, nil
}

var c19Logicals = []string{"date", "timestamp-millis", "timestamp-micros", "long"}

func storedRange(logical string) (int64, int64) {
	switch logical {
	case "date":
		return math.MinInt32, math.MaxInt32
	case "timestamp-millis":
		return math.MinInt64 / 1000000, math.MaxInt64 / 1000000
	case "timestamp-micros":
		return math.MinInt64 / 1000, math.MaxInt64 / 1000
	}
	return math.MinInt64, math.MaxInt64
}

func TestC19(t *testing.T) {
	col := stats.New("C19")
	col.Rule = c19Rule
	defer col.Flush()
	try := func(c c19Case, f fataler) {
		nt, err := protectNT(func() (bool, error) { return runC19(c) })
		col.Record(c, nt, "dir_"+c.Dir, "type_"+c.Logical)
		if err != nil {
			col.Flush()
			failCase(f, "C19", "c19", c, err)
		}
	}
	// boundaries for every type, both targets
	for _, l := range c19Logicals {
		lo, hi := storedRange(l)
		for _, ptr := range []bool{false, true} {
			for _, v := range boundaryInts() {
				if v >= lo && v <= hi {
					try(c19Case{Logical: l, Ptr: ptr, Dir: "read", Stored: v}, t)
				}
			}
			for _, v := range []int64{lo, lo + 1, hi, hi - 1} {
				try(c19Case{Logical: l, Ptr: ptr, Dir: "read", Stored: v}, t)
			}
			for v := int64(-1000); v <= 1000; v++ {
				try(c19Case{Logical: l, Ptr: ptr, Dir: "read", Stored: v}, t)
			}
		}
	}
	for _, l := range []string{"date", "timestamp-millis", "timestamp-micros"} {
		try(c19Case{Logical: l, Dir: "write", Zero: true, Sec: -62135596800}, t)
	}
	// a year of days in each season's neighbourhood, read by a process whose local zone has daylight saving
	for _, zone := range c18Zones {
		for _, start := range []int64{-1700, 0, 19800} {
			for d := start; d < start+366; d += 3 {
				try(c19Case{Logical: "date", Dir: "read", Stored: d, Local: zone}, t)
				try(c19Case{Logical: "timestamp-millis", Dir: "read", Stored: d * 86400000, Local: zone}, t)
			}
		}
	}
	rapid.Check(t, func(rt *rapid.T) {
		l := c19Logicals[gen.Uniform(rt, "logical", 4)]
		lo, hi := storedRange(l)
		c := c19Case{Logical: l, Ptr: rapid.Bool().Draw(rt, "ptr")}
		if gen.Uniform(rt, "localZone", 4) == 0 {
			c.Local = c18Zones[gen.Uniform(rt, "zoneName", len(c18Zones))]
		}
		if rapid.Bool().Draw(rt, "read") {
			c.Dir = "read"
			c.Stored = gen.IntIn(rt, "stored", lo, hi)
		} else {
			c.Dir = "write"
			// a time whose instant fits int64 nanoseconds (for date: whose day fits int32 — any such time does)
			// kept one millisecond inside the int64-nanosecond range: flooring a time
			// closer to the lower limit gives a long whose own instant is no longer
			// representable, which is outside the property's domain
			ns := gen.IntIn(rt, "ns", math.MinInt64+1000000, math.MaxInt64-1000000)
			if rapid.Bool().Draw(rt, "aligned") {
				unit := int64(86400e9)
				switch l {
				case "timestamp-millis":
					unit = 1e6
				case "timestamp-micros":
					unit = 1e3
				case "long":
					unit = 1
				}
				ns -= ns % unit
			}
			c.Sec, c.Nsec = floorDiv(ns, 1e9), ns-floorDiv(ns, 1e9)*1e9
			if l == "date" && rapid.Bool().Draw(rt, "farDate") {
				// a date only needs its day count to fit int32: any time within +-5.8 million years
				day := gen.IntIn(rt, "day", math.MinInt32, math.MaxInt32)
				c.Sec = day*86400 + int64(rapid.IntRange(0, 86399).Draw(rt, "secOfDay"))
			}
			if c.Sec == -62135596800 && c.Nsec == 0 {
				c.Sec = 0
			}
			if rapid.Bool().Draw(rt, "zone") {
				c.Off = 60 * rapid.IntRange(-14*60, 14*60).Draw(rt, "off")
			}
		}
		try(c, rt)
	})
}

// TestC19Dates enumerates int32 day counts for the date type: all 2^32 in the
// thorough tier (sharded), a seeded stride in the quick tier.
func TestC19Dates(t *testing.T) {
	col := stats.New("C19")
	col.Rule = c19Rule
	defer col.Flush()
	cc, err := c19CodecFor("date", false)
	if err != nil {
		t.Fatalf("VERIF-FAIL property=C19: Schema.Codec for date: %v", err)
	}
	si, sn := shard()
	step := int64(1)
	off := int64(0)
	if !thorough() {
		si, sn = 0, 1
		step = 8191
		off = (seedVal() * 131) % step
	} else {
		col.Exhaustive = true
	}
	lo := int64(math.MinInt32) + int64(si)*(1<<32)/int64(sn)
	hi := int64(math.MinInt32) + int64(si+1)*(1<<32)/int64(sn)
	rb := avro.NewReadBuf(nil)
	var body []byte
	var n, neg int64
	// half of the shards (thorough) enumerate under a local zone with daylight saving; the quick
	// stride is short enough to be walked under both
	zones := []string{""}
	if thorough() && si%2 == 1 {
		zones = []string{c18Zones[(si/2)%len(c18Zones)]}
	} else if !thorough() {
		zones = []string{"", c18Zones[int(seedVal())%len(c18Zones)]}
	}
	for _, zone := range zones {
		withLocal(zone, func() {
			for d := lo + off; d < hi; d += step {
				body = ref.AppendLong(body[:0], d)
				rb.Reset(body)
				var v c19T
				err := cc.codec.Read(rb, reflect.ValueOf(&v).UnsafePointer())
				if err != nil || rb.Len() != 0 || !v.T.Equal(time.Unix(d*86400, 0)) {
					failCase(t, "C19", "c19", c19Case{Logical: "date", Dir: "read", Stored: d, Local: zone},
						fmt.Errorf("date %d decoded to %v (err %v, %d bytes left), specification says %v", d, v.T.UTC(), err, rb.Len(), time.Unix(d*86400, 0).UTC()))
				}
				n++
				if d < 0 {
					neg++
				}
			}
		})
	}
	col.Bulk(n)
	col.AddDistinct(neg)
	col.LabelN("dates_enumerated", n)
}

func protectNT(f func() (bool, error)) (nt bool, err error) {
	err = protect(func() error {
		var e error
		nt, e = f()
		return e
	})
	return
}

// ---------------------------------------------------------------------------
// Several logical-time columns in one record, in every shape a Go struct can give
// them: plain, pointer, slice, slice of pointers, map, map of pointers. The
// single-column cases above never have two values decoded into one record.

type c19Col struct {
	Logical string  `json:"logical"`
	Shape   string  `json:"shape"` // plain ptr slice sliceptr map mapptr
	Stored  []int64 `json:"stored"`
	Nulls   []bool  `json:"nulls,omitempty"` // ptr shapes: element i is null
	// Obj: a plain long spelled in object form, {"type":"long"}, as other
	// implementations write it when they attach attributes of their own
	Obj bool `json:"obj,omitempty"`
	// NullSecond: pointer shapes use the union [T, null] instead of [null, T]
	NullSecond bool `json:"null_second,omitempty"`
}

func c19Nullable(base ref.Schema, nullSecond bool) ref.Schema {
	if nullSecond {
		return ref.Schema{Kind: "union", Branches: []ref.Schema{base, ref.Prim("null")}}
	}
	return ref.Nullable(base)
}

type c19MultiCase struct {
	Cols []c19Col `json:"cols"`
}

func init() {
	registerReplay("c19multi", func(c c19MultiCase) error { _, err := runC19Multi(c); return err })
}

var c19Shapes = []string{"plain", "ptr", "slice", "sliceptr", "map", "mapptr"}

func c19BaseOf(col c19Col) ref.Schema {
	b := c19Base(col.Logical)
	if col.Logical == "long" && col.Obj {
		b.ObjectForm = true
	}
	return b
}

func c19Base(logical string) ref.Schema {
	switch logical {
	case "date":
		return ref.Schema{Kind: "int", LogicalType: "date", ObjectForm: true}
	case "long":
		return ref.Prim("long")
	}
	return ref.Schema{Kind: "long", LogicalType: logical, ObjectForm: true}
}

func runC19Multi(c c19MultiCase) (bool, error) {
	rec := ref.Schema{Kind: "record", Name: "r"}
	var sf []reflect.StructField
	var datum ref.Datum
	datum.K = "record"
	tt := reflect.TypeOf(time.Time{})
	viaNew := 0
	for i, col := range c.Cols {
		base := c19BaseOf(col)
		elem := func(j int) ref.Datum {
			d := ref.Datum{K: base.Kind, I: col.Stored[j]}
			if col.Shape == "ptr" || col.Shape == "sliceptr" || col.Shape == "mapptr" {
				nullIdx := 0
				if col.NullSecond {
					nullIdx = 1
				}
				if j < len(col.Nulls) && col.Nulls[j] {
					return ref.Union(nullIdx, ref.Null())
				}
				viaNew++
				return ref.Union(1-nullIdx, d)
			}
			return d
		}
		var fs ref.Schema
		var gt reflect.Type
		var d ref.Datum
		switch col.Shape {
		case "plain":
			fs, gt, d = base, tt, elem(0)
		case "ptr":
			fs, gt, d = c19Nullable(base, col.NullSecond), reflect.PointerTo(tt), elem(0)
		case "slice", "sliceptr":
			it, et := base, tt
			if col.Shape == "sliceptr" {
				it, et = c19Nullable(base, col.NullSecond), reflect.PointerTo(tt)
			}
			fs, gt = ref.Schema{Kind: "array", Items: &it}, reflect.SliceOf(et)
			d = ref.Datum{K: "array"}
			for j := range col.Stored {
				d.Items = append(d.Items, elem(j))
			}
		default:
			it, et := base, tt
			if col.Shape == "mapptr" {
				it, et = c19Nullable(base, col.NullSecond), reflect.PointerTo(tt)
			}
			fs, gt = ref.Schema{Kind: "map", Values: &it}, reflect.MapOf(reflect.TypeOf(""), et)
			d = ref.Datum{K: "map"}
			for j := range col.Stored {
				d.Keys = append(d.Keys, fmt.Sprintf("k%d", j))
				d.Vals = append(d.Vals, elem(j))
			}
			if col.Shape == "map" {
				viaNew += len(col.Stored)
			}
		}
		rec.Fields = append(rec.Fields, ref.Field{Name: fmt.Sprintf("c%d", i), Type: fs})
		sf = append(sf, reflect.StructField{Name: fmt.Sprintf("C%d", i), Type: gt, Tag: reflect.StructTag(fmt.Sprintf(`json:"c%d"`, i))})
		datum.Fields = append(datum.Fields, d)
	}
	nt := viaNew >= 2
	typ := reflect.StructOf(sf)
	lib, err := avro.SchemaFromString(ref.Render(rec, nil))
	if err != nil {
		return nt, fmt.Errorf("SchemaFromString: %v", err)
	}
	codec, err := lib.Codec(reflect.New(typ).Elem().Interface())
	if err != nil {
		return nt, fmt.Errorf("Schema.Codec: %v", err)
	}
	body, err := ref.Encode(rec, datum, nil)
	if err != nil {
		return nt, fmt.Errorf("VERIF-INCONCLUSIVE harness: %v", err)
	}
	rb := avro.NewReadBuf(body)
	v := reflect.New(typ)
	if err := codec.Read(rb, v.UnsafePointer()); err != nil {
		return nt, fmt.Errorf("Read failed: %v", err)
	}
	if rb.Len() != 0 {
		return nt, fmt.Errorf("%d bytes left after the record", rb.Len())
	}
	check := func(base ref.Schema, want ref.Datum, got reflect.Value, path string) error {
		if want.K == "union" {
			if want.U.K == "null" {
				if !got.IsNil() {
					return fmt.Errorf("%s: null decoded to a non-nil pointer", path)
				}
				return nil
			}
			if got.IsNil() {
				return fmt.Errorf("%s: value decoded to a nil pointer", path)
			}
			want, got = *want.U, got.Elem()
		}
		return agreeTimeInt(base, want, got.Interface().(time.Time), dirRead, path)
	}
	for i, col := range c.Cols {
		base := c19BaseOf(col)
		f := v.Elem().Field(i)
		d := datum.Fields[i]
		path := fmt.Sprintf("c%d(%s %s)", i, col.Logical, col.Shape)
		switch col.Shape {
		case "plain", "ptr":
			if err := check(base, d, f, path); err != nil {
				return nt, err
			}
		case "slice", "sliceptr":
			if f.Len() != len(d.Items) {
				return nt, fmt.Errorf("%s: %d items decoded to %d", path, len(d.Items), f.Len())
			}
			for j := range d.Items {
				if err := check(base, d.Items[j], f.Index(j), fmt.Sprintf("%s[%d]", path, j)); err != nil {
					return nt, err
				}
			}
		default:
			if f.Len() != len(d.Keys) {
				return nt, fmt.Errorf("%s: %d entries decoded to %d", path, len(d.Keys), f.Len())
			}
			for j, k := range d.Keys {
				e := f.MapIndex(reflect.ValueOf(k))
				if !e.IsValid() {
					return nt, fmt.Errorf("%s: key %q missing", path, k)
				}
				if err := check(base, d.Vals[j], e, fmt.Sprintf("%s[%q]", path, k)); err != nil {
					return nt, err
				}
			}
		}
	}
	// written again, the record is the same datum (maps compared as sets)
	wb := avro.NewWriteBuf(nil)
	codec.Write(wb, v.UnsafePointer())
	back, err := ref.DecodeExact(rec, append([]byte(nil), wb.Bytes()...))
	if err != nil {
		return nt, fmt.Errorf("writing the decoded record gave an invalid encoding: %v", err)
	}
	if diff := back.Diff(datum, "record"); diff != "" {
		return nt, fmt.Errorf("decoded and written again, the record differs: %s", diff)
	}
	if len(c.Cols) > 0 && len(c.Cols[0].Stored) > 0 {
		if err := c19Embedded(c19BaseOf(c.Cols[0]), c.Cols[0].Stored[0]); err != nil {
			return nt, err
		}
	}
	// the same through a file: the schema as the library serialises it goes into the
	// header, the record into a block; an independent reader and the library's own
	// ReadFile must both find the stored integers under that header
	doc, err := lib.Marshal()
	if err != nil {
		return nt, fmt.Errorf("Marshal: %v", err)
	}
	fw, err := avro.NewFileWriter(doc, avro.CompressionNull)
	if err != nil {
		return nt, fmt.Errorf("NewFileWriter: %v", err)
	}
	var file bytes.Buffer
	if err := fw.WriteHeader(&file); err != nil {
		return nt, fmt.Errorf("WriteHeader: %v", err)
	}
	if err := fw.WriteBlock(&file, 1, wb.Bytes()); err != nil {
		return nt, fmt.Errorf("WriteBlock: %v", err)
	}
	hs, _, blocks, err := ref.ReadRecords(file.Bytes())
	if err != nil {
		return nt, fmt.Errorf("reference reader rejects the file: %v", err)
	}
	if d := hs.Diff(rec, ""); d != "" {
		return nt, fmt.Errorf("the schema in the file header differs from the schema the codec was built from: %s", d)
	}
	if len(blocks) != 1 || len(blocks[0]) != 1 || blocks[0][0].Diff(datum, "record") != "" {
		return nt, fmt.Errorf("an independent reader finds other data in the file than was written")
	}
	n := 0
	var ferr error
	if err := avro.ReadFile(bytes.NewReader(file.Bytes()), reflect.New(typ).Elem().Interface(), func(val unsafe.Pointer, rb *avro.ResourceBank) error {
		n++
		fv := reflect.NewAt(typ, val).Elem()
		for i, col := range c.Cols {
			if col.Shape != "plain" && col.Shape != "ptr" {
				continue
			}
			if e := check(c19BaseOf(col), datum.Fields[i], fv.Field(i), fmt.Sprintf("read from the file: c%d(%s %s)", i, col.Logical, col.Shape)); e != nil && ferr == nil {
				ferr = e
			}
		}
		return nil
	}); err != nil {
		return nt, fmt.Errorf("ReadFile: %v", err)
	}
	if ferr != nil {
		return nt, ferr
	}
	if n != 1 {
		return nt, fmt.Errorf("ReadFile delivered %d records, 1 written", n)
	}
	return nt, nil
}

// A struct that embeds time.Time (first, and after another field): the column is
// named after the type.
type c19EmbedFirst struct {
	time.Time
	N int64 `json:"n"`
}

type c19EmbedMid struct {
	N int64 `json:"n"`
	time.Time
	M int64 `json:"m"`
}

func c19Embedded(base ref.Schema, stored int64) error {
	rec := ref.Schema{Kind: "record", Name: "e", Fields: []ref.Field{{Name: "n", Type: ref.Prim("long")}, {Name: "Time", Type: base}, {Name: "m", Type: ref.Prim("long")}}}
	lib, err := avro.SchemaFromString(ref.Render(rec, nil))
	if err != nil {
		return fmt.Errorf("SchemaFromString: %v", err)
	}
	body, err := ref.Encode(rec, ref.Datum{K: "record", Fields: []ref.Datum{ref.Long(7), {K: base.Kind, I: stored}, ref.Long(9)}}, nil)
	if err != nil {
		return fmt.Errorf("VERIF-INCONCLUSIVE harness: %v", err)
	}
	var a c19EmbedFirst
	var b c19EmbedMid
	for _, tgt := range []struct {
		v    interface{}
		p    unsafe.Pointer
		time *time.Time
		n    *int64
	}{{a, unsafe.Pointer(&a), &a.Time, &a.N}, {b, unsafe.Pointer(&b), &b.Time, &b.N}} {
		codec, err := lib.Codec(tgt.v)
		if err != nil {
			return fmt.Errorf("Schema.Codec for a struct embedding time.Time: %v", err)
		}
		rb := avro.NewReadBuf(body)
		if err := codec.Read(rb, tgt.p); err != nil || rb.Len() != 0 {
			return fmt.Errorf("reading into a struct embedding time.Time: err=%v, %d bytes left", err, rb.Len())
		}
		if *tgt.n != 7 {
			return fmt.Errorf("struct embedding time.Time: n decoded as %d, want 7", *tgt.n)
		}
		if err := agreeTimeInt(base, ref.Datum{K: base.Kind, I: stored}, *tgt.time, dirRead, fmt.Sprintf("embedded time.Time (%T)", tgt.v)); err != nil {
			return err
		}
	}
	if b.M != 9 {
		return fmt.Errorf("struct embedding time.Time in the middle: m decoded as %d, want 9", b.M)
	}
	return nil
}

func drawC19Multi(t *rapid.T) c19MultiCase {
	var c c19MultiCase
	n := gen.UniformRange(t, "ncols", 1, 5)
	for i := 0; i < n; i++ {
		col := c19Col{Logical: c19Logicals[gen.Uniform(t, "logical", 4)], Shape: c19Shapes[gen.Uniform(t, "shape", 6)]}
		col.Obj = col.Logical == "long" && rapid.Bool().Draw(t, "objectForm")
		col.NullSecond = gen.Uniform(t, "nullSecond", 3) == 0
		m := 1
		if col.Shape != "plain" && col.Shape != "ptr" {
			m = gen.UniformRange(t, "nelems", 0, 6)
			if gen.Uniform(t, "many", 10) == 0 {
				m = gen.UniformRange(t, "nelemsMany", 10, 40)
			}
		}
		lo, hi := storedRange(col.Logical)
		for j := 0; j < m; j++ {
			col.Stored = append(col.Stored, gen.IntIn(t, "stored", lo, hi))
			col.Nulls = append(col.Nulls, gen.Uniform(t, "null", 5) == 0)
		}
		c.Cols = append(c.Cols, col)
	}
	return c
}

func TestC19Multi(t *testing.T) {
	col := stats.New("C19")
	col.Rule = "at least two time values of one record are decoded through pointers or map values"
	propCheck(t, col, "c19multi", drawC19Multi, func(c c19MultiCase) (bool, []string, error) {
		nt, err := runC19Multi(c)
		var labels []string
		for _, x := range c.Cols {
			labels = append(labels, "multi_"+x.Logical+"_"+x.Shape)
		}
		return nt, labels, err
	})
}
