package checks

import (
	"bufio"
	"bytes"
	"fmt"
	"io"
	"os"
	"reflect"
	"unsafe"

	"github.com/philpearl/avro"
	avronull "github.com/philpearl/avro/null"
	avrotime "github.com/philpearl/avro/time"
	"pgregory.net/rapid"

	"verifh/cat"
	"verifh/gen"
	"verifh/ref"
	"verifh/spec"
)

func init() {
	if os.Getenv("VERIF_FRESH_REG") == "1" {
		return // TestC12FreshWorker makes the first registration calls itself, concurrently
	}
	avrotime.RegisterCodecs()
	avronull.RegisterCodecs()
}

// encCase is the shared Case of C01 and C02: a type, a record sequence and an
// encoder configuration.
type encCase struct {
	Type        spec.TypeSpec    `json:"type"`
	GoType      string           `json:"go_type"` // for the reader of samples only
	Records     []spec.ValueSpec `json:"records"`
	Compression string           `json:"compression"`
	BlockSize   int              `json:"block_size"`
	// FlushAfter[i] = number of Flush calls made after record i (0..2).
	FlushAfter []int `json:"flush_after"`
	ByPointer  bool  `json:"by_pointer"` // ReadFile's out argument is a *T instead of a T
	// Reader: how the file is presented to ReadFile (see makeReader).
	Reader int `json:"reader,omitempty"`
	// Repeat > 1: every record is written Repeat times in a row (thousands of
	// identical rows: blocks that compress by more than an order of magnitude).
	Repeat int `json:"repeat,omitempty"`
	// Evolved (compile-time types only): before the encoder under test is created the
	// process reads, into the same Go type, a file written under another generation of
	// the type's schema (same record name, top-level fields in reverse order) — 1: a
	// header-only file; 2: a file holding the case's first record; 3: header-only, and the
	// other generation lacks the type's last field. Ordinary schema evolution on the
	// read side; what is written (and read) afterwards must not depend on it.
	Evolved int `json:"evolved,omitempty"`
}

// shortReader delivers at most N bytes per Read call (a network stream, a pipe):
// the reader must not assume that one Read fills its buffer.
type shortReader struct {
	data []byte
	pos  int
	max  int
	// eofWithData: the last Read returns its bytes together with io.EOF, which
	// the io.Reader contract allows
	eofWithData bool
}

func (r *shortReader) Read(p []byte) (int, error) {
	if r.pos >= len(r.data) {
		return 0, io.EOF
	}
	n := len(p)
	if n > r.max {
		n = r.max
	}
	if n > len(r.data)-r.pos {
		n = len(r.data) - r.pos
	}
	copy(p, r.data[r.pos:r.pos+n])
	r.pos += n
	if r.eofWithData && r.pos == len(r.data) {
		return n, io.EOF
	}
	return n, nil
}

func (r *shortReader) ReadByte() (byte, error) {
	if r.pos >= len(r.data) {
		return 0, io.EOF
	}
	r.pos++
	return r.data[r.pos-1], nil
}

// makeReader: 0 = bytes.Reader, 1 = bufio.Reader with a 16-byte buffer,
// 2 <= k < 100 = a reader that returns at most k-1 bytes per call, k >= 100 = the
// same (k-99 bytes) whose last Read returns its data together with io.EOF.
func makeReader(kind int, data []byte) avro.Reader {
	switch {
	case kind <= 0:
		return bytes.NewReader(data)
	case kind == 1:
		return bufio.NewReaderSize(bytes.NewReader(data), 16)
	case kind == 50:
		return bytes.NewBuffer(append([]byte(nil), data...)) // a *bytes.Buffer is a Reader too
	case kind == 51:
		return bufio.NewReader(bytes.NewReader(data)) // default 4096-byte buffer
	case kind >= 100:
		return &shortReader{data: data, max: kind - 99, eofWithData: true}
	}
	return &shortReader{data: data, max: kind - 1}
}

// dynEncoder is the public pipeline NewEncoderFor itself runs, assembled for a
// type only known at run time.
type dynEncoder struct {
	codec avro.Codec
	fw    *avro.FileWriter
	w     io.Writer
	wb    *avro.WriteBuf
	bs    int
	count int
}

func newDynEncoder(w io.Writer, typ reflect.Type, c avro.Compression, bs int) (*dynEncoder, error) {
	zero := reflect.New(typ).Elem().Interface()
	s, err := avro.SchemaForType(zero)
	if err != nil {
		return nil, fmt.Errorf("SchemaForType: %w", err)
	}
	codec, err := s.Codec(zero)
	if err != nil {
		return nil, fmt.Errorf("Schema.Codec: %w", err)
	}
	sb, err := s.Marshal()
	if err != nil {
		return nil, fmt.Errorf("Schema.Marshal: %w", err)
	}
	fw, err := avro.NewFileWriter(sb, c)
	if err != nil {
		return nil, err
	}
	if err := fw.WriteHeader(w); err != nil {
		return nil, err
	}
	return &dynEncoder{codec: codec, fw: fw, w: w, wb: avro.NewWriteBuf(make([]byte, 0, bs)), bs: bs}, nil
}

func (e *dynEncoder) Encode(p unsafe.Pointer) error {
	e.codec.Write(e.wb, p)
	e.count++
	if e.wb.Len() >= e.bs {
		return e.Flush()
	}
	return nil
}

func (e *dynEncoder) Flush() error {
	if e.count > 0 {
		if err := e.fw.WriteBlock(e.w, e.count, e.wb.Bytes()); err != nil {
			return err
		}
		e.count = 0
		e.wb.Reset()
	}
	return nil
}

func newEncoderFor(w io.Writer, ts spec.TypeSpec, typ reflect.Type, c avro.Compression, bs int) (cat.Enc, error) {
	if ts.Cat != "" {
		return cat.Get(ts.Cat).NewEncoder(w, c, bs)
	}
	return newDynEncoder(w, typ, c, bs)
}

// encodeCase runs the encoder over the case and returns the file and the
// denotation of every record written.
func encodeCase(c encCase) (file []byte, in []spec.AbsVal, err error) {
	typ := spec.Build(c.Type)
	if c.Evolved != 0 {
		readEvolvedFirst(c, typ)
	}
	var buf bytes.Buffer
	enc, err := newEncoderFor(&buf, c.Type, typ, avro.Compression(c.Compression), c.BlockSize)
	if err != nil {
		return nil, nil, fmt.Errorf("creating encoder: %w", err)
	}
	for i, r := range c.Records {
		v := spec.New(c.Type, r)
		a := spec.Abs(c.Type, false, v.Elem())
		for rep := 1; rep < c.Repeat; rep++ {
			in = append(in, a)
			if err := enc.Encode(v.UnsafePointer()); err != nil {
				return nil, nil, fmt.Errorf("Encode record %d (repetition %d): %w", i, rep, err)
			}
		}
		in = append(in, a)
		if err := enc.Encode(v.UnsafePointer()); err != nil {
			return nil, nil, fmt.Errorf("Encode record %d: %w", i, err)
		}
		if i < len(c.FlushAfter) {
			for k := 0; k < c.FlushAfter[i]; k++ {
				if err := enc.Flush(); err != nil {
					return nil, nil, fmt.Errorf("Flush after record %d: %w", i, err)
				}
			}
		}
	}
	if err := enc.Flush(); err != nil {
		return nil, nil, fmt.Errorf("final Flush: %w", err)
	}
	return buf.Bytes(), in, nil
}

// readEvolvedFirst reads a file of another generation of the type's schema into the
// type. Its own outcome is C03's subject and is not judged here.
func readEvolvedFirst(c encCase, typ reflect.Type) {
	zero := reflect.New(typ).Elem().Interface()
	s, err := avro.SchemaForType(zero)
	if err != nil {
		return
	}
	sb, err := s.Marshal()
	if err != nil {
		return
	}
	rs, err := ref.ParseSchema(sb)
	if err != nil || rs.Kind != "record" || len(rs.Fields) < 2 {
		return
	}
	n := len(rs.Fields)
	rev := rs
	rev.Fields = make([]ref.Field, n)
	for i, f := range rs.Fields {
		rev.Fields[n-1-i] = f
	}
	if c.Evolved == 3 {
		rev.Fields = rev.Fields[1:] // the reversed list begins with the type's last field
	}
	fs := ref.FileSpec{Schema: []byte(ref.Render(rev, nil)), Codec: "null"}
	if c.Evolved == 2 && len(c.Records) > 0 {
		// the first record, written by a first encoder, re-encoded under the other generation
		one := c
		one.Evolved, one.Records, one.FlushAfter, one.Repeat = 0, c.Records[:1], nil, 0
		if file, _, err := encodeCase(one); err == nil {
			if _, _, blocks, err := ref.ReadRecords(file); err == nil && len(blocks) == 1 && len(blocks[0]) == 1 && len(blocks[0][0].Fields) == n {
				d := blocks[0][0]
				rd := ref.Datum{K: "record", Fields: make([]ref.Datum, n)}
				for i := range d.Fields {
					rd.Fields[n-1-i] = d.Fields[i]
				}
				if body, err := ref.Encode(rev, rd, nil); err == nil {
					fs.Blocks = []ref.Block{{Count: 1, Payload: body}}
				}
			}
		}
	}
	file, _, err := ref.WriteFile(fs)
	if err != nil {
		return
	}
	_ = protect(func() error {
		return avro.ReadFile(bytes.NewReader(file), zero, func(unsafe.Pointer, *avro.ResourceBank) error { return nil })
	})
}

func typeOptsForTier() gen.TypeOpts {
	if thorough() {
		return gen.TypeOpts{MaxDepth: 5, MaxFields: 6, SkipFields: true}
	}
	return gen.TypeOpts{MaxDepth: 4, MaxFields: 5, SkipFields: true}
}

func drawCompression(t *rapid.T) string {
	return rapid.SampledFrom([]string{"null", "deflate", "snappy"}).Draw(t, "compression")
}

func drawEncCase(t *rapid.T) encCase {
	var c encCase
	if rapid.IntRange(0, 4).Draw(t, "useCatalogue") == 0 {
		name := rapid.SampledFrom(cat.Names(true)).Draw(t, "cat")
		c.Type = cat.Get(name).Spec
		c.Evolved = []int{0, 0, 0, 0, 1, 2, 3}[gen.Uniform(t, "evolved", 7)]
	} else {
		c.Type = gen.StructType(t, typeOptsForTier(), 1)
		// reflect.StructOf returns the same type for the same structure: process state
		// keyed by type carries over between cases for these as well
		c.Evolved = []int{0, 0, 0, 0, 0, 0, 0, 0, 1, 2, 3}[gen.Uniform(t, "evolvedDyn", 11)]
	}
	c.GoType = c.Type.GoString()
	n := gen.UniformRange(t, "nrecords", 0, 8)
	c.Records = gen.Records(t, c.Type, n, gen.ValueOpts{Big: true})
	c.Compression = drawCompression(t)
	c.BlockSize = []int{0, 1, 7, 16, 40, 100, 400, 1 << 20, 4080}[gen.Uniform(t, "blocksize", 9)]
	for i := 0; i < n; i++ {
		c.FlushAfter = append(c.FlushAfter, rapid.SampledFrom([]int{0, 0, 0, 0, 1, 1, 2}).Draw(t, "flush"))
	}
	c.ByPointer = rapid.Bool().Draw(t, "byPointer")
	c.Reader = []int{0, 0, 1, 2, 4, 8, 100, 4195, 50, 51}[gen.Uniform(t, "reader", 10)]
	return c
}

// drawRepetitiveCase: a few records, each written hundreds or thousands of times,
// in large blocks: data that compresses by more than an order of magnitude.
func drawRepetitiveCase(t *rapid.T) encCase {
	var c encCase
	c.Type = gen.StructType(t, gen.TypeOpts{MaxDepth: 2, MaxFields: 3}, 1)
	c.GoType = c.Type.GoString()
	n := gen.UniformRange(t, "nrecords", 1, 2)
	c.Records = gen.Records(t, c.Type, n, gen.ValueOpts{MaxElems: 3})
	c.FlushAfter = make([]int, n)
	c.Compression = []string{"snappy", "snappy", "deflate"}[gen.Uniform(t, "compression", 3)]
	c.Repeat = []int{300, 1500, 5000}[gen.Uniform(t, "repeat", 3)]
	c.BlockSize = []int{1 << 20, 30000, 200000}[gen.Uniform(t, "repBlock", 3)]
	c.Reader = []int{0, 51, 4195}[gen.Uniform(t, "repReader", 3)]
	return c
}

func isComposite(t spec.TypeSpec) bool {
	switch t.K {
	case "slice", "map", "ptr":
		return true
	}
	return false
}

// nullAfterNonNull reports whether some nullable record field holds a value in
// a and null in b.
func nullAfterNonNull(a, b spec.AbsVal) bool {
	if a.Nullable && b.Nullable && a.Null == spec.NullNo && b.Null == spec.NullYes {
		return true
	}
	if a.K == "record" && b.K == "record" && len(a.Fields) == len(b.Fields) {
		for i := range a.Fields {
			if nullAfterNonNull(a.Fields[i], b.Fields[i]) {
				return true
			}
		}
	}
	return false
}

func bothBranchesSeen(in []spec.AbsVal) bool {
	if len(in) == 0 || in[0].K != "record" {
		return false
	}
	for f := range in[0].Fields {
		sawNull, sawVal := false, false
		for _, r := range in {
			if f < len(r.Fields) && r.Fields[f].Nullable {
				if r.Fields[f].Null == spec.NullYes {
					sawNull = true
				}
				if r.Fields[f].Null == spec.NullNo {
					sawVal = true
				}
			}
		}
		if sawNull && sawVal {
			return true
		}
	}
	return false
}

// encLabels classifies a case for the evidence.
func encLabels(c encCase, in []spec.AbsVal, blocks int) (nontrivial bool, labels []string) {
	labels = append(labels, "codec_"+c.Compression)
	if c.Type.Cat != "" {
		labels = append(labels, "catalogue_type")
	}
	if c.Evolved != 0 {
		labels = append(labels, "evolved_file_read_first")
	}
	for _, r := range c.Records {
		if hasRep(r) {
			labels = append(labels, "slice_of_more_than_65000_items")
			break
		}
	}
	for _, k := range []string{"slice", "map", "ptr", "time", "nullInt", "nullString", "int16", "float32", "bytes"} {
		kk := k
		if c.Type.Contains(func(t spec.TypeSpec) bool { return t.K == kk }) {
			labels = append(labels, "has_"+k)
		}
	}
	if c.Type.Contains(func(t spec.TypeSpec) bool { return spec.IsCollectionBehindPtr(t) }) {
		labels = append(labels, "has_ptr_to_collection")
	}
	if c.Type.Contains(func(t spec.TypeSpec) bool { return t.K == "map" && (t.Elem.K == "ptr" || t.Elem.IsRegistered()) }) {
		labels = append(labels, "has_map_of_nullable")
	}
	if c.Type.Contains(func(t spec.TypeSpec) bool { return t.K == "ptr" && t.Elem.K == "ptr" }) {
		labels = append(labels, "has_ptr_ptr")
	}
	if blocks >= 2 {
		labels = append(labels, "multi_block")
	}
	nan := false
	for i := 0; i+1 < len(in); i++ {
		if nullAfterNonNull(in[i], in[i+1]) {
			nan = true
		}
	}
	if nan {
		labels = append(labels, "null_after_nonnull")
	}
	composite := false
	for _, f := range c.Type.Fields {
		if f.AvroName() != "" && f.T.Contains(func(t spec.TypeSpec) bool { return isComposite(t) || t.K == "struct" }) {
			composite = true
		}
	}
	nontrivial = len(c.Records) >= 2 && (blocks >= 2 || nan) && composite
	return
}

func hasRep(v spec.ValueSpec) bool {
	if v.Rep > 0 {
		return true
	}
	if v.P != nil && hasRep(*v.P) {
		return true
	}
	for _, f := range v.Fields {
		if hasRep(f) {
			return true
		}
	}
	for _, e := range v.Elems {
		if hasRep(e) {
			return true
		}
	}
	return false
}

func countBlocks(file []byte) int {
	lay, err := ref.ParseFile(file)
	if err != nil {
		return 0
	}
	return len(lay.Blocks)
}
