// Command gencat writes cat/zz_named_gen.go: Go source for N struct types drawn
// from the same type generator the checks use (gen.StructType), decorated with
// what reflect.StructOf cannot express — named nested structs, embedded structs
// (by value and by pointer, in any position), embedded registered types,
// unexported fields of assorted sizes between the exported ones, defined slice /
// map / pointer / primitive types — and registered as compile-time types so the
// real generic Encoder[T] is instantiated for each.
//
//	go run ./gencat -seed 1 -n 240 -o cat/zz_named_gen.go
//
// The output is a pure function of (seed, n) and of the generator's code.
package main

import (
	"bytes"
	"flag"
	"fmt"
	"go/format"
	"os"
	"strings"

	"pgregory.net/rapid"

	"verifh/gen"
	"verifh/spec"
)

type deco struct {
	prefix string
	n      int
}

func (d *deco) name(kind string) string {
	d.n++
	return fmt.Sprintf("%s_%s%d", d.prefix, kind, d.n)
}

var unexportedTypes = []string{"int64", "string", "bool", "[3]byte", "chan int", "*int32", "func()", "struct{ a, b int8 }", "int8", "[]string", "map[string]int", "uint16", "interface{}"}

var embeddableRegistered = map[string][2]string{
	"time": {"time.Time", "Time"}, "nullInt": {"null.Int", "Int"}, "nullBool": {"null.Bool", "Bool"},
	"nullFloat": {"null.Float", "Float"}, "nullString": {"null.String", "String"}, "nullTime": {"null.Time", "Time"},
}

// decorate adds names, embedding and unexported fields to a drawn type.
func decorate(t *rapid.T, ts *spec.TypeSpec, d *deco, top bool) {
	switch ts.K {
	case "struct":
		for i := range ts.Fields {
			decorate(t, &ts.Fields[i].T, d, false)
		}
		if top {
			ts.TName = d.prefix
		} else if gen.Uniform(t, "namedStruct", 10) < 6 {
			ts.TName = d.name("S")
		}
		usedGo := map[string]bool{}
		for _, f := range ts.Fields {
			usedGo[f.Go] = true
		}
		var out []spec.FieldSpec
		for _, f := range ts.Fields {
			if gen.Uniform(t, "unexportedBefore", 5) == 0 {
				src := unexportedTypes[gen.Uniform(t, "unexportedType", len(unexportedTypes))]
				u := spec.FieldSpec{Go: fmt.Sprintf("u%d", len(out)), Unexported: true, T: spec.TypeSpec{K: "opaque", TName: src}}
				switch gen.Uniform(t, "unexportedTag", 6) {
				case 0:
					u.JSON = u.Go // a struct shared with other serialisers: tags on fields Avro never sees
				case 1:
					u.JSON = f.AvroName() // the same name as the exported field that follows
					if u.JSON == "" {
						u.JSON = "-"
					}
					u.Opts = []string{"omitempty"}
				}
				out = append(out, u)
			}
			inner := f.T
			if inner.K == "ptr" {
				inner = *inner.Elem
			}
			switch {
			case inner.K == "struct" && inner.TName != "" && (f.T.K != "ptr" || f.T.TName == "") && gen.Uniform(t, "embedStruct", 20) < 7:
				f.Embedded, f.Go = true, inner.TName
				if f.T.K != "ptr" && gen.Uniform(t, "embedByPointer", 3) == 0 {
					f.T = spec.Ptr(f.T)
				}
			case f.T.K != "ptr" && embeddableRegistered[f.T.K][0] != "" && f.T.TName == "" && gen.Uniform(t, "embedRegistered", 12) == 0:
				if n := embeddableRegistered[f.T.K][1]; !usedGo[n] {
					f.Embedded, f.Go = true, n
					usedGo[n] = true
				}
			case (f.T.K == "slice" || f.T.K == "map" || f.T.K == "int64" || f.T.K == "string") && f.T.TName != "" && gen.Uniform(t, "embedDefined", 4) == 0:
				f.Embedded, f.Go = true, f.T.TName // a defined non-struct type, embedded: one field named after the type
			}
			// the schema name of an untagged field is its Go name: keep names distinct
			out = append(out, f)
		}
		if gen.Uniform(t, "unexportedLast", 8) == 0 {
			out = append(out, spec.FieldSpec{Go: fmt.Sprintf("u%d", len(out)), Unexported: true, T: spec.TypeSpec{K: "opaque", TName: "bool"}})
		}
		// effective schema names must stay distinct after embedding changed Go names
		seen := map[string]bool{}
		for i := range out {
			if n := out[i].AvroName(); n != "" {
				for seen[out[i].AvroName()] {
					out[i].JSON = fmt.Sprintf("%s_e%d", n, i)
				}
				seen[out[i].AvroName()] = true
			}
		}
		ts.Fields = out
	case "slice":
		decorate(t, ts.Elem, d, false)
		if gen.Uniform(t, "namedSlice", 8) == 0 {
			ts.TName = d.name("L")
		}
	case "map":
		decorate(t, ts.Elem, d, false)
		if gen.Uniform(t, "namedMap", 8) == 0 {
			ts.TName = d.name("M")
		}
	case "ptr":
		decorate(t, ts.Elem, d, false)
		if gen.Uniform(t, "namedPtr", 25) == 0 {
			ts.TName = d.name("P")
		}
	case "bool", "int", "int16", "int32", "int64", "float32", "float64", "string", "bytes":
		if gen.Uniform(t, "namedPrim", 10) == 0 {
			ts.TName = d.name("N")
		}
	}
}

type emitter struct {
	decls bytes.Buffer
}

func (e *emitter) inline(ts spec.TypeSpec) string {
	switch ts.K {
	case "opaque":
		return ts.TName
	case "bytes":
		return "[]byte"
	case "time":
		return "time.Time"
	case "nullInt", "nullBool", "nullFloat", "nullString", "nullTime":
		return "null." + strings.TrimPrefix(ts.K, "null")
	case "ptr":
		return "*" + e.expr(*ts.Elem)
	case "slice":
		return "[]" + e.expr(*ts.Elem)
	case "map":
		if ts.Key == "nstr" {
			return "map[spec.NamedStr]" + e.expr(*ts.Elem)
		}
		return "map[string]" + e.expr(*ts.Elem)
	case "struct":
		var sb strings.Builder
		sb.WriteString("struct {\n")
		for _, f := range ts.Fields {
			typ := e.expr(f.T)
			if f.Embedded {
				sb.WriteString(typ)
			} else {
				sb.WriteString(f.Go + " " + typ)
			}
			if tag := f.Tag(); tag != "" {
				sb.WriteString(" `" + string(tag) + "`")
			}
			sb.WriteString("\n")
		}
		sb.WriteString("}")
		return sb.String()
	}
	return ts.K // bool, int, ...
}

// expr returns the type expression, emitting a declaration first when the node is named.
func (e *emitter) expr(ts spec.TypeSpec) string {
	if ts.TName == "" || ts.K == "opaque" {
		return e.inline(ts)
	}
	body := e.inline(ts)
	fmt.Fprintf(&e.decls, "type %s %s\n\n", ts.TName, body)
	return ts.TName
}

func main() {
	seed := flag.Int("seed", 1, "generator seed")
	n := flag.Int("n", 240, "number of top-level types")
	out := flag.String("o", "cat/zz_named_gen.go", "output file")
	flag.Parse()

	var e emitter
	var regs bytes.Buffer
	features := map[string]int{}
	for i := 0; i < *n; i++ {
		name := fmt.Sprintf("Gen%d", i)
		opts := gen.TypeOpts{MaxDepth: 3 + i%3, MaxFields: 3 + i%4, SkipFields: true, ShapeBoost: i%2 == 1}
		g := rapid.Custom(func(t *rapid.T) spec.TypeSpec {
			ts := gen.StructType(t, opts, 1)
			decorate(t, &ts, &deco{prefix: name}, true)
			return ts
		})
		ts := g.Example(*seed*100003 + i)
		e.expr(ts)
		fmt.Fprintf(&regs, "\tregGen[%s](%q)\n", name, name)
		count(ts, features)
	}
	var src bytes.Buffer
	fmt.Fprintf(&src, "// Code generated by verifh/gencat -seed %d -n %d; DO NOT EDIT.\n\npackage cat\n\n", *seed, *n)
	src.WriteString("import (\n\t\"time\"\n\n\tnull \"github.com/unravelin/null/v5\"\n\n\t\"verifh/spec\"\n)\n\n")
	src.WriteString("var (\n\t_ time.Time\n\t_ null.Int\n\t_ spec.NamedStr\n)\n\n")
	fmt.Fprintf(&src, "// GenSeed is the seed the generated catalogue was drawn with.\nconst GenSeed = %d\n\n// GenN is the number of generated top-level types.\nconst GenN = %d\n\n", *seed, *n)
	var fk []string
	for k, v := range features {
		fk = append(fk, fmt.Sprintf("%s=%d", k, v))
	}
	src.Write(e.decls.Bytes())
	src.WriteString("func init() {\n")
	src.Write(regs.Bytes())
	src.WriteString("}\n")
	formatted, err := format.Source(src.Bytes())
	if err != nil {
		os.WriteFile(*out+".broken", src.Bytes(), 0o644)
		fmt.Fprintln(os.Stderr, "gencat: generated source does not parse:", err)
		os.Exit(1)
	}
	if old, err := os.ReadFile(*out); err == nil && bytes.Equal(old, formatted) {
		return
	}
	if err := os.WriteFile(*out, formatted, 0o644); err != nil {
		fmt.Fprintln(os.Stderr, err)
		os.Exit(1)
	}
	fmt.Fprintln(os.Stderr, "gencat: wrote", *out, features)
}

func count(ts spec.TypeSpec, f map[string]int) {
	if ts.TName != "" && ts.K != "opaque" {
		f["named_"+ts.K]++
	}
	if ts.Elem != nil {
		count(*ts.Elem, f)
	}
	for _, fl := range ts.Fields {
		if fl.Embedded {
			f["embedded"]++
			if fl.T.K == "ptr" {
				f["embedded_ptr"]++
			}
		}
		if fl.Unexported {
			f["unexported"]++
		}
		count(fl.T, f)
	}
}
