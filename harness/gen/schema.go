package gen

import (
	"fmt"

	"pgregory.net/rapid"

	"verifh/ref"
)

// SchemaOpts tunes the schema generator.
type SchemaOpts struct {
	MaxDepth int
	// Enum, Logical: include enum types / logicalType attributes (C14, C06).
	Enum    bool
	Logical bool
	// FancyNames: names and namespaces with escapes and non-ASCII characters.
	FancyNames bool
	// AnyUnion: unions with any number (>= 1) of distinct branches; otherwise
	// only [null,X], [X,null] and [X].
	AnyUnion bool
	// ObjectPrims: sometimes write primitives as {"type":"long"}.
	ObjectPrims bool
	counter     *int
}

var primKinds = []string{"null", "boolean", "int", "long", "float", "double", "bytes", "string"}

var fancy = []string{"ü", `q"uote`, `back\slash`, "tab\t", "日本", "with space", " "}

func (o *SchemaOpts) name(t *rapid.T, prefix string) string {
	if o.counter == nil {
		o.counter = new(int)
	}
	*o.counter++
	n := fmt.Sprintf("%s%d", prefix, *o.counter)
	if o.FancyNames && rapid.IntRange(0, 5).Draw(t, "fancyName") == 0 {
		n += rapid.SampledFrom(fancy).Draw(t, "fancy")
	}
	if o.FancyNames && rapid.IntRange(0, 11).Draw(t, "dottedName") == 0 {
		// a name given as a full name (other writers, generic Go types); a namespace
		// attribute may stand next to it all the same
		n = rapid.SampledFrom([]string{"pkg.", "a.b_c.", "github.com/x/y.Box[z."}).Draw(t, "dots") + n
	}
	return n
}

func (o *SchemaOpts) namespace(t *rapid.T) string {
	switch rapid.IntRange(0, 5).Draw(t, "ns") {
	case 0:
		return "com.example"
	case 1:
		return "a.b_c.d1"
	case 2:
		if o.FancyNames {
			return "nß." + rapid.SampledFrom(fancy).Draw(t, "fancyns")
		}
	}
	return ""
}

var logicalFor = map[string][]string{
	"int":    {"date", "time-millis"},
	"long":   {"timestamp-millis", "timestamp-micros", "time-micros"},
	"bytes":  {"decimal"},
	"string": {"uuid"},
	"fixed":  {"decimal", "duration"},
}

// Schema draws a schema.
func Schema(t *rapid.T, o *SchemaOpts, depth int) ref.Schema {
	kinds := []string{"prim", "record", "array", "map", "union", "fixed", "enum"}
	weights := []int{40, 14, 12, 10, 14, 6, 4}
	if !o.Enum {
		weights[6] = 0
	}
	if depth >= o.MaxDepth {
		weights = []int{80, 0, 0, 0, 0, 15, weights[6]}
	}
	switch weighted(t, "skind", kinds, weights) {
	case "record":
		return RecordSchema(t, o, depth)
	case "array":
		it := Schema(t, o, depth+1)
		return ref.Schema{Kind: "array", Items: &it}
	case "map":
		it := Schema(t, o, depth+1)
		return ref.Schema{Kind: "map", Values: &it}
	case "union":
		return unionSchema(t, o, depth)
	case "fixed":
		s := ref.Schema{Kind: "fixed", Name: o.name(t, "fx"), Namespace: o.namespace(t),
			Size: rapid.SampledFrom([]int{0, 1, 2, 4, 8, 12, 16, 33}).Draw(t, "fsize")}
		if o.Logical && rapid.IntRange(0, 3).Draw(t, "flt") == 0 {
			s.LogicalType = rapid.SampledFrom(logicalFor["fixed"]).Draw(t, "lt")
		}
		return s
	case "enum":
		s := ref.Schema{Kind: "enum", Name: o.name(t, "en"), Namespace: o.namespace(t)}
		n := rapid.IntRange(1, 4).Draw(t, "nsym")
		if rapid.IntRange(0, 3).Draw(t, "manySymbols") == 0 {
			n = rapid.IntRange(9, 20).Draw(t, "nsymMany")
		}
		for i := 0; i < n; i++ {
			s.Symbols = append(s.Symbols, fmt.Sprintf("S%d", i))
		}
		if rapid.Bool().Draw(t, "unsortedSymbols") {
			// symbol order is part of the schema (it defines the encoding): not sorted, not grouped
			names := []string{"DIAMONDS", "spades", "Clubs", "HEARTS", "z9", "A", "mid", "B2", "b2", "_x", "Q", "k", "ACE", "ten", "Nine", "eight", "SEVEN", "six", "Five", "four"}
			for i := range s.Symbols {
				s.Symbols[i] = names[(i*7+n)%len(names)]
			}
			seen := map[string]bool{}
			for i, sym := range s.Symbols {
				for seen[sym] {
					sym += "_"
				}
				seen[sym] = true
				s.Symbols[i] = sym
			}
		}
		return s
	}
	return primSchema(t, o)
}

func primSchema(t *rapid.T, o *SchemaOpts) ref.Schema {
	s := ref.Schema{Kind: rapid.SampledFrom(primKinds).Draw(t, "prim")}
	if o.Logical && len(logicalFor[s.Kind]) > 0 && rapid.IntRange(0, 3).Draw(t, "plt") == 0 {
		s.LogicalType = rapid.SampledFrom(logicalFor[s.Kind]).Draw(t, "lt")
		s.ObjectForm = true
	} else if o.ObjectPrims && rapid.IntRange(0, 7).Draw(t, "objform") == 0 {
		s.ObjectForm = true
	}
	return s
}

// RecordSchema draws a record with distinct field names.
func RecordSchema(t *rapid.T, o *SchemaOpts, depth int) ref.Schema {
	s := ref.Schema{Kind: "record", Name: o.name(t, "R"), Namespace: o.namespace(t)}
	lo := 1
	if rapid.IntRange(0, 14).Draw(t, "emptyRecord") == 0 {
		lo = 0
	}
	n := UniformRange(t, "nfields", lo, 5)
	caseVariants := o.FancyNames && rapid.IntRange(0, 7).Draw(t, "caseVariantFields") == 0
	for i := 0; i < n; i++ {
		name := fmt.Sprintf("f%d", i)
		if caseVariants {
			// names are case sensitive: these are five different fields
			name = []string{"id", "ID", "Id", "iD", "Key"}[i]
		}
		if o.FancyNames && rapid.IntRange(0, 7).Draw(t, "fancyField") == 0 {
			name += rapid.SampledFrom(fancy).Draw(t, "fancyf")
		}
		s.Fields = append(s.Fields, ref.Field{Name: name, Type: Schema(t, o, depth+1)})
	}
	return s
}

func nonUnion(t *rapid.T, o *SchemaOpts, depth int) ref.Schema {
	for i := 0; i < 10; i++ {
		s := Schema(t, o, depth)
		if s.Kind != "union" {
			return s
		}
	}
	return ref.Prim("long")
}

func unionSchema(t *rapid.T, o *SchemaOpts, depth int) ref.Schema {
	u := ref.Schema{Kind: "union"}
	form := rapid.IntRange(0, 9).Draw(t, "uform")
	if !o.AnyUnion && form >= 8 {
		form = rapid.IntRange(0, 7).Draw(t, "uform2")
	}
	x := nonUnion(t, o, depth+1)
	for x.Kind == "null" {
		x = ref.Prim("string")
	}
	switch {
	case form <= 3:
		u.Branches = []ref.Schema{ref.Prim("null"), x}
	case form <= 6:
		u.Branches = []ref.Schema{x, ref.Prim("null")}
	case form == 7:
		u.Branches = []ref.Schema{x}
		if o.AnyUnion && rapid.IntRange(0, 3).Draw(t, "nullOnly") == 0 {
			u.Branches = []ref.Schema{ref.Prim("null")} // a union of just null is legal
		}
	default:
		// several distinct branches: distinct unnamed kinds, named types may repeat the kind
		seen := map[string]bool{}
		n := rapid.IntRange(2, 5).Draw(t, "nbranch")
		for i := 0; i < n; i++ {
			b := nonUnion(t, o, depth+1)
			key := b.Kind
			if b.Name != "" {
				key += ":" + b.Name
			}
			if seen[key] {
				continue
			}
			seen[key] = true
			u.Branches = append(u.Branches, b)
		}
	}
	return u
}
