// Package gen holds the rapid generators shared by the checks: Go types and
// values as data, Avro schemas, datums, encoding choices.
package gen

import (
	"fmt"
	"math"

	"pgregory.net/rapid"

	"verifh/spec"
)

var leafKinds = []string{
	"bool", "int", "int16", "int32", "int64", "float32", "float64", "string", "bytes",
	"time", "nullInt", "nullBool", "nullFloat", "nullString", "nullTime",
}

// TypeOpts tunes the type generator.
type TypeOpts struct {
	MaxDepth  int
	MaxFields int
	// NoTags generates no json/bq tags at all (names = Go names).
	NoTags bool
	// NoMaps leaves maps out (checks that need byte-reproducible output).
	NoMaps bool
	// Leaves overrides the leaf kinds.
	Leaves []string
	// SkipFields allows json:"-" / bq:"-" fields.
	SkipFields bool
	// ShapeBoost raises the share of collections, pointers and the singled-out shapes.
	ShapeBoost bool
	// Wide adds the kinds outside the supported subset (C05/C15): other
	// integer widths, unsigned, complex, Go arrays, non-string map keys,
	// interface, chan, func, unsafe.Pointer.
	Wide bool
}

var wideLeaves = []string{"int8", "uint", "uint8", "uint16", "uint32", "uint64", "uintptr", "complex64", "complex128", "iface", "chan", "func", "unsafeptr"}

func wideType(t *rapid.T, o TypeOpts, depth int) spec.TypeSpec {
	switch rapid.IntRange(0, 5).Draw(t, "widekind") {
	case 0:
		return spec.BArray(rapid.SampledFrom([]int{0, 1, 4, 16}).Draw(t, "barrayN"))
	case 1:
		e := Type(t, o, depth+1)
		return spec.TypeSpec{K: "array", N: rapid.IntRange(0, 3).Draw(t, "arrayN"), Elem: &e}
	case 2:
		e := Type(t, o, depth+1)
		return spec.TypeSpec{K: "mapk", Key: rapid.SampledFrom([]string{"int", "int64", "bool", "float64", "uint8"}).Draw(t, "mapkey"), Elem: &e}
	}
	return spec.T(rapid.SampledFrom(wideLeaves).Draw(t, "wideleaf"))
}

// Uniform draws an index in [0, n) without rapid's bias towards small values
// (see weighted); it still shrinks towards 0.
func Uniform(t *rapid.T, label string, n int) int {
	if n <= 1 {
		return 0
	}
	return rapid.IntRange(0, n*4096-1).Draw(t, label) % n
}

// ChoiceBytes draws n decision bytes without the bias towards zero.
func ChoiceBytes(t *rapid.T, label string, n int) []byte {
	out := make([]byte, n)
	for i := range out {
		out[i] = byte(Uniform(t, label, 256))
	}
	return out
}

// UniformRange draws uniformly in [lo, hi].
func UniformRange(t *rapid.T, label string, lo, hi int) int {
	return lo + Uniform(t, label, hi-lo+1)
}

func weighted(t *rapid.T, label string, choices []string, weights []int) string {
	total := 0
	for _, w := range weights {
		total += w
	}
	// rapid's integer generators favour small values (a geometric choice of bit
	// length), which would make the first alternative dominate; drawing from a
	// much wider range and reducing it keeps the intended weights most of the
	// time while still shrinking towards the first alternative.
	n := rapid.IntRange(0, total*4096-1).Draw(t, label) % total
	for i, w := range weights {
		if n < w {
			return choices[i]
		}
		n -= w
	}
	return choices[len(choices)-1]
}

// Type draws a type usable as a struct field.
func Type(t *rapid.T, o TypeOpts, depth int) spec.TypeSpec {
	leaves := o.Leaves
	if leaves == nil {
		leaves = leafKinds
	}
	if o.Wide && rapid.IntRange(0, 11).Draw(t, "wide") == 0 {
		return wideType(t, o, depth)
	}
	if depth >= o.MaxDepth {
		return spec.T(rapid.SampledFrom(leaves).Draw(t, "leaf"))
	}
	kinds := []string{"leaf", "struct", "slice", "map", "ptr", "shape"}
	weights := []int{50, 10, 12, 9, 12, 7}
	if o.ShapeBoost {
		weights = []int{30, 10, 13, 13, 14, 20}
	}
	if o.NoMaps {
		weights[3] = 0
	}
	switch weighted(t, "kind", kinds, weights) {
	case "leaf":
		return spec.T(rapid.SampledFrom(leaves).Draw(t, "leaf"))
	case "struct":
		return StructType(t, o, depth+1)
	case "slice":
		return spec.Slice(Type(t, o, depth+1))
	case "map":
		m := spec.Map(Type(t, o, depth+1))
		if Uniform(t, "namedKey", 6) == 0 {
			m.Key = "nstr" // a defined string type as key: still a string-keyed map
		}
		return m
	case "ptr":
		return spec.Ptr(Type(t, o, depth+1))
	}
	// the shapes the properties single out
	inner := Type(t, o, depth+2)
	shapes := []string{"*[]T", "*map", "map[string]*T", "**T", "[]*T", "map[string]map[string]T", "map[string][]T", "[][]T", "*struct"}
	if o.NoMaps {
		shapes = []string{"*[]T", "**T", "[]*T", "[][]T", "*struct"}
	}
	switch rapid.SampledFrom(shapes).Draw(t, "shape") {
	case "*[]T":
		return spec.Ptr(spec.Slice(inner))
	case "*map":
		return spec.Ptr(spec.Map(inner))
	case "map[string]*T":
		return spec.Map(spec.Ptr(inner))
	case "**T":
		return spec.Ptr(spec.Ptr(inner))
	case "[]*T":
		return spec.Slice(spec.Ptr(inner))
	case "map[string]map[string]T":
		return spec.Map(spec.Map(inner))
	case "map[string][]T":
		return spec.Map(spec.Slice(inner))
	case "[][]T":
		return spec.Slice(spec.Slice(inner))
	}
	return spec.Ptr(StructType(t, o, depth+1))
}

// jsonNames includes pairs that differ only in case: they are distinct names.
var jsonNames = []string{"a", "b", "c", "id", "name", "value", "x_1", "Y2", "camelCase", "snake_case", "F0", "F1",
	"ID", "Id", "Name", "NAME", "url", "URL", "A", "Value", "f0", "f1"}

// StructType draws a struct type with distinct schema field names.
func StructType(t *rapid.T, o TypeOpts, depth int) spec.TypeSpec {
	maxF := o.MaxFields
	if maxF == 0 {
		maxF = 5
	}
	lo := 1
	if rapid.IntRange(0, 19).Draw(t, "emptyStruct") == 0 {
		lo = 0
	}
	n := UniformRange(t, "nfields", lo, maxF)
	used := map[string]bool{}
	ts := spec.TypeSpec{K: "struct"}
	for i := 0; i < n; i++ {
		f := spec.FieldSpec{Go: fmt.Sprintf("F%d", i)}
		f.T = Type(t, o, depth)
		if !o.NoTags {
			switch weighted(t, "tagname", []string{"none", "name", "skipjson", "skipbq"}, []int{45, 45, skipW(o), skipW(o)}) {
			case "name":
				f.JSON = rapid.SampledFrom(jsonNames).Draw(t, "json")
			case "skipjson":
				f.JSON = "-"
			case "skipbq":
				f.BQ = "-"
				if rapid.Bool().Draw(t, "bqAndJson") {
					f.JSON = rapid.SampledFrom(jsonNames).Draw(t, "json")
				}
			}
			if f.JSON != "-" {
				switch weighted(t, "opts", []string{"none", "omitempty", "omitempty,string", "string,omitempty", "string"}, []int{55, 30, 6, 6, 3}) {
				case "omitempty":
					f.Opts = []string{"omitempty"}
				case "omitempty,string":
					f.Opts = []string{"omitempty", "string"}
				case "string,omitempty":
					f.Opts = []string{"string", "omitempty"}
				case "string":
					f.Opts = []string{"string"}
				}
			}
			if f.BQ == "" && rapid.IntRange(0, 24).Draw(t, "bqOther") == 0 {
				f.BQ = "other_name" // a bq tag that is not "-" must not exclude the field
			}
		}
		// distinct effective names (duplicate names are a caller error the properties do not cover)
		if name := f.AvroName(); name != "" {
			for used[f.AvroName()] {
				f.JSON = fmt.Sprintf("%s_%d", name, i)
			}
			used[f.AvroName()] = true
		}
		ts.Fields = append(ts.Fields, f)
	}
	return ts
}

func skipW(o TypeOpts) int {
	if o.SkipFields {
		return 5
	}
	return 0
}

// ---------------------------------------------------------------------------
// Values

var edgeInts = func() []int64 {
	out := []int64{0, 1, -1, 2, -2, 63, 64, -64, -65, math.MaxInt64, math.MinInt64, math.MaxInt64 - 1, math.MinInt64 + 1}
	for k := 1; k <= 9; k++ {
		b := int64(1) << (7*uint(k) - 1)
		out = append(out, b, b-1, b+1, -b, -b-1, -b+1)
	}
	out = append(out, math.MaxInt32, math.MinInt32, math.MaxInt32+1, math.MinInt32-1, math.MaxInt16, math.MinInt16, math.MaxInt16+1, math.MinInt16-1)
	// numbers that read as addresses inside the Go heap (linux/amd64: from 0xc000000000): a
	// number is a number wherever it is kept
	out = append(out, 0xc000000000, 0xc000e00000, 0xc001e00008, 0xc003e00000, 0xc002a00010, 0xc0007fe000)
	return out
}()

// IntIn draws a boundary-biased integer within [lo, hi].
func IntIn(t *rapid.T, label string, lo, hi int64) int64 {
	if rapid.IntRange(0, 2).Draw(t, label+"_edge") == 0 {
		var c []int64
		for _, e := range edgeInts {
			if e >= lo && e <= hi {
				c = append(c, e)
			}
		}
		c = append(c, lo, hi)
		return rapid.SampledFrom(c).Draw(t, label)
	}
	if rapid.Bool().Draw(t, label+"_small") {
		l, h := int64(-200), int64(200)
		if l < lo {
			l = lo
		}
		if h > hi {
			h = hi
		}
		return rapid.Int64Range(l, h).Draw(t, label)
	}
	return rapid.Int64Range(lo, hi).Draw(t, label)
}

var edgeF64 = []uint64{
	0, 1 << 63, // +0 -0
	0x7ff0000000000000, 0xfff0000000000000, // ±Inf
	0x7ff8000000000000, 0x7ff0000000000001, 0xfff8000000000123, // NaNs
	1, 0x000fffffffffffff, 0x0010000000000000, // subnormals, min normal
	0x7fefffffffffffff, 0x3ff0000000000000, 0xbff0000000000000, 0x3fb999999999999a,
	0x000000c000e00000, 0x000000c003e00000, // doubles whose bits read as heap addresses
}

var edgeF32 = []uint32{
	0, 1 << 31, 0x7f800000, 0xff800000, 0x7fc00000, 0x7f800001, 0xffc00123, 1, 0x007fffff, 0x00800000, 0x7f7fffff, 0x3f800000, 0x3dcccccd,
}

func Float64Bits(t *rapid.T, label string) uint64 {
	if rapid.IntRange(0, 2).Draw(t, label+"_edge") == 0 {
		return rapid.SampledFrom(edgeF64).Draw(t, label)
	}
	if rapid.Bool().Draw(t, label+"_nice") {
		return math.Float64bits(float64(rapid.IntRange(-1000, 1000).Draw(t, label)) / 8)
	}
	return rapid.Uint64().Draw(t, label)
}

func Float32Bits(t *rapid.T, label string) uint32 {
	if rapid.IntRange(0, 2).Draw(t, label+"_edge") == 0 {
		return rapid.SampledFrom(edgeF32).Draw(t, label)
	}
	if rapid.Bool().Draw(t, label+"_nice") {
		return math.Float32bits(float32(rapid.IntRange(-1000, 1000).Draw(t, label)) / 8)
	}
	return rapid.Uint32().Draw(t, label)
}

var edgeStrings = [][]byte{
	{}, []byte("a"), []byte("hello"), []byte("héllo wörld ✓"), []byte("日本語"), {0xff, 0xfe, 0x80}, {0}, []byte("a\x00b"),
	[]byte("\xc3\x28"), []byte("😀"),
}

// Str draws a string: empty, ASCII, multi-byte, invalid UTF-8, or long (> 127
// bytes so that its length needs a two-byte varint).
func Str(t *rapid.T, label string) []byte {
	if Uniform(t, label+"_huge", 60) == 0 {
		// lengths around common buffer sizes
		n := []int{1023, 1024, 1025, 4095, 4096, 4097, 65535, 65536, 65537, 2047, 2049, 8192}[Uniform(t, label+"_hugeLen", 12)]
		b := make([]byte, n)
		for i := range b {
			b[i] = byte('A' + (i*7+i/64)%26)
		}
		return b
	}
	switch rapid.IntRange(0, 9).Draw(t, label+"_cls") {
	case 0, 1, 2:
		return append([]byte{}, rapid.SampledFrom(edgeStrings).Draw(t, label)...)
	case 3:
		n := rapid.IntRange(120, 300).Draw(t, label+"_len")
		b := make([]byte, n)
		fill := byte(rapid.IntRange(32, 126).Draw(t, label+"_fill"))
		for i := range b {
			b[i] = fill + byte(i%7)
		}
		return b
	case 4:
		return rapid.SliceOfN(rapid.Byte(), 0, 12).Draw(t, label)
	}
	return []byte(rapid.StringMatching(`[a-zA-Z0-9 _\-]{0,12}`).Draw(t, label))
}

// Time draws a time in year 1..9999 with a whole-minute zone offset.
func Time(t *rapid.T, label string, v *spec.ValueSpec) {
	switch rapid.IntRange(0, 9).Draw(t, label+"_cls") {
	case 0:
		v.TZero = true
		return
	case 1:
		v.TSec = rapid.SampledFrom([]int64{0, -1, 1, 86399, 86400, -86400, 951782400, 253402300799 - 86400, -62135596800 + 86400, 1700000000}).Draw(t, label+"_sec")
	default:
		// 0001-01-02 .. 9999-12-30, kept a day inside the edges so that no offset leaves year 1..9999
		v.TSec = rapid.Int64Range(-62135596800+86400, 253402300799-86400).Draw(t, label+"_sec")
	}
	switch rapid.IntRange(0, 3).Draw(t, label+"_ncls") {
	case 0:
		v.TNsec = 0
	case 1:
		v.TNsec = rapid.SampledFrom([]int64{1, 999999999, 1000, 1000000, 500000000, 123456789, 100000000, 120000000, 999999000}).Draw(t, label+"_nsec")
	default:
		v.TNsec = rapid.Int64Range(0, 999999999).Draw(t, label+"_nsec")
	}
	switch rapid.IntRange(0, 3).Draw(t, label+"_ocls") {
	case 0, 1:
		v.TOff = 0
	case 2:
		v.TOff = 60 * rapid.SampledFrom([]int{60, -60, 330, -480, 845, -1, 1, 14 * 60, -12 * 60, 23*60 + 59, -(23*60 + 59)}).Draw(t, label+"_off")
	default:
		v.TOff = 60 * rapid.IntRange(-23*60-59, 23*60+59).Draw(t, label+"_off")
	}
}

// ValueOpts tunes the value generator.
type ValueOpts struct {
	MaxElems int
	// Big: now and then a collection of 9-40 elements (map growth, long blocks).
	Big bool
	// NoHuge: no slices of tens of thousands of items (set for what sits inside a collection).
	NoHuge bool
}

// cheapElem: element types of which a hundred thousand cost next to nothing.
func cheapElem(t spec.TypeSpec) bool {
	switch t.K {
	case "bool", "int", "int16", "int32", "int64", "float32", "float64", "nullInt", "nullBool", "nullFloat":
		return true
	case "ptr":
		return cheapElem(*t.Elem)
	}
	return false
}

func (o ValueOpts) inner() ValueOpts { o.NoHuge = true; return o }

// Value draws a value of the type.
func Value(t *rapid.T, ts spec.TypeSpec, o ValueOpts) spec.ValueSpec {
	maxE := o.MaxElems
	if maxE == 0 {
		maxE = 4
	}
	var v spec.ValueSpec
	switch ts.K {
	case "bool":
		v.B = rapid.Bool().Draw(t, "b")
	case "int", "int64":
		v.I = IntIn(t, "i", math.MinInt64, math.MaxInt64)
	case "int32":
		v.I = IntIn(t, "i", math.MinInt32, math.MaxInt32)
	case "int16":
		v.I = IntIn(t, "i", math.MinInt16, math.MaxInt16)
	case "int8":
		v.I = IntIn(t, "i", math.MinInt8, math.MaxInt8)
	case "float32":
		v.F = uint64(Float32Bits(t, "f"))
	case "float64":
		v.F = Float64Bits(t, "f")
	case "string":
		v.S = Str(t, "s")
	case "bytes":
		if rapid.IntRange(0, 5).Draw(t, "nilbytes") == 0 {
			v.Nil = true
		} else {
			v.S = Str(t, "s")
		}
	case "barray":
		v.S = rapid.SliceOfN(rapid.Byte(), ts.N, ts.N).Draw(t, "fixed")
	case "time":
		Time(t, "t", &v)
	case "nullInt":
		v.Valid = rapid.IntRange(0, 3).Draw(t, "valid") != 0
		if v.Valid || rapid.Bool().Draw(t, "payloadAnyway") {
			v.I = IntIn(t, "i", math.MinInt64, math.MaxInt64)
		}
	case "nullBool":
		v.Valid = rapid.IntRange(0, 3).Draw(t, "valid") != 0
		v.B = rapid.Bool().Draw(t, "b")
	case "nullFloat":
		v.Valid = rapid.IntRange(0, 3).Draw(t, "valid") != 0
		if v.Valid || rapid.Bool().Draw(t, "payloadAnyway") {
			v.F = Float64Bits(t, "f")
		}
	case "nullString":
		v.Valid = rapid.IntRange(0, 3).Draw(t, "valid") != 0
		if v.Valid || rapid.Bool().Draw(t, "payloadAnyway") {
			v.S = Str(t, "s")
		}
	case "nullTime":
		v.Valid = rapid.IntRange(0, 3).Draw(t, "valid") != 0
		if v.Valid || rapid.Bool().Draw(t, "payloadAnyway") {
			Time(t, "t", &v)
		} else {
			v.TZero = true
		}
	case "ptr":
		if rapid.IntRange(0, 3).Draw(t, "nilptr") == 0 {
			v.Nil = true
		} else {
			p := Value(t, *ts.Elem, o)
			v.P = &p
		}
	case "slice":
		switch rapid.IntRange(0, 7).Draw(t, "slicecls") {
		case 0:
			v.Nil = true
		case 1:
			v.Elems = []spec.ValueSpec{}
		default:
			n := UniformRange(t, "len", 1, maxE)
			if o.Big && Uniform(t, "bigslice", 12) == 0 {
				n = UniformRange(t, "biglen", 9, 40)
				if Uniform(t, "varintEdge", 4) == 0 {
					n = []int{63, 64, 65, 127, 128, 129}[Uniform(t, "edgeLen", 6)] // counts around a varint length boundary
				}
			}
			for i := 0; i < n; i++ {
				v.Elems = append(v.Elems, Value(t, *ts.Elem, o.inner()))
			}
			if o.Big && !o.NoHuge && cheapElem(*ts.Elem) && Uniform(t, "hugeslice", 120) == 0 {
				// more items than fit a 16-bit count, a few drawn ones in turn
				v.Rep = []int{65535, 65536, 65537, 70001, 131073}[Uniform(t, "hugeLen", 5)]
			} else if o.Big && !o.NoHuge && cheapElem(*ts.Elem) && Uniform(t, "roundslice", 60) == 0 {
				// lengths a writer might chunk by: powers of two and their multiples, on the dot
				v.Rep = []int{256, 1024, 4096, 8192, 12288, 16384, 32768, 4095, 4097}[Uniform(t, "roundLen", 9)]
			}
		}
	case "map":
		switch rapid.IntRange(0, 7).Draw(t, "mapcls") {
		case 0:
			v.Nil = true
		case 1:
			v.Keys = [][]byte{}
			v.Elems = []spec.ValueSpec{}
		default:
			n := UniformRange(t, "len", 1, maxE)
			if o.Big && Uniform(t, "bigmap", 12) == 0 {
				// more than eight entries: the runtime map grows beyond one group
				n = UniformRange(t, "biglen", 9, 40)
				if Uniform(t, "varintEdge", 4) == 0 {
					n = []int{63, 64, 65, 127, 128, 129}[Uniform(t, "edgeLen", 6)]
				}
			}
			seen := map[string]bool{}
			for i := 0; i < n; i++ {
				k := Str(t, "key")
				if seen[string(k)] {
					continue
				}
				seen[string(k)] = true
				v.Keys = append(v.Keys, k)
				v.Elems = append(v.Elems, Value(t, *ts.Elem, o.inner()))
			}
		}
	case "struct":
		for _, f := range ts.Fields {
			if f.Unexported {
				v.Fields = append(v.Fields, spec.ValueSpec{})
				continue
			}
			v.Fields = append(v.Fields, Value(t, f.T, o))
		}
	default:
		if ck, ok := spec.Custom[ts.K]; ok {
			return Value(t, spec.T(ck.Base), o)
		}
		panic("gen: no value generator for kind " + ts.K)
	}
	return v
}

// Degrade returns a copy of v in which a drawn subset of positions has been
// nulled / emptied / zeroed: used to build record sequences with "null after
// non-null in the same field".
func Degrade(t *rapid.T, ts spec.TypeSpec, v spec.ValueSpec) spec.ValueSpec {
	hit := func() bool { return rapid.IntRange(0, 2).Draw(t, "degrade") == 0 }
	out := v
	switch ts.K {
	case "ptr":
		if v.Nil || v.P == nil {
			return out
		}
		if hit() {
			return spec.ValueSpec{Nil: true}
		}
		p := Degrade(t, *ts.Elem, *v.P)
		out.P = &p
	case "slice":
		if hit() {
			if rapid.Bool().Draw(t, "toNil") {
				return spec.ValueSpec{Nil: true}
			}
			return spec.ValueSpec{Elems: []spec.ValueSpec{}}
		}
		out.Elems = nil
		out.Rep = 0 // one huge slice per sequence is enough
		for _, e := range v.Elems {
			if rapid.IntRange(0, 4).Draw(t, "dropElem") == 0 {
				continue
			}
			out.Elems = append(out.Elems, Degrade(t, *ts.Elem, e))
		}
		if out.Elems == nil && !v.Nil {
			out.Elems = []spec.ValueSpec{}
		}
	case "map":
		if hit() {
			return spec.ValueSpec{Nil: true}
		}
		out.Elems, out.Keys = nil, nil
		for i, e := range v.Elems {
			if rapid.IntRange(0, 4).Draw(t, "dropElem") == 0 {
				continue
			}
			out.Keys = append(out.Keys, v.Keys[i])
			out.Elems = append(out.Elems, Degrade(t, *ts.Elem, e))
		}
		if out.Elems == nil && !v.Nil {
			out.Elems, out.Keys = []spec.ValueSpec{}, [][]byte{}
		}
	case "struct":
		out.Fields = make([]spec.ValueSpec, len(v.Fields))
		for i, f := range ts.Fields {
			if i < len(v.Fields) {
				out.Fields[i] = Degrade(t, f.T, v.Fields[i])
			}
		}
	case "nullInt", "nullBool", "nullFloat", "nullString", "nullTime":
		if hit() {
			out.Valid = false
		}
	case "time":
		if hit() {
			return spec.ValueSpec{TZero: true}
		}
	case "bytes":
		if hit() {
			return spec.ValueSpec{Nil: true}
		}
	case "string":
		if hit() {
			return spec.ValueSpec{}
		}
	case "bool", "int", "int16", "int32", "int64", "float32", "float64":
		if hit() {
			return spec.ValueSpec{}
		}
	}
	return out
}

// Records draws a sequence of n values of ts, correlated so that a field that
// is non-null in record i is often null in record i+1.
func Records(t *rapid.T, ts spec.TypeSpec, n int, o ValueOpts) []spec.ValueSpec {
	var out []spec.ValueSpec
	for i := 0; i < n; i++ {
		if i > 0 && rapid.IntRange(0, 2).Draw(t, "correlate") != 0 {
			out = append(out, Degrade(t, ts, out[i-1]))
			continue
		}
		out = append(out, Value(t, ts, o))
	}
	return out
}
