package gen

import (
	"fmt"
	"math"
	"strings"
	"time"

	"pgregory.net/rapid"

	"verifh/ref"
	"verifh/spec"
)

// WireOpts tunes the joint generation of (schema, Go target).
type WireOpts struct {
	// ManyDatums: now and then a file of 65-200 records (set by the checks that read a file once or twice, not by those that enumerate sites per file).
	ManyDatums bool
	MaxDepth int
	// Logical adds date / timestamp-millis / timestamp-micros (and plain long
	// read as nanoseconds) with time.Time targets.
	Logical bool
	// Writable restricts targets to those whose nullability is aligned with the
	// schema, so that every Go value has exactly one encoding (C13): pointers
	// only under unions (or to slices / maps), every schema field covered.
	Writable bool
	// MultiUnion allows unions with several non-null branches (type-compatible
	// ones get a target, others are skipped by the target).
	MultiUnion bool
	// Drop is the per-field probability (in percent) that the target lacks a field.
	Drop    int
	counter int
}

func (o *WireOpts) name(prefix string) string {
	o.counter++
	return fmt.Sprintf("%s%d", prefix, o.counter)
}

// WireSchema draws a schema of the subset the library supports.
func WireSchema(t *rapid.T, o *WireOpts, depth int) ref.Schema {
	kinds := []string{"prim", "record", "array", "map", "union", "fixed"}
	weights := []int{34, 11, 17, 13, 19, 6}
	if depth >= o.MaxDepth {
		weights = []int{85, 0, 0, 0, 0, 15}
	}
	switch weighted(t, "wkind", kinds, weights) {
	case "record":
		return WireRecord(t, o, depth)
	case "array":
		it := WireSchema(t, o, depth+1)
		return ref.Schema{Kind: "array", Items: &it}
	case "map":
		it := WireSchema(t, o, depth+1)
		if Uniform(t, "fatMapValue", 25) == 0 {
			// values wider than 128 bytes in memory (the runtime keeps such map elements indirectly)
			it = ref.Schema{Kind: "record", Name: o.name("Fat")}
			for i, n := 0, 15+Uniform(t, "fatN", 12); i < n; i++ {
				it.Fields = append(it.Fields, ref.Field{Name: fmt.Sprintf("w%d", i), Type: ref.Prim([]string{"long", "long", "double", "string"}[Uniform(t, "fatKind", 4)])})
			}
		}
		return ref.Schema{Kind: "map", Values: &it}
	case "union":
		return wireUnion(t, o, depth)
	case "fixed":
		return ref.Schema{Kind: "fixed", Name: o.name("fx"), Size: rapid.SampledFrom([]int{0, 1, 2, 3, 4, 7, 8, 12, 16, 17}).Draw(t, "fsize")}
	}
	return wirePrim(t, o)
}

func wirePrim(t *rapid.T, o *WireOpts) ref.Schema {
	k := rapid.SampledFrom([]string{"boolean", "int", "long", "long", "float", "double", "double", "bytes", "string", "string", "null"}).Draw(t, "prim")
	if k == "null" && (o.Writable || rapid.IntRange(0, 3).Draw(t, "keepNull") != 0) {
		k = "long"
	}
	s := ref.Schema{Kind: k}
	if o.Logical && rapid.IntRange(0, 2).Draw(t, "logical") == 0 {
		switch k {
		case "int":
			s.LogicalType, s.ObjectForm = "date", true
		case "long":
			s.LogicalType, s.ObjectForm = rapid.SampledFrom([]string{"timestamp-millis", "timestamp-micros"}).Draw(t, "lt"), true
		}
	}
	return s
}

// WireRecord draws a record schema.
func WireRecord(t *rapid.T, o *WireOpts, depth int) ref.Schema {
	s := ref.Schema{Kind: "record", Name: o.name("R")}
	lo := 1
	if rapid.IntRange(0, 14).Draw(t, "emptyRecord") == 0 {
		lo = 0
	}
	n := UniformRange(t, "nfields", lo, 5)
	if depth <= 1 && Uniform(t, "wideRecord", 40) == 0 {
		// a wide table: more columns than fit one machine word of flags, or one byte of index
		n = []int{64, 65, 66, 100, 130, 257, 300}[Uniform(t, "wideN", 7)]
		for i := 0; i < n; i++ {
			ft := wirePrim(t, o)
			if i%9 == 4 {
				ft = ref.Schema{Kind: "union", Branches: []ref.Schema{ref.Prim("null"), wirePrim(t, o)}}
				if ft.Branches[1].Kind == "null" {
					ft.Branches[1] = ref.Prim("string")
				}
			}
			s.Fields = append(s.Fields, ref.Field{Name: fmt.Sprintf("f%d", i), Type: ft})
		}
		return s
	}
	for i := 0; i < n; i++ {
		s.Fields = append(s.Fields, ref.Field{Name: fmt.Sprintf("f%d", i), Type: WireSchema(t, o, depth+1)})
	}
	if n >= 2 && rapid.IntRange(0, 5).Draw(t, "caseTwin") == 0 {
		// two fields whose names differ only in case (Avro names are case sensitive)
		i := rapid.IntRange(0, n-1).Draw(t, "twinOf")
		j := (i + 1 + rapid.IntRange(0, n-2).Draw(t, "twin")) % n
		s.Fields[j].Name = strings.ToUpper(s.Fields[i].Name)
	}
	return s
}

func wireNonUnion(t *rapid.T, o *WireOpts, depth int) ref.Schema {
	for i := 0; i < 10; i++ {
		s := WireSchema(t, o, depth)
		if s.Kind != "union" && s.Kind != "null" {
			return s
		}
	}
	return ref.Prim("long")
}

func wireUnion(t *rapid.T, o *WireOpts, depth int) ref.Schema {
	form := rapid.IntRange(0, 11).Draw(t, "uform")
	if !o.MultiUnion && form >= 9 {
		form = rapid.IntRange(0, 8).Draw(t, "uform2")
	}
	x := wireNonUnion(t, o, depth+1)
	switch {
	case form <= 3:
		return ref.Schema{Kind: "union", Branches: []ref.Schema{ref.Prim("null"), x}}
	case form <= 7:
		return ref.Schema{Kind: "union", Branches: []ref.Schema{x, ref.Prim("null")}}
	case form == 8:
		if o.Writable {
			return ref.Schema{Kind: "union", Branches: []ref.Schema{x, ref.Prim("null")}}
		}
		return ref.Schema{Kind: "union", Branches: []ref.Schema{x}}
	case form == 9:
		// type-compatible integer / float unions
		return rapid.SampledFrom([]ref.Schema{
			{Kind: "union", Branches: []ref.Schema{ref.Prim("null"), ref.Prim("int"), ref.Prim("long")}},
			{Kind: "union", Branches: []ref.Schema{ref.Prim("int"), ref.Prim("long")}},
			{Kind: "union", Branches: []ref.Schema{ref.Prim("long"), ref.Prim("null"), ref.Prim("int")}},
			{Kind: "union", Branches: []ref.Schema{ref.Prim("float"), ref.Prim("double"), ref.Prim("null")}},
		}).Draw(t, "compatUnion")
	}
	// arbitrary distinct branches: the target skips such a field
	u := ref.Schema{Kind: "union"}
	seen := map[string]bool{}
	n := rapid.IntRange(2, 4).Draw(t, "nbranch")
	for i := 0; i < n; i++ {
		var b ref.Schema
		if rapid.IntRange(0, 3).Draw(t, "nullBranch") == 0 {
			b = ref.Prim("null")
		} else {
			b = wireNonUnion(t, o, depth+1)
		}
		key := b.Kind
		if b.Name != "" {
			key += ":" + b.Name
		}
		if seen[key] {
			continue
		}
		seen[key] = true
		u.Branches = append(u.Branches, b)
	}
	if len(u.Branches) < 2 {
		u.Branches = append(u.Branches, ref.Schema{Kind: "fixed", Name: o.name("fx"), Size: 2})
	}
	if rapid.IntRange(0, 3).Draw(t, "wideUnion") == 0 {
		// many branches: the branch index no longer fits one byte of the varint
		for n := rapid.IntRange(62, 80).Draw(t, "wideBranches"); n > 0; n-- {
			u.Branches = append(u.Branches, ref.Schema{Kind: "fixed", Name: o.name("wf"), Size: 1 + n%2})
		}
	}
	return u
}

// UnionShape classifies a union for the generators and oracles.
//
//	"nullable": exactly two branches, one of them null → NullIdx, X
//	"single":   one branch
//	"ints":     all non-null branches are int/long
//	"floats":   all non-null branches are float/double
//	"other":    anything else (only skippable)
func UnionShape(s ref.Schema) (shape string, nullIdx int) {
	nullIdx = -1
	ints, floats, nonNull := 0, 0, 0
	for i, b := range s.Branches {
		switch b.Kind {
		case "null":
			nullIdx = i
		case "int", "long":
			ints++
			nonNull++
		case "float", "double":
			floats++
			nonNull++
		default:
			nonNull++
		}
	}
	switch {
	case len(s.Branches) == 1 && nullIdx < 0:
		return "single", -1
	case len(s.Branches) == 2 && nullIdx >= 0 && nonNull == 1:
		return "nullable", nullIdx
	case nonNull >= 1 && ints == nonNull:
		return "ints", nullIdx
	case nonNull >= 1 && floats == nonNull:
		return "floats", nullIdx
	}
	return "other", nullIdx
}

func wrapPtr(t *rapid.T, ts spec.TypeSpec, max int) spec.TypeSpec {
	n := 0
	switch {
	case max == 1:
		n = rapid.SampledFrom([]int{0, 1, 1}).Draw(t, "ptrDepth")
	case max >= 2:
		n = rapid.SampledFrom([]int{0, 1, 1, 1, 2}).Draw(t, "ptrDepth")
	}
	for i := 0; i < n; i++ {
		ts = spec.Ptr(ts)
	}
	return ts
}

func min(a, b int) int {
	if a < b {
		return a
	}
	return b
}

// Target draws a Go type compatible with the schema. ok=false means the
// target has no field for this schema node (it must be skipped).
func Target(t *rapid.T, s ref.Schema, o *WireOpts, inUnion bool) (ts spec.TypeSpec, ok bool) {
	maxPtr := 1
	if inUnion {
		maxPtr = 2
	}
	if o.Writable && !inUnion {
		maxPtr = 0
	}
	switch s.Kind {
	case "null":
		return spec.TypeSpec{}, false
	case "boolean":
		if rapid.IntRange(0, 3).Draw(t, "wrapper") == 0 {
			return wrapPtr(t, spec.T("nullBool"), min(maxPtr, 1)), true
		}
		return wrapPtr(t, spec.T("bool"), maxPtr), true
	case "int", "long":
		if s.LogicalType != "" {
			return wrapPtr(t, spec.T("time"), min(maxPtr, 1)), true
		}
		if o.Logical && s.Kind == "long" && rapid.IntRange(0, 7).Draw(t, "nsTime") == 0 {
			return wrapPtr(t, spec.T("time"), min(maxPtr, 1)), true
		}
		k := rapid.SampledFrom([]string{"int", "int16", "int32", "int64", "int64", "nullInt"}).Draw(t, "intTarget")
		if k == "nullInt" {
			return wrapPtr(t, spec.T(k), min(maxPtr, 1)), true
		}
		return wrapPtr(t, spec.T(k), maxPtr), true
	case "float":
		if rapid.IntRange(0, 3).Draw(t, "wrapper") == 0 {
			return wrapPtr(t, spec.T("nullFloat"), min(maxPtr, 1)), true
		}
		return wrapPtr(t, spec.T("float32"), maxPtr), true
	case "double":
		k := rapid.SampledFrom([]string{"float64", "float64", "float32", "nullFloat"}).Draw(t, "floatTarget")
		if k == "nullFloat" {
			return wrapPtr(t, spec.T(k), min(maxPtr, 1)), true
		}
		return wrapPtr(t, spec.T(k), maxPtr), true
	case "bytes":
		return wrapPtr(t, spec.T("bytes"), maxPtr), true
	case "string":
		k := rapid.SampledFrom([]string{"string", "string", "string", "nullString", "time", "nullTime"}).Draw(t, "strTarget")
		if k != "string" {
			return wrapPtr(t, spec.T(k), min(maxPtr, 1)), true
		}
		return wrapPtr(t, spec.T(k), maxPtr), true
	case "fixed":
		return wrapPtr(t, spec.BArray(s.Size), min(maxPtr, 1)), true
	case "record":
		st := spec.TypeSpec{K: "struct"}
		for i, f := range s.Fields {
			if !o.Writable && o.Drop > 0 && rapid.IntRange(0, 99).Draw(t, "drop") < o.Drop {
				continue
			}
			ft, ok := Target(t, f.Type, o, false)
			if !ok {
				if o.Writable {
					// a covering target needs some field; null carries no data
					ft = spec.T("int64")
				} else {
					continue
				}
			}
			fs := spec.FieldSpec{Go: fmt.Sprintf("F%d", i), JSON: f.Name, T: ft}
			if o.Writable && f.Type.Kind == "union" {
				if sh, _ := UnionShape(f.Type); sh == "nullable" && !ft.IsRegistered() {
					// a plain value under a union: with omitempty its zero is the null;
					// a pointer with omitempty: only the nil pointer is the null, a
					// pointer to a zero value is a value
					if rapid.Bool().Draw(t, "omitempty") {
						// alone, or among other options of a struct shared with a JSON API
						fs.Opts = [][]string{{"omitempty"}, {"omitempty"}, {"string", "omitempty"}, {"omitempty", "string"}}[rapid.IntRange(0, 3).Draw(t, "tagOpts")]
					}
				}
			}
			if len(fs.Opts) == 0 && rapid.IntRange(0, 11).Draw(t, "stringOpt") == 0 {
				fs.Opts = []string{"string"} // an option that means nothing to Avro
			}
			st.Fields = append(st.Fields, fs)
		}
		mp := maxPtr
		if o.Writable && !inUnion {
			mp = 0
		}
		return wrapPtr(t, st, min(mp, 1)), true
	case "array":
		it, ok := Target(t, *s.Items, o, false)
		if !ok {
			return spec.TypeSpec{}, false
		}
		return wrapPtr(t, spec.Slice(it), 1), true
	case "map":
		it, ok := Target(t, *s.Values, o, false)
		if !ok {
			return spec.TypeSpec{}, false
		}
		return wrapPtr(t, spec.Map(it), 1), true
	case "union":
		shape, nullIdx := UnionShape(s)
		switch shape {
		case "nullable":
			return Target(t, s.Branches[1-nullIdx], o, true)
		case "single":
			return Target(t, s.Branches[0], o, false)
		case "ints":
			return wrapPtr(t, spec.T(rapid.SampledFrom([]string{"int", "int64", "int32"}).Draw(t, "intsTarget")), min(maxPtr, 1)), true
		case "floats":
			return wrapPtr(t, spec.T("float32"), min(maxPtr, 1)), true
		}
		return spec.TypeSpec{}, false
	}
	return spec.TypeSpec{}, false
}

// TimeString draws an RFC 3339 timestamp (or a plain date) that time.Parse
// accepts for the instant it denotes.
func TimeString(t *rapid.T) string {
	var v spec.ValueSpec
	Time(t, "ts", &v)
	if v.TZero {
		v.TSec = 1136214245
	}
	tm := v.Time()
	switch rapid.IntRange(0, 5).Draw(t, "tsForm") {
	case 0:
		return tm.UTC().Format("2006-01-02")
	case 1:
		return tm.Format(time.RFC3339)
	}
	return tm.Format(time.RFC3339Nano)
}

// intRangeFor returns the value range of an integer schema node read into /
// written from a Go kind.
func intRangeFor(schemaKind, goKind string, fit bool) (int64, int64) {
	lo, hi := int64(math.MinInt64), int64(math.MaxInt64)
	if schemaKind == "int" {
		lo, hi = math.MinInt32, math.MaxInt32
	}
	if fit {
		switch goKind {
		case "int16":
			lo, hi = maxI(lo, math.MinInt16), minI(hi, math.MaxInt16)
		case "int32":
			lo, hi = maxI(lo, math.MinInt32), minI(hi, math.MaxInt32)
		}
	}
	return lo, hi
}

func maxI(a, b int64) int64 {
	if a > b {
		return a
	}
	return b
}
func minI(a, b int64) int64 {
	if a < b {
		return a
	}
	return b
}

// WireDatum draws a datum of the schema. ts is the target it will be decoded
// into (may be the zero TypeSpec when the node is skipped): it only matters
// for strings read as times, and for keeping integers inside the target's
// width most of the time (overflow is drawn deliberately, rarely).
func WireDatum(t *rapid.T, s ref.Schema, ts spec.TypeSpec, has bool) ref.Datum {
	base := ts.StripPtr()
	switch s.Kind {
	case "null":
		return ref.Null()
	case "boolean":
		return ref.Bool(rapid.Bool().Draw(t, "b"))
	case "int", "long":
		if has && base.K == "time" {
			return ref.Datum{K: s.Kind, I: timeInt(t, s)}
		}
		fit := rapid.IntRange(0, 24).Draw(t, "overflow") != 0
		lo, hi := intRangeFor(s.Kind, base.K, has && fit)
		return ref.Datum{K: s.Kind, I: IntIn(t, "i", lo, hi)}
	case "float":
		return ref.Datum{K: "float", F: uint64(Float32Bits(t, "f"))}
	case "double":
		if has && base.K == "float32" && rapid.IntRange(0, 3).Draw(t, "f32exact") != 0 {
			return ref.Datum{K: "double", F: math.Float64bits(float64(math.Float32frombits(Float32Bits(t, "f"))))}
		}
		return ref.Datum{K: "double", F: Float64Bits(t, "f")}
	case "bytes":
		return ref.Datum{K: "bytes", S: Str(t, "s")}
	case "string":
		if has && (base.K == "time" || base.K == "nullTime") {
			return ref.Datum{K: "string", S: []byte(TimeString(t))}
		}
		return ref.Datum{K: "string", S: Str(t, "s")}
	case "fixed":
		return ref.Datum{K: "fixed", S: rapid.SliceOfN(rapid.Byte(), s.Size, s.Size).Draw(t, "fixed")}
	case "record":
		d := ref.Datum{K: "record"}
		for _, f := range s.Fields {
			var ft spec.TypeSpec
			fhas := false
			if has && base.K == "struct" {
				for _, tf := range base.Fields {
					if tf.AvroName() == f.Name {
						ft, fhas = tf.T, true
					}
				}
			}
			d.Fields = append(d.Fields, WireDatum(t, f.Type, ft, fhas))
		}
		return d
	case "array":
		d := ref.Datum{K: "array"}
		var et spec.TypeSpec
		if has && base.Elem != nil {
			et = *base.Elem
		}
		n := []int{0, 0, 1, 1, 2, 3, 4, 6}[Uniform(t, "alen", 8)]
		for i := 0; i < n; i++ {
			d.Items = append(d.Items, WireDatum(t, *s.Items, et, has))
		}
		return d
	case "map":
		d := ref.Datum{K: "map"}
		var et spec.TypeSpec
		if has && base.Elem != nil {
			et = *base.Elem
		}
		n := []int{0, 0, 1, 1, 2, 3, 4}[Uniform(t, "mlen", 7)]
		seen := map[string]bool{}
		for i := 0; i < n; i++ {
			k := string(Str(t, "key"))
			if seen[k] {
				continue
			}
			seen[k] = true
			d.Keys = append(d.Keys, k)
			d.Vals = append(d.Vals, WireDatum(t, *s.Values, et, has))
		}
		return d
	case "union":
		b := rapid.IntRange(0, len(s.Branches)-1).Draw(t, "branch")
		return ref.Union(b, WireDatum(t, s.Branches[b], ts, has))
	}
	panic("gen: no datum generator for " + s.Kind)
}

// timeInt draws the stored integer of a logical time type. Three quarters of the
// draws give an instant that is representable in int64 nanoseconds (years
// 1677-2262); the others use the whole range of the stored type (a
// timestamp-millis of year 9999 is an ordinary sentinel value).
func timeInt(t *rapid.T, s ref.Schema) int64 {
	if (s.LogicalType == "timestamp-millis" || s.LogicalType == "timestamp-micros") && rapid.IntRange(0, 3).Draw(t, "farTime") == 0 {
		if rapid.Bool().Draw(t, "sentinel") {
			// 9999-12-31T23:59:59.999, 0001-01-01, 2262-04-12, 1677-09-21, 3000-01-01 in the unit
			per := int64(1000)
			if s.LogicalType == "timestamp-micros" {
				per = 1000000
			}
			return per*rapid.SampledFrom([]int64{253402300799, -62135596800 + 1, 9223372037, -9223372037, 32503680000, 9223372036, -9223372036}).Draw(t, "farSec") + int64(rapid.IntRange(0, 999).Draw(t, "farSub"))
		}
		return IntIn(t, "farStored", math.MinInt64, math.MaxInt64)
	}
	switch s.LogicalType {
	case "date":
		if rapid.Bool().Draw(t, "dateEdge") {
			return rapid.SampledFrom([]int64{0, 1, -1, 573, -573, 365, -365, 19000, -25567, 106751, -106751, 2932896, -719162, math.MaxInt32, math.MinInt32}).Draw(t, "days")
		}
		return IntIn(t, "days", math.MinInt32, math.MaxInt32)
	case "timestamp-millis":
		return IntIn(t, "ms", math.MinInt64/1000000, math.MaxInt64/1000000)
	case "timestamp-micros":
		return IntIn(t, "us", math.MinInt64/1000, math.MaxInt64/1000)
	}
	return IntIn(t, "ns", math.MinInt64, math.MaxInt64)
}

// WireValue draws a Go value (as data) of the target type ts that lies inside
// the value range of schema s — the domain of C13: "all values within the
// schema type's range".
func WireValue(t *rapid.T, s ref.Schema, ts spec.TypeSpec) spec.ValueSpec {
	if s.Kind == "union" {
		shape, nullIdx := UnionShape(s)
		if shape != "nullable" {
			panic("gen: WireValue supports only unions of null and one other type")
		}
		return wireValueIn(t, s.Branches[1-nullIdx], ts, true)
	}
	return wireValueIn(t, s, ts, false)
}

func wireValueIn(t *rapid.T, s ref.Schema, ts spec.TypeSpec, nullable bool) spec.ValueSpec {
	var v spec.ValueSpec
	if ts.K == "ptr" {
		if nullable && rapid.IntRange(0, 3).Draw(t, "nilptr") == 0 {
			v.Nil = true
			return v
		}
		if !nullable && (ts.StripPtr().K == "slice" || ts.StripPtr().K == "map") && rapid.IntRange(0, 4).Draw(t, "nilptr") == 0 {
			v.Nil = true
			return v
		}
		p := wireValueIn(t, s, *ts.Elem, nullable)
		v.P = &p
		return v
	}
	switch ts.K {
	case "nullInt", "nullBool", "nullFloat", "nullString", "nullTime":
		v.Valid = !nullable || rapid.IntRange(0, 3).Draw(t, "valid") != 0
	}
	switch s.Kind {
	case "boolean":
		v.B = rapid.Bool().Draw(t, "b")
	case "int", "long":
		if ts.K == "time" {
			if !nullable && s.LogicalType != "" && Uniform(t, "zeroTime", 12) == 0 {
				// the zero time.Time where no union offers a null branch: an ordinary
				// value of date / timestamp-millis / timestamp-micros (year 1)
				return spec.ValueSpec{TZero: true}
			}
			unit := int64(1)
			stored := timeInt(t, s)
			var ns int64
			switch s.LogicalType {
			case "date":
				// any second of that UTC day
				sec := stored*86400 + int64(rapid.IntRange(0, 86399).Draw(t, "secOfDay"))
				v.TSec, v.TNsec = sec, int64(rapid.SampledFrom([]int{0, 0, 1, 999999999}).Draw(t, "nsec"))
				if sec == -62135596800 && v.TNsec == 0 {
					v.TSec++ // never the zero time (its null-ness is not decided by the property)
				}
				v.TOff = drawOffset(t)
				return v
			case "timestamp-millis":
				unit = 1e6
			case "timestamp-micros":
				unit = 1e3
			}
			// seconds and nanoseconds straight from the stored integer (no
			// intermediate nanosecond count, which only covers 1677-2262)
			perSec := int64(1e9) / unit
			sec, sub := floorDivMod(stored, perSec)
			rem := int64(0)
			if unit > 1 && rapid.Bool().Draw(t, "subUnit") {
				rem = rapid.Int64Range(0, unit-1).Draw(t, "rem")
			}
			v.TSec, v.TNsec = sec, sub*unit+rem
			if v.TSec == -62135596800 && v.TNsec == 0 {
				v.TNsec = unit // never the zero time
			}
			v.TOff = drawOffset(t)
			_ = ns
			return v
		}
		goKind := ts.K
		if ts.K == "nullInt" {
			goKind = "int64"
		}
		lo, hi := intRangeFor(s.Kind, goKind, true)
		v.I = IntIn(t, "i", lo, hi)
	case "float":
		b := Float32Bits(t, "f")
		if ts.K == "nullFloat" {
			v.F = math.Float64bits(float64(math.Float32frombits(b)))
		} else {
			v.F = uint64(b)
		}
	case "double":
		if ts.K == "float32" {
			v.F = uint64(Float32Bits(t, "f"))
		} else {
			v.F = Float64Bits(t, "f")
		}
	case "bytes":
		if rapid.IntRange(0, 5).Draw(t, "nilbytes") == 0 {
			v.Nil = true
		} else {
			v.S = Str(t, "s")
		}
	case "string":
		if ts.K == "time" || ts.K == "nullTime" {
			Time(t, "t", &v)
			if v.TZero {
				v.TZero, v.TSec = false, 1136214245
			}
		} else {
			v.S = Str(t, "s")
		}
	case "fixed":
		v.S = rapid.SliceOfN(rapid.Byte(), s.Size, s.Size).Draw(t, "fixed")
	case "record":
		for _, tf := range ts.Fields {
			var fs *ref.Schema
			for i := range s.Fields {
				if s.Fields[i].Name == tf.AvroName() {
					fs = &s.Fields[i].Type
				}
			}
			if fs == nil {
				v.Fields = append(v.Fields, spec.ValueSpec{})
				continue
			}
			v.Fields = append(v.Fields, WireValue(t, *fs, tf.T))
		}
	case "array":
		switch Uniform(t, "slicecls", 6) {
		case 0:
			v.Nil = true
		case 1:
			v.Elems = []spec.ValueSpec{}
		default:
			n := UniformRange(t, "len", 1, 4)
			for i := 0; i < n; i++ {
				v.Elems = append(v.Elems, WireValue(t, *s.Items, *ts.Elem))
			}
			switch s.Items.Kind {
			case "long", "double":
				if (ts.Elem.K == "int64" || ts.Elem.K == "float64" || ts.Elem.K == "int") && Uniform(t, "hugeArray", 1200) == 0 {
					// more than a megabyte of items in memory, a few drawn ones in turn
					v.Rep = []int{131073, 140001}[Uniform(t, "hugeLen", 2)]
				}
			}
		}
	case "map":
		switch Uniform(t, "mapcls", 6) {
		case 0:
			v.Nil = true
		case 1:
			v.Keys, v.Elems = [][]byte{}, []spec.ValueSpec{}
		default:
			n := UniformRange(t, "len", 1, 4)
			seen := map[string]bool{}
			for i := 0; i < n; i++ {
				k := Str(t, "key")
				if seen[string(k)] {
					continue
				}
				seen[string(k)] = true
				v.Keys = append(v.Keys, k)
				v.Elems = append(v.Elems, WireValue(t, *s.Values, *ts.Elem))
			}
		}
	default:
		panic("gen: WireValue: no rule for schema kind " + s.Kind)
	}
	return v
}

func drawOffset(t *rapid.T) int {
	if rapid.Bool().Draw(t, "utc") {
		return 0
	}
	return 60 * rapid.IntRange(-14*60, 14*60).Draw(t, "off")
}

func floorDivMod(a, b int64) (int64, int64) {
	q, r := a/b, a%b
	if r < 0 {
		q--
		r += b
	}
	return q, r
}
