// Package iso evaluates cases in a worker subprocess, so that outcomes the Go
// runtime does not let a test recover from — fatal "out of memory", stack
// overflow, a wedged loop, heap corruption detected by the collector — become
// ordinary failing verdicts for the case in flight.
//
// The test binary re-executes itself (-test.run ^TestIsoWorker$); requests and
// responses are length-prefixed JSON on two extra pipes (fd 3 / fd 4), so
// nothing the test framework or the runtime prints can corrupt the protocol.
package iso

import (
	"bytes"
	"encoding/binary"
	"encoding/json"
	"fmt"
	"io"
	"os"
	"os/exec"
	"runtime"
	"runtime/debug"
	"sync"
	"syscall"
	"time"
)

type Request struct {
	Entry string          `json:"entry"`
	Case  json.RawMessage `json:"case"`
}

type Response struct {
	Err        string          `json:"err,omitempty"`   // the handler's verdict: "" = case passed
	Panic      string          `json:"panic,omitempty"` // a panic escaped the handler
	HeapGrowth int64           `json:"heap_growth"`     // growth of MemStats.HeapSys during the call
	TotalAlloc int64           `json:"total_alloc"`     // bytes allocated during the call (information only)
	ElapsedNs  int64           `json:"elapsed_ns"`
	Result     json.RawMessage `json:"result,omitempty"`
}

// Handler runs one case inside the worker. A returned error is the verdict
// "case fails" with that message.
type Handler func(raw json.RawMessage) (json.RawMessage, error)

const (
	EnvWorker = "VERIF_ISO_WORKER"
	// AddressSpaceLimit bounds the worker so that a runaway allocation ends in
	// a clean fatal error instead of taking the machine down.
	AddressSpaceLimit = 6 << 30
)

func IsWorker() bool { return os.Getenv(EnvWorker) == "1" }

func writeMsg(w io.Writer, v interface{}) error {
	b, err := json.Marshal(v)
	if err != nil {
		return err
	}
	var l [4]byte
	binary.LittleEndian.PutUint32(l[:], uint32(len(b)))
	if _, err := w.Write(l[:]); err != nil {
		return err
	}
	_, err = w.Write(b)
	return err
}

func readMsg(r io.Reader, v interface{}) error {
	var l [4]byte
	if _, err := io.ReadFull(r, l[:]); err != nil {
		return err
	}
	b := make([]byte, binary.LittleEndian.Uint32(l[:]))
	if _, err := io.ReadFull(r, b); err != nil {
		return err
	}
	return json.Unmarshal(b, v)
}

// Serve is the worker's main loop.
func Serve(handlers map[string]Handler) {
	lim := syscall.Rlimit{Cur: AddressSpaceLimit, Max: AddressSpaceLimit}
	_ = syscall.Setrlimit(syscall.RLIMIT_AS, &lim)
	in := os.NewFile(3, "requests")
	out := os.NewFile(4, "responses")
	var ms runtime.MemStats
	for {
		var req Request
		if err := readMsg(in, &req); err != nil {
			return
		}
		h, ok := handlers[req.Entry]
		var resp Response
		if !ok {
			resp.Err = "VERIF-INCONCLUSIVE no iso handler for entry " + req.Entry
			writeMsg(out, resp)
			continue
		}
		runtime.ReadMemStats(&ms)
		heap0, total0 := ms.HeapSys, ms.TotalAlloc
		t0 := time.Now()
		func() {
			defer func() {
				if r := recover(); r != nil {
					resp.Panic = fmt.Sprintf("%v\n%s", r, debug.Stack())
				}
			}()
			res, err := h(req.Case)
			resp.Result = res
			if err != nil {
				resp.Err = err.Error()
			}
		}()
		resp.ElapsedNs = time.Since(t0).Nanoseconds()
		runtime.ReadMemStats(&ms)
		resp.HeapGrowth = int64(ms.HeapSys) - int64(heap0)
		resp.TotalAlloc = int64(ms.TotalAlloc) - int64(total0)
		if err := writeMsg(out, resp); err != nil {
			return
		}
	}
}

// Outcome of a Call.
type Outcome int

const (
	Returned Outcome = iota
	Died
	TimedOut
)

type tailBuffer struct {
	mu   sync.Mutex
	head []byte
	buf  []byte
}

func (t *tailBuffer) Write(p []byte) (int, error) {
	t.mu.Lock()
	if len(t.head) < 1500 {
		n := 1500 - len(t.head)
		if n > len(p) {
			n = len(p)
		}
		t.head = append(t.head, p[:n]...)
	}
	t.buf = append(t.buf, p...)
	if len(t.buf) > 16384 {
		t.buf = t.buf[len(t.buf)-16384:]
	}
	t.mu.Unlock()
	return len(p), nil
}

func (t *tailBuffer) String() string {
	t.mu.Lock()
	defer t.mu.Unlock()
	// the head of a crash report names the fatal error; keep head and tail
	if len(t.buf) > 2700 {
		return string(t.head) + "\n…\n" + string(t.buf[len(t.buf)-1200:])
	}
	return string(t.buf)
}

// Worker is a running worker process.
type Worker struct {
	cmd    *exec.Cmd
	reqW   *os.File
	respR  *os.File
	stderr *tailBuffer
	env    []string
	calls  int
	Spawns int
}

// NewWorker starts a worker with extra environment (e.g. GODEBUG=clobberfree=1).
func NewWorker(env ...string) (*Worker, error) {
	w := &Worker{env: env}
	if err := w.start(); err != nil {
		return nil, err
	}
	return w, nil
}

func (w *Worker) start() error {
	reqR, reqW, err := os.Pipe()
	if err != nil {
		return err
	}
	respR, respW, err := os.Pipe()
	if err != nil {
		return err
	}
	cmd := exec.Command(os.Args[0], "-test.run", "^TestIsoWorker$", "-test.timeout", "0")
	cmd.Env = append(os.Environ(), EnvWorker+"=1", "VERIF_OUT=")
	cmd.Env = append(cmd.Env, w.env...)
	cmd.ExtraFiles = []*os.File{reqR, respW}
	w.stderr = &tailBuffer{}
	cmd.Stderr = w.stderr
	cmd.Stdout = w.stderr
	if err := cmd.Start(); err != nil {
		return err
	}
	reqR.Close()
	respW.Close()
	w.cmd, w.reqW, w.respR = cmd, reqW, respR
	w.Spawns++
	w.calls = 0
	return nil
}

// Close stops the worker.
func (w *Worker) Close() {
	if w.cmd == nil {
		return
	}
	w.reqW.Close()
	done := make(chan struct{})
	go func() { w.cmd.Wait(); close(done) }()
	select {
	case <-done:
	case <-time.After(2 * time.Second):
		w.cmd.Process.Kill()
		<-done
	}
	w.respR.Close()
	w.cmd = nil
}

func (w *Worker) kill() {
	if w.cmd != nil {
		w.cmd.Process.Kill()
		w.cmd.Wait()
		w.reqW.Close()
		w.respR.Close()
		w.cmd = nil
	}
}

// Restart replaces the worker process (used after a verdict that raised the
// heap high-water mark, so that the next measurement starts from a small heap).
func (w *Worker) Restart() error {
	w.Close()
	return w.start()
}

// Call evaluates one case. On Died / TimedOut the worker is replaced and the
// returned text holds the worker's last output.
func (w *Worker) Call(entry string, cs interface{}, timeout time.Duration) (Response, Outcome, string) {
	raw, err := json.Marshal(cs)
	if err != nil {
		return Response{Err: "VERIF-INCONCLUSIVE cannot marshal case: " + err.Error()}, Returned, ""
	}
	if w.cmd == nil {
		if err := w.start(); err != nil {
			return Response{Err: "VERIF-INCONCLUSIVE cannot start worker: " + err.Error()}, Returned, ""
		}
	}
	w.calls++
	type result struct {
		resp Response
		err  error
	}
	ch := make(chan result, 1)
	respR := w.respR
	go func() {
		var r result
		if err := writeMsg(w.reqW, Request{Entry: entry, Case: raw}); err != nil {
			r.err = err
			ch <- r
			return
		}
		r.err = readMsg(respR, &r.resp)
		ch <- r
	}()
	select {
	case r := <-ch:
		if r.err != nil {
			// worker died: collect its exit status and output
			state := ""
			if w.cmd != nil {
				w.cmd.Wait()
				state = w.cmd.ProcessState.String()
			}
			text := fmt.Sprintf("worker process died (%s)\n%s", state, w.stderr.String())
			w.reqW.Close()
			w.respR.Close()
			w.cmd = nil
			if err := w.start(); err != nil {
				text += "\nVERIF-INCONCLUSIVE cannot restart worker: " + err.Error()
			}
			return Response{}, Died, text
		}
		return r.resp, Returned, ""
	case <-time.After(timeout):
		text := fmt.Sprintf("no answer within %v\n%s", timeout, w.stderr.String())
		w.kill()
		<-ch
		if err := w.start(); err != nil {
			text += "\nVERIF-INCONCLUSIVE cannot restart worker: " + err.Error()
		}
		return Response{}, TimedOut, text
	}
}

// Describe renders a failing outcome for an error message.
func Describe(o Outcome, resp Response, text string) string {
	var b bytes.Buffer
	switch o {
	case Died:
		b.WriteString("process death: " + text)
	case TimedOut:
		b.WriteString("did not terminate: " + text)
	default:
		if resp.Panic != "" {
			b.WriteString("panic: " + resp.Panic)
		} else {
			b.WriteString(resp.Err)
		}
	}
	return b.String()
}
