package ref

import (
	"bytes"
	"compress/flate"
	"encoding/binary"
	"fmt"
	"hash/crc32"
	"io"
	"sort"

	"github.com/golang/snappy"
)

var Magic = []byte{'O', 'b', 'j', 1}

// Block is one data block of a container file.
type Block struct {
	Count   int64
	Payload []byte // uncompressed
}

// FileSpec describes a container file to write.
type FileSpec struct {
	Schema []byte // schema JSON
	Codec  string // "null", "deflate", "snappy"; "" writes no avro.codec entry (payload uncompressed)
	// CodecRaw, when non-nil, is written verbatim as the avro.codec value while
	// blocks are still compressed according to Codec (used for unknown-codec cases).
	CodecRaw  []byte
	NoSchema  bool
	ExtraMeta map[string][]byte
	Sync      [16]byte
	Blocks    []Block
	// MetaSplit writes the metadata map in two blocks instead of one.
	MetaSplit bool
	// MetaSized writes each metadata block with a negative count followed by its
	// size in bytes (the second form the specification gives for map blocks).
	MetaSized bool
	// MetaReverse writes the entries in reverse order (avro.codec before avro.schema).
	MetaReverse bool
}

// Compress applies the container codec to a block payload.
func Compress(codec string, payload []byte) ([]byte, error) {
	switch codec {
	case "", "null":
		return payload, nil
	case "deflate":
		var out bytes.Buffer
		w, err := flate.NewWriter(&out, flate.DefaultCompression)
		if err != nil {
			return nil, err
		}
		if _, err := w.Write(payload); err != nil {
			return nil, err
		}
		if err := w.Close(); err != nil {
			return nil, err
		}
		return out.Bytes(), nil
	case "snappy":
		out := snappy.Encode(nil, payload)
		var crc [4]byte
		binary.BigEndian.PutUint32(crc[:], crc32.ChecksumIEEE(payload))
		return append(out, crc[:]...), nil
	}
	return nil, fmt.Errorf("ref: unknown codec %q", codec)
}

// Decompress inverts Compress and validates: the deflate stream must end
// cleanly and use all input, the snappy CRC must match.
func Decompress(codec string, data []byte) ([]byte, error) { return decompress(codec, data, true) }

// DecompressLenient is Decompress without the "no bytes after the end of the
// deflate stream" rule: it rejects exactly what compress/flate (or snappy +
// CRC) rejects. C07 uses it: the property speaks of blocks "the decompressor
// rejects", and compress/flate stops at the final block without looking further.
func DecompressLenient(codec string, data []byte) ([]byte, error) {
	return decompress(codec, data, false)
}

func decompress(codec string, data []byte, strictTail bool) ([]byte, error) {
	switch codec {
	case "", "null":
		return data, nil
	case "deflate":
		br := bytes.NewReader(data)
		r := flate.NewReader(br)
		out, err := io.ReadAll(r)
		if err != nil {
			return nil, fmt.Errorf("ref: deflate: %w", err)
		}
		if strictTail && br.Len() != 0 {
			return nil, fmt.Errorf("ref: %d bytes after the end of the deflate stream", br.Len())
		}
		return out, nil
	case "snappy":
		if len(data) < 4 {
			return nil, fmt.Errorf("ref: snappy block of %d bytes has no room for a CRC", len(data))
		}
		// the block states its decoded length: snappy never expands by more than about 21x
		if n, err := snappy.DecodedLen(data[:len(data)-4]); err != nil || n > 32*len(data)+1024 {
			return nil, fmt.Errorf("ref: snappy block of %d bytes claims %d decoded bytes (%v)", len(data), n, err)
		}
		out, err := snappy.Decode(nil, data[:len(data)-4])
		if err != nil {
			return nil, fmt.Errorf("ref: snappy: %w", err)
		}
		if crc32.ChecksumIEEE(out) != binary.BigEndian.Uint32(data[len(data)-4:]) {
			return nil, fmt.Errorf("ref: snappy CRC mismatch")
		}
		return out, nil
	}
	return nil, fmt.Errorf("ref: unknown codec %q", codec)
}

// BlockLayout locates one block inside a written file.
type BlockLayout struct {
	Start        int // offset of the count varint
	CountEnd     int
	SizeEnd      int // end of the size varint = start of the compressed payload
	PayloadEnd   int // end of compressed payload = start of sync
	End          int // end of sync
	Count        int64
	Decompressed []byte
}

// FileLayout is what WriteFile/ParseFile know about where things are.
type FileLayout struct {
	Meta      map[string][]byte
	Sync      [16]byte
	HeaderEnd int
	SyncStart int // offset of the header's sync marker
	Blocks    []BlockLayout
}

func appendBytes(b []byte, v []byte) []byte {
	b = AppendLong(b, int64(len(v)))
	return append(b, v...)
}

// WriteFile renders a container file and reports its layout.
func WriteFile(fs FileSpec) ([]byte, FileLayout, error) {
	var lay FileLayout
	lay.Sync = fs.Sync
	lay.Meta = map[string][]byte{}
	out := append([]byte(nil), Magic...)
	type kv struct {
		k string
		v []byte
	}
	var entries []kv
	if !fs.NoSchema {
		entries = append(entries, kv{"avro.schema", fs.Schema})
	}
	if fs.CodecRaw != nil {
		entries = append(entries, kv{"avro.codec", fs.CodecRaw})
	} else if fs.Codec != "" {
		entries = append(entries, kv{"avro.codec", []byte(fs.Codec)})
	}
	var extra []string
	for k := range fs.ExtraMeta {
		extra = append(extra, k)
	}
	sort.Strings(extra)
	for _, k := range extra {
		entries = append(entries, kv{k, fs.ExtraMeta[k]})
	}
	for _, e := range entries {
		lay.Meta[e.k] = e.v
	}
	if fs.MetaReverse {
		for i, j := 0, len(entries)-1; i < j; i, j = i+1, j-1 {
			entries[i], entries[j] = entries[j], entries[i]
		}
	}
	writeEntries := func(es []kv) {
		if len(es) == 0 {
			return
		}
		var body []byte
		for _, e := range es {
			body = appendBytes(body, []byte(e.k))
			body = appendBytes(body, e.v)
		}
		if fs.MetaSized {
			out = AppendLong(out, -int64(len(es)))
			out = AppendLong(out, int64(len(body)))
		} else {
			out = AppendLong(out, int64(len(es)))
		}
		out = append(out, body...)
	}
	if fs.MetaSplit && len(entries) >= 2 {
		writeEntries(entries[:1])
		writeEntries(entries[1:])
	} else {
		writeEntries(entries)
	}
	out = AppendLong(out, 0)
	lay.SyncStart = len(out)
	out = append(out, fs.Sync[:]...)
	lay.HeaderEnd = len(out)
	for _, blk := range fs.Blocks {
		var bl BlockLayout
		bl.Start = len(out)
		bl.Count = blk.Count
		bl.Decompressed = blk.Payload
		out = AppendLong(out, blk.Count)
		bl.CountEnd = len(out)
		comp, err := Compress(fs.Codec, blk.Payload)
		if err != nil {
			return nil, lay, err
		}
		out = AppendLong(out, int64(len(comp)))
		bl.SizeEnd = len(out)
		out = append(out, comp...)
		bl.PayloadEnd = len(out)
		out = append(out, fs.Sync[:]...)
		bl.End = len(out)
		lay.Blocks = append(lay.Blocks, bl)
	}
	return out, lay, nil
}

// ParseHeader parses magic, metadata and the header's sync marker only (no block
// is touched, nothing is decompressed).
func ParseHeader(data []byte) (FileLayout, error) {
	lay, _, err := parseHeader(data)
	return lay, err
}

func parseHeader(data []byte) (FileLayout, *Decoder, error) {
	var lay FileLayout
	if len(data) < 4 || !bytes.Equal(data[:4], Magic) {
		return lay, nil, fmt.Errorf("ref: bad magic")
	}
	d := &Decoder{Buf: data, Pos: 4}
	lay.Meta = map[string][]byte{}
	for {
		n, err := d.long("count")
		if err != nil {
			return lay, nil, fmt.Errorf("ref: metadata count: %w", err)
		}
		if n == 0 {
			break
		}
		if n < 0 {
			n = -n
			if _, err := d.long("size"); err != nil {
				return lay, nil, err
			}
		}
		for i := int64(0); i < n; i++ {
			kl, err := d.long("length")
			if err != nil {
				return lay, nil, err
			}
			k, err := d.take("key", kl)
			if err != nil {
				return lay, nil, fmt.Errorf("ref: metadata key: %w", err)
			}
			vl, err := d.long("length")
			if err != nil {
				return lay, nil, err
			}
			v, err := d.take("payload", vl)
			if err != nil {
				return lay, nil, fmt.Errorf("ref: metadata value: %w", err)
			}
			lay.Meta[string(k)] = append([]byte(nil), v...)
		}
	}
	lay.SyncStart = d.Pos
	s, err := d.take("sync", 16)
	if err != nil {
		return lay, nil, fmt.Errorf("ref: header sync: %w", err)
	}
	copy(lay.Sync[:], s)
	lay.HeaderEnd = d.Pos
	if _, ok := lay.Meta["avro.schema"]; !ok {
		return lay, nil, fmt.Errorf("ref: no avro.schema in header")
	}
	return lay, d, nil
}

// ParseFile is the strict reference reader for container files. It validates
// magic, the metadata map encoding, that avro.schema is present, the codec
// name, each block's size, decompression (snappy CRC, clean deflate end), the
// sync marker after each block and that nothing is left in the file.
func ParseFile(data []byte) (FileLayout, error) {
	lay, d, err := parseHeader(data)
	if err != nil {
		return lay, err
	}
	codec := "null"
	if c, ok := lay.Meta["avro.codec"]; ok {
		codec = string(c)
	}
	switch codec {
	case "null", "deflate", "snappy":
	default:
		return lay, fmt.Errorf("ref: unknown codec %q", codec)
	}
	for d.Pos < len(data) {
		var bl BlockLayout
		bl.Start = d.Pos
		if bl.Count, err = d.long("count"); err != nil {
			return lay, fmt.Errorf("ref: block count: %w", err)
		}
		if bl.Count < 0 {
			return lay, fmt.Errorf("ref: negative block count %d", bl.Count)
		}
		bl.CountEnd = d.Pos
		size, err := d.long("size")
		if err != nil {
			return lay, fmt.Errorf("ref: block size: %w", err)
		}
		bl.SizeEnd = d.Pos
		comp, err := d.take("payload", size)
		if err != nil {
			return lay, fmt.Errorf("ref: block payload: %w", err)
		}
		bl.PayloadEnd = d.Pos
		if bl.Decompressed, err = Decompress(codec, comp); err != nil {
			return lay, err
		}
		sy, err := d.take("sync", 16)
		if err != nil {
			return lay, fmt.Errorf("ref: block sync: %w", err)
		}
		if !bytes.Equal(sy, lay.Sync[:]) {
			return lay, fmt.Errorf("ref: block sync marker differs from header")
		}
		bl.End = d.Pos
		lay.Blocks = append(lay.Blocks, bl)
	}
	return lay, nil
}

// ReadRecords parses a whole file and decodes every block under the embedded
// schema, requiring each payload to be consumed exactly.
func ReadRecords(data []byte) (Schema, FileLayout, [][]Datum, error) {
	lay, err := ParseFile(data)
	if err != nil {
		return Schema{}, lay, nil, err
	}
	s, err := ParseSchema(lay.Meta["avro.schema"])
	if err != nil {
		return Schema{}, lay, nil, fmt.Errorf("ref: embedded schema: %w", err)
	}
	var out [][]Datum
	for i, b := range lay.Blocks {
		ds, err := DecodeN(s, b.Decompressed, int(b.Count))
		if err != nil {
			return s, lay, nil, fmt.Errorf("ref: block %d: %w", i, err)
		}
		out = append(out, ds)
	}
	return s, lay, out, nil
}
