package ref

import (
	"bytes"
	"errors"
	"fmt"
	"math"
	"sort"
)

// Datum is a value of an Avro schema. K repeats the schema kind so a datum can
// be printed and compared without its schema.
type Datum struct {
	K      string   `json:"k"`
	B      bool     `json:"b,omitempty"`
	I      int64    `json:"i,omitempty"`
	F      uint64   `json:"f,omitempty"` // IEEE bits: float32 bits for "float", float64 bits for "double"
	S      []byte   `json:"s,omitempty"` // bytes, string, fixed
	Fields []Datum  `json:"fields,omitempty"`
	Items  []Datum  `json:"items,omitempty"`
	Keys   []string `json:"keys,omitempty"`
	Vals   []Datum  `json:"vals,omitempty"`
	Branch int      `json:"branch,omitempty"`
	U      *Datum   `json:"u,omitempty"`
}

func Null() Datum            { return Datum{K: "null"} }
func Long(i int64) Datum     { return Datum{K: "long", I: i} }
func Int(i int64) Datum      { return Datum{K: "int", I: i} }
func Bool(b bool) Datum      { return Datum{K: "boolean", B: b} }
func Str(s string) Datum     { return Datum{K: "string", S: []byte(s)} }
func Bytes(b []byte) Datum   { return Datum{K: "bytes", S: b} }
func Double(f float64) Datum { return Datum{K: "double", F: math.Float64bits(f)} }
func Float(f float32) Datum  { return Datum{K: "float", F: uint64(math.Float32bits(f))} }
func Union(branch int, d Datum) Datum {
	return Datum{K: "union", Branch: branch, U: &d}
}

// Equal compares datums; maps compare as maps (a repeated key keeps its last
// value, as any map-building reader would), floats by bit pattern.
func (d Datum) Equal(o Datum) bool { return d.Diff(o, "") == "" }

func (d Datum) Diff(o Datum, path string) string {
	if d.K != o.K {
		return fmt.Sprintf("%s: kind %s vs %s", path, d.K, o.K)
	}
	switch d.K {
	case "null":
	case "boolean":
		if d.B != o.B {
			return fmt.Sprintf("%s: %v vs %v", path, d.B, o.B)
		}
	case "int", "long", "enum":
		if d.I != o.I {
			return fmt.Sprintf("%s: %d vs %d", path, d.I, o.I)
		}
	case "float", "double":
		if d.F != o.F {
			return fmt.Sprintf("%s: float bits %#x vs %#x", path, d.F, o.F)
		}
	case "bytes", "string", "fixed":
		if !bytes.Equal(d.S, o.S) {
			return fmt.Sprintf("%s: %q vs %q", path, d.S, o.S)
		}
	case "record":
		if len(d.Fields) != len(o.Fields) {
			return fmt.Sprintf("%s: %d fields vs %d", path, len(d.Fields), len(o.Fields))
		}
		for i := range d.Fields {
			if s := d.Fields[i].Diff(o.Fields[i], fmt.Sprintf("%s.%d", path, i)); s != "" {
				return s
			}
		}
	case "array":
		if len(d.Items) != len(o.Items) {
			return fmt.Sprintf("%s: %d items vs %d", path, len(d.Items), len(o.Items))
		}
		for i := range d.Items {
			if s := d.Items[i].Diff(o.Items[i], fmt.Sprintf("%s[%d]", path, i)); s != "" {
				return s
			}
		}
	case "map":
		a, b := d.AsMap(), o.AsMap()
		if len(a) != len(b) {
			return fmt.Sprintf("%s: %d map entries vs %d", path, len(a), len(b))
		}
		keys := make([]string, 0, len(a))
		for k := range a {
			keys = append(keys, k)
		}
		sort.Strings(keys)
		for _, k := range keys {
			bv, ok := b[k]
			if !ok {
				return fmt.Sprintf("%s: key %q missing", path, k)
			}
			if s := a[k].Diff(bv, fmt.Sprintf("%s{%q}", path, k)); s != "" {
				return s
			}
		}
	case "union":
		if d.Branch != o.Branch {
			return fmt.Sprintf("%s: union branch %d vs %d", path, d.Branch, o.Branch)
		}
		return d.U.Diff(*o.U, path+"|")
	default:
		return fmt.Sprintf("%s: unknown datum kind %q", path, d.K)
	}
	return ""
}

func (d Datum) AsMap() map[string]Datum {
	m := make(map[string]Datum, len(d.Keys))
	for i, k := range d.Keys {
		m[k] = d.Vals[i]
	}
	return m
}

// ---------------------------------------------------------------------------
// varints, written from the specification text: "int and long values are
// written using variable-length zig-zag coding".

// ZigZag maps a signed value to an unsigned one: 0→0, -1→1, 1→2, -2→3 …
func ZigZag(v int64) uint64 {
	if v >= 0 {
		return uint64(v) * 2
	}
	return uint64(-(v+1))*2 + 1
}

func UnZigZag(u uint64) int64 {
	if u%2 == 0 {
		return int64(u / 2)
	}
	return -int64(u/2) - 1
}

// AppendLong appends the shortest base-128 little-endian encoding of the
// zig-zag value: seven bits per byte, high bit set on all but the last byte.
func AppendLong(b []byte, v int64) []byte {
	u := ZigZag(v)
	for {
		low := byte(u % 128)
		u /= 128
		if u == 0 {
			return append(b, low)
		}
		b = append(b, low+128)
	}
}

var (
	ErrTruncated = errors.New("ref: truncated")
	ErrOverflow  = errors.New("ref: varint overflows 64 bits")
)

// ReadLong reads a varint. It returns the value, the number of bytes consumed
// and an error for a truncated varint or one that does not fit 64 bits (more
// than ten bytes, or a tenth byte above 1). Non-shortest encodings that fit are
// accepted (the specification does not forbid a reader from accepting them).
func ReadLong(b []byte) (int64, int, error) {
	var u uint64
	for i := 0; ; i++ {
		if i >= len(b) {
			return 0, i, ErrTruncated
		}
		c := b[i]
		if i == 9 && c > 1 {
			return 0, i + 1, ErrOverflow
		}
		if i > 9 {
			return 0, i + 1, ErrOverflow
		}
		// multiply by 128^i without overflow: i ≤ 9 and payload fits by the rule above
		u += uint64(c%128) << (7 * uint(i))
		if c < 128 {
			return UnZigZag(u), i + 1, nil
		}
	}
}

// ---------------------------------------------------------------------------
// Encoding choices

// Choices decides, for every array and map written, how the entries are
// partitioned into blocks and which blocks carry a byte-size prefix. Bits are
// consumed in order; when exhausted every collection is written canonically
// (one block, no size).
type Choices struct {
	Bits []byte
	pos  int
}

func (c *Choices) next(n int) int {
	if c == nil || c.pos >= len(c.Bits) || n <= 1 {
		return 0
	}
	v := int(c.Bits[c.pos]) % n
	c.pos++
	return v
}

// Stats about one Encode call, used for "non-trivial" classification.
type EncStats struct {
	MultiBlock int // collections written in ≥ 2 blocks
	Sized      int // blocks written with a size prefix
	EmptyBlock int
}

type Encoder struct {
	C     *Choices
	Stats EncStats
}

// Encode appends the binary encoding of d under s.
func (e *Encoder) Encode(b []byte, s Schema, d Datum) ([]byte, error) {
	if s.Kind != d.K {
		return nil, fmt.Errorf("datum kind %s under schema %s", d.K, s.Kind)
	}
	switch s.Kind {
	case "null":
		return b, nil
	case "boolean":
		if d.B {
			return append(b, 1), nil
		}
		return append(b, 0), nil
	case "int", "long", "enum":
		return AppendLong(b, d.I), nil
	case "float":
		u := uint32(d.F)
		return append(b, byte(u), byte(u>>8), byte(u>>16), byte(u>>24)), nil
	case "double":
		u := d.F
		for i := 0; i < 8; i++ {
			b = append(b, byte(u>>(8*uint(i))))
		}
		return b, nil
	case "bytes", "string":
		b = AppendLong(b, int64(len(d.S)))
		return append(b, d.S...), nil
	case "fixed":
		if len(d.S) != s.Size {
			return nil, fmt.Errorf("fixed datum has %d bytes, schema size %d", len(d.S), s.Size)
		}
		return append(b, d.S...), nil
	case "record":
		if len(d.Fields) != len(s.Fields) {
			return nil, fmt.Errorf("record datum has %d fields, schema %d", len(d.Fields), len(s.Fields))
		}
		var err error
		for i, f := range s.Fields {
			if b, err = e.Encode(b, f.Type, d.Fields[i]); err != nil {
				return nil, err
			}
		}
		return b, nil
	case "array":
		return e.blocks(b, len(d.Items), func(b []byte, i int) ([]byte, error) {
			return e.Encode(b, *s.Items, d.Items[i])
		})
	case "map":
		return e.blocks(b, len(d.Keys), func(b []byte, i int) ([]byte, error) {
			b = AppendLong(b, int64(len(d.Keys[i])))
			b = append(b, d.Keys[i]...)
			return e.Encode(b, *s.Values, d.Vals[i])
		})
	case "union":
		if d.Branch < 0 || d.Branch >= len(s.Branches) {
			return nil, fmt.Errorf("union branch %d of %d", d.Branch, len(s.Branches))
		}
		b = AppendLong(b, int64(d.Branch))
		return e.Encode(b, s.Branches[d.Branch], *d.U)
	}
	return nil, fmt.Errorf("unknown schema kind %q", s.Kind)
}

func (e *Encoder) blocks(b []byte, n int, item func([]byte, int) ([]byte, error)) ([]byte, error) {
	i := 0
	nblocks := 0
	for i < n {
		// block length: 0 = all the rest, otherwise 1..rest
		take := n - i
		if c := e.C.next(4); c != 0 && take > 1 {
			take = 1 + e.C.next(take)
		}
		sized := e.C.next(3) == 1
		var body []byte
		var err error
		for k := 0; k < take; k++ {
			if body, err = item(body, i+k); err != nil {
				return nil, err
			}
		}
		if sized {
			b = AppendLong(b, -int64(take))
			b = AppendLong(b, int64(len(body)))
			e.Stats.Sized++
		} else {
			b = AppendLong(b, int64(take))
		}
		b = append(b, body...)
		i += take
		nblocks++
	}
	if nblocks >= 2 {
		e.Stats.MultiBlock++
	}
	return AppendLong(b, 0), nil
}

func Encode(s Schema, d Datum, c *Choices) ([]byte, error) {
	e := Encoder{C: c}
	return e.Encode(nil, s, d)
}

// ---------------------------------------------------------------------------
// Decoding

// Span is the position of one token of an encoding.
type Span struct {
	Kind  string // length, count, size, selector, varint, payload, bool, float, key
	Start int
	End   int
	Val   int64 // decoded value for varint-like tokens
}

type Decoder struct {
	Buf   []byte
	Pos   int
	Spans []Span
	Trace bool
	// MaxItems guards the reference decoder itself against absurd counts.
	MaxItems int64
	// Canonical also rejects varints that are not in shortest form (something
	// no conformant writer produces, though a lenient reader may accept it).
	Canonical bool
	depth     int
}

func (d *Decoder) span(kind string, start int, v int64) {
	if d.Trace {
		d.Spans = append(d.Spans, Span{Kind: kind, Start: start, End: d.Pos, Val: v})
	}
}

func (d *Decoder) long(kind string) (int64, error) {
	v, n, err := ReadLong(d.Buf[d.Pos:])
	if err != nil {
		return 0, err
	}
	if d.Canonical && n != len(AppendLong(nil, v)) {
		return 0, fmt.Errorf("ref: varint for %d is not in shortest form", v)
	}
	start := d.Pos
	d.Pos += n
	d.span(kind, start, v)
	return v, nil
}

func (d *Decoder) take(kind string, n int64) ([]byte, error) {
	if n < 0 {
		return nil, fmt.Errorf("ref: negative length %d", n)
	}
	if n > int64(len(d.Buf)-d.Pos) {
		return nil, ErrTruncated
	}
	start := d.Pos
	d.Pos += int(n)
	d.span(kind, start, n)
	return d.Buf[start:d.Pos:d.Pos], nil
}

// Decode reads one datum of schema s, strictly.
func (d *Decoder) Decode(s Schema) (Datum, error) {
	switch s.Kind {
	case "null":
		return Null(), nil
	case "boolean":
		p, err := d.take("bool", 1)
		if err != nil {
			return Datum{}, err
		}
		if p[0] > 1 {
			return Datum{}, fmt.Errorf("ref: boolean byte %d", p[0])
		}
		return Bool(p[0] == 1), nil
	case "int":
		v, err := d.long("varint")
		if err != nil {
			return Datum{}, err
		}
		if v > math.MaxInt32 || v < math.MinInt32 {
			return Datum{}, fmt.Errorf("ref: int value %d out of 32-bit range", v)
		}
		return Datum{K: "int", I: v}, nil
	case "long":
		v, err := d.long("varint")
		if err != nil {
			return Datum{}, err
		}
		return Datum{K: "long", I: v}, nil
	case "enum":
		v, err := d.long("varint")
		if err != nil {
			return Datum{}, err
		}
		if v < 0 || v >= int64(len(s.Symbols)) {
			return Datum{}, fmt.Errorf("ref: enum index %d of %d", v, len(s.Symbols))
		}
		return Datum{K: "enum", I: v}, nil
	case "float":
		p, err := d.take("float", 4)
		if err != nil {
			return Datum{}, err
		}
		return Datum{K: "float", F: uint64(p[0]) | uint64(p[1])<<8 | uint64(p[2])<<16 | uint64(p[3])<<24}, nil
	case "double":
		p, err := d.take("float", 8)
		if err != nil {
			return Datum{}, err
		}
		var u uint64
		for i := 0; i < 8; i++ {
			u |= uint64(p[i]) << (8 * uint(i))
		}
		return Datum{K: "double", F: u}, nil
	case "bytes", "string":
		n, err := d.long("length")
		if err != nil {
			return Datum{}, err
		}
		p, err := d.take("payload", n)
		if err != nil {
			return Datum{}, err
		}
		return Datum{K: s.Kind, S: append([]byte(nil), p...)}, nil
	case "fixed":
		p, err := d.take("payload", int64(s.Size))
		if err != nil {
			return Datum{}, err
		}
		return Datum{K: "fixed", S: append([]byte(nil), p...)}, nil
	case "record":
		out := Datum{K: "record", Fields: make([]Datum, 0, len(s.Fields))}
		for _, f := range s.Fields {
			fd, err := d.Decode(f.Type)
			if err != nil {
				return Datum{}, fmt.Errorf("field %q: %w", f.Name, err)
			}
			out.Fields = append(out.Fields, fd)
		}
		return out, nil
	case "array":
		out := Datum{K: "array"}
		err := d.blocks(func() error {
			it, err := d.Decode(*s.Items)
			if err != nil {
				return err
			}
			out.Items = append(out.Items, it)
			return nil
		})
		return out, err
	case "map":
		out := Datum{K: "map"}
		err := d.blocks(func() error {
			n, err := d.long("length")
			if err != nil {
				return err
			}
			k, err := d.take("key", n)
			if err != nil {
				return err
			}
			v, err := d.Decode(*s.Values)
			if err != nil {
				return err
			}
			out.Keys = append(out.Keys, string(k))
			out.Vals = append(out.Vals, v)
			return nil
		})
		return out, err
	case "union":
		sel, err := d.long("selector")
		if err != nil {
			return Datum{}, err
		}
		if sel < 0 || sel >= int64(len(s.Branches)) {
			return Datum{}, fmt.Errorf("ref: union selector %d of %d", sel, len(s.Branches))
		}
		v, err := d.Decode(s.Branches[sel])
		if err != nil {
			return Datum{}, err
		}
		return Union(int(sel), v), nil
	}
	return Datum{}, fmt.Errorf("ref: unknown schema kind %q", s.Kind)
}

func (d *Decoder) blocks(item func() error) error {
	max := d.MaxItems
	if max == 0 {
		max = 1 << 24
	}
	var total int64
	for {
		n, err := d.long("count")
		if err != nil {
			return err
		}
		if n == 0 {
			return nil
		}
		sized := false
		var size int64
		if n < 0 {
			if n == math.MinInt64 {
				return fmt.Errorf("ref: block count overflow")
			}
			n = -n
			sized = true
			if size, err = d.long("size"); err != nil {
				return err
			}
			if size < 0 {
				return fmt.Errorf("ref: negative block size %d", size)
			}
		}
		total += n
		if total > max {
			return fmt.Errorf("ref: %d items exceeds reference limit", total)
		}
		start := d.Pos
		for i := int64(0); i < n; i++ {
			if err := item(); err != nil {
				return err
			}
		}
		if sized && int64(d.Pos-start) != size {
			return fmt.Errorf("ref: block declared %d bytes, items used %d", size, d.Pos-start)
		}
	}
}

// DecodeExact decodes one datum and requires that the whole buffer is used.
func DecodeExact(s Schema, b []byte) (Datum, error) {
	d := Decoder{Buf: b}
	v, err := d.Decode(s)
	if err != nil {
		return Datum{}, err
	}
	if d.Pos != len(b) {
		return Datum{}, fmt.Errorf("ref: %d bytes left over after datum", len(b)-d.Pos)
	}
	return v, nil
}

// DecodeN decodes exactly n datums that must fill the buffer exactly.
func DecodeN(s Schema, b []byte, n int) ([]Datum, error) {
	d := Decoder{Buf: b}
	out := make([]Datum, 0, n)
	for i := 0; i < n; i++ {
		v, err := d.Decode(s)
		if err != nil {
			return nil, fmt.Errorf("record %d: %w", i, err)
		}
		out = append(out, v)
	}
	if d.Pos != len(b) {
		return nil, fmt.Errorf("ref: %d bytes left over after %d records", len(b)-d.Pos, n)
	}
	return out, nil
}

// DecodeSpans decodes one datum and returns the token spans.
func DecodeSpans(s Schema, b []byte) (Datum, []Span, int, error) {
	d := Decoder{Buf: b, Trace: true}
	v, err := d.Decode(s)
	return v, d.Spans, d.Pos, err
}
