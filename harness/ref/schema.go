// Package ref is an independent reference implementation of the parts of the
// Apache Avro 1.8 specification the checks need: schema JSON, zig-zag varints,
// the binary datum encoding (with every block / size-prefix choice) and object
// container files. It deliberately imports nothing from the library under test.
package ref

import (
	"bytes"
	"encoding/json"
	"fmt"
	"sort"
	"strings"
	"unicode/utf8"
)

// Schema is a parsed Avro schema. Kind is one of null, boolean, int, long,
// float, double, bytes, string, fixed, record, enum, array, map, union.
type Schema struct {
	Kind        string   `json:"k"`
	Name        string   `json:"name,omitempty"`
	Namespace   string   `json:"ns,omitempty"`
	LogicalType string   `json:"lt,omitempty"`
	Fields      []Field  `json:"fields,omitempty"`
	Items       *Schema  `json:"items,omitempty"`
	Values      *Schema  `json:"values,omitempty"`
	Size        int      `json:"size,omitempty"`
	Symbols     []string `json:"symbols,omitempty"`
	Branches    []Schema `json:"branches,omitempty"`
	// ObjectForm records that a primitive was (or is to be) written as
	// {"type": "long"} rather than "long". It does not take part in equality.
	ObjectForm bool `json:"obj,omitempty"`
}

type Field struct {
	Name string `json:"name"`
	Type Schema `json:"type"`
}

func Prim(k string) Schema { return Schema{Kind: k} }

func Nullable(s Schema) Schema {
	return Schema{Kind: "union", Branches: []Schema{{Kind: "null"}, s}}
}

func IsPrimitive(k string) bool {
	switch k {
	case "null", "boolean", "int", "long", "float", "double", "bytes", "string":
		return true
	}
	return false
}

func KnownKind(k string) bool {
	if IsPrimitive(k) {
		return true
	}
	switch k {
	case "fixed", "record", "enum", "array", "map", "union":
		return true
	}
	return false
}

// Equal compares structure: kind, name, namespace, logical type, fields in
// order, items, values, size, symbols, branches in order.
func (s Schema) Equal(o Schema) bool { return s.Diff(o, "") == "" }

func (s Schema) Diff(o Schema, path string) string {
	if s.Kind != o.Kind {
		return fmt.Sprintf("%s: kind %q vs %q", path, s.Kind, o.Kind)
	}
	if s.Name != o.Name {
		return fmt.Sprintf("%s: name %q vs %q", path, s.Name, o.Name)
	}
	if s.Namespace != o.Namespace {
		return fmt.Sprintf("%s: namespace %q vs %q", path, s.Namespace, o.Namespace)
	}
	if s.LogicalType != o.LogicalType {
		return fmt.Sprintf("%s: logicalType %q vs %q", path, s.LogicalType, o.LogicalType)
	}
	if s.Size != o.Size {
		return fmt.Sprintf("%s: size %d vs %d", path, s.Size, o.Size)
	}
	if len(s.Fields) != len(o.Fields) {
		return fmt.Sprintf("%s: %d fields vs %d", path, len(s.Fields), len(o.Fields))
	}
	for i := range s.Fields {
		if s.Fields[i].Name != o.Fields[i].Name {
			return fmt.Sprintf("%s: field %d name %q vs %q", path, i, s.Fields[i].Name, o.Fields[i].Name)
		}
		if d := s.Fields[i].Type.Diff(o.Fields[i].Type, path+"."+s.Fields[i].Name); d != "" {
			return d
		}
	}
	if (s.Items == nil) != (o.Items == nil) {
		return fmt.Sprintf("%s: items presence differs", path)
	}
	if s.Items != nil {
		if d := s.Items.Diff(*o.Items, path+"[]"); d != "" {
			return d
		}
	}
	if (s.Values == nil) != (o.Values == nil) {
		return fmt.Sprintf("%s: values presence differs", path)
	}
	if s.Values != nil {
		if d := s.Values.Diff(*o.Values, path+"{}"); d != "" {
			return d
		}
	}
	if len(s.Symbols) != len(o.Symbols) {
		return fmt.Sprintf("%s: %d symbols vs %d", path, len(s.Symbols), len(o.Symbols))
	}
	for i := range s.Symbols {
		if s.Symbols[i] != o.Symbols[i] {
			return fmt.Sprintf("%s: symbol %d %q vs %q", path, i, s.Symbols[i], o.Symbols[i])
		}
	}
	if len(s.Branches) != len(o.Branches) {
		return fmt.Sprintf("%s: %d branches vs %d", path, len(s.Branches), len(o.Branches))
	}
	for i := range s.Branches {
		if d := s.Branches[i].Diff(o.Branches[i], fmt.Sprintf("%s|%d", path, i)); d != "" {
			return d
		}
	}
	return ""
}

// ParseSchema parses schema JSON with encoding/json. Named-type references
// (a string that is not a primitive name) are reported as Kind "ref:<name>"
// errors: the library does not support them and the generators never emit them.
func ParseSchema(data []byte) (Schema, error) {
	if !utf8.Valid(data) {
		return Schema{}, fmt.Errorf("schema document is not valid UTF-8")
	}
	if err := noDuplicateKeys(data); err != nil {
		return Schema{}, err
	}
	dec := json.NewDecoder(bytes.NewReader(data))
	dec.UseNumber()
	var v interface{}
	if err := dec.Decode(&v); err != nil {
		return Schema{}, err
	}
	if dec.More() {
		return Schema{}, fmt.Errorf("trailing data after schema")
	}
	// Decode(&v) stops after the first value; make sure only whitespace follows.
	rest, _ := ioReadAll(dec.Buffered())
	if len(bytes.TrimSpace(rest)) != 0 {
		return Schema{}, fmt.Errorf("trailing data after schema")
	}
	return fromJSON(v)
}

// noDuplicateKeys walks the token stream: encoding/json silently keeps the
// last of two equal keys, which no conformant writer produces.
func noDuplicateKeys(data []byte) error {
	dec := json.NewDecoder(bytes.NewReader(data))
	type frame struct {
		object bool
		keys   map[string]bool
		isKey  bool
	}
	var stack []*frame
	for {
		tok, err := dec.Token()
		if err != nil {
			return nil // syntax errors are reported by the real parse
		}
		top := func() *frame {
			if len(stack) == 0 {
				return nil
			}
			return stack[len(stack)-1]
		}
		switch t := tok.(type) {
		case json.Delim:
			switch t {
			case '{':
				if f := top(); f != nil && f.object {
					f.isKey = true
				}
				stack = append(stack, &frame{object: true, keys: map[string]bool{}, isKey: true})
			case '[':
				if f := top(); f != nil && f.object {
					f.isKey = true
				}
				stack = append(stack, &frame{})
			case '}', ']':
				stack = stack[:len(stack)-1]
			}
		default:
			f := top()
			if f != nil && f.object {
				if f.isKey {
					k, _ := tok.(string)
					if f.keys[k] {
						return fmt.Errorf("duplicate object key %q", k)
					}
					f.keys[k] = true
					f.isKey = false
				} else {
					f.isKey = true
				}
			}
		}
	}
}

func ioReadAll(r interface{ Read([]byte) (int, error) }) ([]byte, error) {
	var out []byte
	buf := make([]byte, 512)
	for {
		n, err := r.Read(buf)
		out = append(out, buf[:n]...)
		if err != nil {
			return out, nil
		}
	}
}

func fromJSON(v interface{}) (Schema, error) {
	switch t := v.(type) {
	case string:
		if IsPrimitive(t) {
			return Schema{Kind: t}, nil
		}
		return Schema{}, fmt.Errorf("schema name %q is not a primitive type (named references unsupported)", t)
	case []interface{}:
		s := Schema{Kind: "union"}
		for _, b := range t {
			bs, err := fromJSON(b)
			if err != nil {
				return Schema{}, err
			}
			s.Branches = append(s.Branches, bs)
		}
		return s, nil
	case map[string]interface{}:
		ty, ok := t["type"].(string)
		if !ok {
			return Schema{}, fmt.Errorf("schema object without string \"type\"")
		}
		if !KnownKind(ty) || ty == "union" {
			return Schema{}, fmt.Errorf("unknown type %q", ty)
		}
		s := Schema{Kind: ty, ObjectForm: true}
		for key, dst := range map[string]*string{"name": &s.Name, "namespace": &s.Namespace, "logicalType": &s.LogicalType} {
			if v, present := t[key]; present {
				str, ok := v.(string)
				if !ok {
					return Schema{}, fmt.Errorf("attribute %q is not a string", key)
				}
				*dst = str
			}
		}
		switch ty {
		case "record":
			fs, ok := t["fields"].([]interface{})
			if !ok {
				if t["fields"] == nil {
					fs = nil
				} else {
					return Schema{}, fmt.Errorf("record fields is not an array")
				}
			}
			for _, f := range fs {
				fm, ok := f.(map[string]interface{})
				if !ok {
					return Schema{}, fmt.Errorf("record field is not an object")
				}
				name, _ := fm["name"].(string)
				ft, err := fromJSON(fm["type"])
				if err != nil {
					return Schema{}, fmt.Errorf("field %q: %w", name, err)
				}
				s.Fields = append(s.Fields, Field{Name: name, Type: ft})
			}
		case "array":
			it, err := fromJSON(t["items"])
			if err != nil {
				return Schema{}, fmt.Errorf("items: %w", err)
			}
			s.Items = &it
		case "map":
			it, err := fromJSON(t["values"])
			if err != nil {
				return Schema{}, fmt.Errorf("values: %w", err)
			}
			s.Values = &it
		case "fixed":
			n, ok := t["size"].(json.Number)
			if !ok {
				return Schema{}, fmt.Errorf("fixed without numeric size")
			}
			i, err := n.Int64()
			if err != nil || i < 0 {
				return Schema{}, fmt.Errorf("bad fixed size %v", n)
			}
			s.Size = int(i)
		case "enum":
			syms, _ := t["symbols"].([]interface{})
			for _, sy := range syms {
				str, ok := sy.(string)
				if !ok {
					return Schema{}, fmt.Errorf("enum symbol is not a string")
				}
				s.Symbols = append(s.Symbols, str)
			}
		}
		return s, nil
	case nil:
		return Schema{}, fmt.Errorf("missing schema")
	}
	return Schema{}, fmt.Errorf("unexpected JSON value %T for schema", v)
}

// Layout drives Render: a stream of small numbers that decides key order,
// whitespace and extra attributes. An exhausted stream means canonical output.
type Layout struct {
	Bits []byte
	pos  int
	// Extras, when true, allows unknown attributes to be injected.
	Extras bool
	// Escapes, when true, lets string values be spelled with JSON escapes
	// ("lo\u006eg" is the string "long").
	Escapes bool
}

// str renders a JSON string, possibly spelling one of its characters as an escape.
func (l *Layout) str(s string) string {
	if l == nil || !l.Escapes || len(s) == 0 || l.next(4) != 0 {
		return jstr(s)
	}
	i := l.next(len(s))
	if s[i] >= 0x80 {
		return jstr(s)
	}
	pre, post := jstr(s[:i]), jstr(s[i+1:])
	esc := fmt.Sprintf("\\u%04x", s[i])
	if s[i] == '/' && l.next(2) == 0 {
		esc = "\\/"
	}
	return pre[:len(pre)-1] + esc + post[1:]
}

func (l *Layout) next(n int) int {
	if l == nil || l.pos >= len(l.Bits) || n <= 1 {
		return 0
	}
	v := int(l.Bits[l.pos]) % n
	l.pos++
	return v
}

var extraAttrs = []string{
	`"doc":"some \"doc\" text"`,
	`"default":null`,
	`"default":{"a":[1,2,{"b":"c"}],"type":"zzz"}`,
	`"aliases":["x","y.z"]`,
	`"order":"descending"`,
	`"precision":9`,
	`"scale":2`,
	`"xUnknown":[{"type":"record","name":"q","fields":[]}]`,
	`"java-class":"java.lang.String"`,
	`"default":"é\n"`,
	`"default":1.5e3`,
	`"doc":""`,
	// unknown attributes that differ from a supported one only in case, '_' or '-'
	// (JSON member names are case-sensitive: these are simply unknown)
	`"Name":"NotTheName"`,
	`"TYPE":"string"`,
	`"Type":"record"`,
	`"Size":3`,
	`"SIZE":77`,
	`"logical_type":"date"`,
	`"logical-type":"uuid"`,
	`"LogicalType":"decimal"`,
	`"Namespace":"not.the.namespace"`,
	`"NAMESPACE":"x"`,
	`"Fields":[]`,
	`"Items":"long"`,
	`"Values":"long"`,
	`"Symbols":["X"]`,
	`"name_":"n"`,
}

// fieldExtras are attributes legal on record *fields* (where "type" is the
// field's schema and so must not be shadowed).
var fieldExtras = []string{
	`"doc":"field doc"`,
	`"default":null`,
	`"default":[{"k":{"type":"long"}}]`,
	`"order":"ignore"`,
	`"aliases":["old"]`,
	`"zUnknown":{"name":"n","fields":[1,2]}`,
	`"Name":"NotTheFieldName"`,
	`"NAME":"x"`,
	`"Type":"long"`,
	`"TYPE":["null","string"]`,
}

func (l *Layout) ws() string {
	switch l.next(6) {
	case 1:
		return " "
	case 2:
		return "\n"
	case 3:
		return "\t"
	case 4:
		return " \r\n  "
	}
	return ""
}

// Render writes schema JSON. With a nil or exhausted layout the output is the
// canonical compact form with keys in the order type, logicalType, name,
// namespace, then the kind-specific attribute.
func Render(s Schema, l *Layout) string {
	var sb strings.Builder
	render(&sb, s, l)
	return sb.String()
}

func jstr(s string) string {
	b, _ := json.Marshal(s)
	return string(b)
}

func render(sb *strings.Builder, s Schema, l *Layout) {
	switch {
	case s.Kind == "union":
		sb.WriteString("[" + l.ws())
		for i, b := range s.Branches {
			if i > 0 {
				sb.WriteString("," + l.ws())
			}
			render(sb, b, l)
		}
		sb.WriteString(l.ws() + "]")
		return
	case IsPrimitive(s.Kind) && !s.ObjectForm && s.LogicalType == "" && s.Name == "" && s.Namespace == "":
		sb.WriteString(l.str(s.Kind))
		return
	}
	var members []string
	members = append(members, `"type":`+l.ws()+l.str(s.Kind))
	if s.LogicalType != "" {
		members = append(members, `"logicalType":`+l.ws()+l.str(s.LogicalType))
	}
	if s.Name != "" {
		members = append(members, `"name":`+l.ws()+l.str(s.Name))
	}
	if s.Namespace != "" {
		members = append(members, `"namespace":`+l.ws()+l.str(s.Namespace))
	}
	switch s.Kind {
	case "record":
		var fb strings.Builder
		fb.WriteString(`"fields":` + l.ws() + "[")
		for i, f := range s.Fields {
			if i > 0 {
				fb.WriteString("," + l.ws())
			}
			var fm []string
			fm = append(fm, `"name":`+l.ws()+l.str(f.Name))
			var tb strings.Builder
			render(&tb, f.Type, l)
			fm = append(fm, `"type":`+l.ws()+tb.String())
			if l != nil && l.Extras {
				for n := l.next(3); n > 0; n-- {
					fm = append(fm, fieldExtras[l.next(len(fieldExtras))])
				}
			}
			fm = dedupKeys(fm)
			permute(fm, l)
			fb.WriteString("{" + l.ws() + strings.Join(fm, ","+l.ws()) + l.ws() + "}")
		}
		fb.WriteString("]")
		members = append(members, fb.String())
	case "enum":
		var eb strings.Builder
		eb.WriteString(`"symbols":` + l.ws() + "[")
		for i, sy := range s.Symbols {
			if i > 0 {
				eb.WriteString(",")
			}
			eb.WriteString(l.str(sy))
		}
		eb.WriteString("]")
		members = append(members, eb.String())
	case "array":
		var tb strings.Builder
		render(&tb, *s.Items, l)
		members = append(members, `"items":`+l.ws()+tb.String())
	case "map":
		var tb strings.Builder
		render(&tb, *s.Values, l)
		members = append(members, `"values":`+l.ws()+tb.String())
	case "fixed":
		members = append(members, fmt.Sprintf(`"size":%s%d`, l.ws(), s.Size))
	}
	if l != nil && l.Extras {
		for n := l.next(3); n > 0; n-- {
			members = append(members, extraAttrs[l.next(len(extraAttrs))])
		}
	}
	members = dedupKeys(members)
	permute(members, l)
	sb.WriteString("{" + l.ws() + strings.Join(members, ","+l.ws()) + l.ws() + "}")
}

// dedupKeys drops later members whose key repeats an earlier one (duplicate
// object keys are not something a conformant writer produces).
func dedupKeys(members []string) []string {
	seen := map[string]bool{}
	out := members[:0]
	for _, m := range members {
		k := m[:strings.Index(m, ":")]
		if seen[k] {
			continue
		}
		seen[k] = true
		out = append(out, m)
	}
	return out
}

func permute(members []string, l *Layout) {
	for i := len(members) - 1; i > 0; i-- {
		j := l.next(i + 1)
		if j != 0 { // 0 = leave in place, keeps canonical order when exhausted
			k := i - j
			members[i], members[k] = members[k], members[i]
		}
	}
}

// Validate checks the structural rules of the specification that the checks
// rely on: unions do not directly contain unions, no two branches of the same
// unnamed kind or the same full name, every named type defined once.
func Validate(s Schema) error {
	names := map[string]int{}
	if err := validate(s, names, ""); err != nil {
		return err
	}
	var dups []string
	for n, c := range names {
		if c > 1 {
			dups = append(dups, n)
		}
	}
	sort.Strings(dups)
	if len(dups) > 0 {
		return fmt.Errorf("named types defined more than once: %v", dups)
	}
	return nil
}

func FullName(s Schema, enclosingNS string) string {
	if strings.Contains(s.Name, ".") {
		return s.Name
	}
	ns := s.Namespace
	if ns == "" {
		ns = enclosingNS
	}
	if ns == "" {
		return s.Name
	}
	return ns + "." + s.Name
}

func validate(s Schema, names map[string]int, ns string) error {
	switch s.Kind {
	case "record", "enum", "fixed":
		// Anonymous Go structs give records without a name; the properties do
		// not speak about that, so a nameless type simply is not a named type.
		if s.Name != "" {
			full := FullName(s, ns)
			names[full]++
			if i := strings.LastIndex(full, "."); i >= 0 {
				ns = full[:i]
			} else {
				ns = ""
			}
		}
	}
	switch s.Kind {
	case "record":
		seen := map[string]bool{}
		for _, f := range s.Fields {
			if seen[f.Name] {
				return fmt.Errorf("record %q: duplicate field %q", s.Name, f.Name)
			}
			seen[f.Name] = true
			if err := validate(f.Type, names, ns); err != nil {
				return fmt.Errorf("field %q: %w", f.Name, err)
			}
		}
	case "array":
		return validate(*s.Items, names, ns)
	case "map":
		return validate(*s.Values, names, ns)
	case "union":
		seen := map[string]bool{}
		for _, b := range s.Branches {
			if b.Kind == "union" {
				return fmt.Errorf("union directly inside a union")
			}
			key := b.Kind
			if (b.Kind == "record" || b.Kind == "enum" || b.Kind == "fixed") && b.Name != "" {
				key = b.Kind + ":" + FullName(b, ns)
			}
			if seen[key] {
				return fmt.Errorf("union repeats branch %s", key)
			}
			seen[key] = true
			if err := validate(b, names, ns); err != nil {
				return err
			}
		}
	}
	return nil
}
