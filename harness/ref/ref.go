package ref
