#!/bin/bash
# For every fixed witness: replay it against the parent of its fix commit (must fail)
# and against /repo (must pass). Usage: tools_witness_check.sh <witness.json> <fix-commit>
set -u
w=$1; c=$2
d=$(mktemp -d /tmp/wt.XXXXXX)
git -C /repo worktree add -q --detach "$d" "$c^" || exit 2
out=$(VERIF_REPO=$d /verif/check --replay "$w" 2>&1); rc1=$?
git -C /repo worktree remove --force "$d"
out2=$(/verif/check --replay "$w" 2>&1); rc2=$?
echo "$(basename $w): before-fix exit=$rc1 (want 1), after-fix exit=$rc2 (want 0)"
if [ $rc1 -ne 1 ]; then echo "$out" | tail -5; fi
if [ $rc2 -ne 0 ]; then echo "$out2" | tail -5; fi
