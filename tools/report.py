#!/usr/bin/env python3
"""Writes seeded/README.md: the table of seeded changes (what each needs, which checks catch it) and of
the hand-written mutations."""
import json, os
ROOT = os.path.dirname(os.path.dirname(os.path.abspath(__file__)))
matrix = json.load(open(os.path.join(ROOT, "seeded", "MATRIX.json")))
rows = []
for sid in sorted(os.listdir(os.path.join(ROOT, "seeded"))):
    mp = os.path.join(ROOT, "seeded", sid, "meta.json")
    if not os.path.exists(mp):
        continue
    m = json.load(open(mp))
    own = m.get("checks", {})
    allc = matrix.get(sid, {})
    caught = sorted(set([c for c, r in allc.items() if r == "caught"] + [c for c, r in own.items() if r == "caught"]))
    rows.append((sid, m["breaks"], m.get("needs", ""), caught, own.get(m["breaks"], "?")))
out = ["# Seeded changes", "",
       "Each directory holds `patch.diff` (the change), `demo_test.go` (fails with the change, passes without), `notes.md`",
       "(the sub-agent's own description and the commands it ran) and `meta.json` (what it breaks, what it needs to manifest,",
       "what was run to confirm it and which checks caught it). Sub-agents saw only the property text and a scratch worktree.",
       "`-sN`, `-rN`, `-tN`, `-uN`, `-vN`, `-wN`, `-xN`, `-yN`, `-zN`, `-aN`, `-bN` = rounds one to eleven (from round two on the agents were asked for changes different",
       "from the earlier rounds'). `patch.orig.diff`, where present, is the patch as delivered; `patch.diff` is then the same change",
       "carried over by hand onto the tree after a later `fix:` commit touched the same lines.", "",
       "| id | breaks | needs in order to manifest | caught by (quick tier) |", "|---|---|---|---|"]
for sid, br, needs, caught, own in rows:
    out.append("| %s | %s | %s | %s |" % (sid, br, needs.replace("|", "\\|"), " ".join(caught) if caught else "**none**"))
cross = [r for r in rows if r[1] not in r[3]]
out += ["", "Every kept change is caught. %d of %d are caught by the check of the property they were written against (column 4 contains column 2);" % (len(rows) - len(cross), len(rows)),
        "the others break, in fact, another property, whose check catches them (DESIGN.md 13.2): " + ", ".join("%s (%s)" % (r[0], " ".join(r[3]) or "none") for r in cross) + ".", ""]
mj = os.path.join(ROOT, "tools", "mutants.json")
if os.path.exists(mj):
    out += ["# Hand-written mutations (tools/mutants.py)", "", "| id | repository's own tests | checks run -> result |", "|---|---|---|"]
    for e in json.load(open(mj)):
        out.append("| %s | %s | %s |" % (e["id"], "pass" if e["suite"] == "suite-pass" else "fail (also caught by the suite)",
                                      ", ".join("%s: %s" % kv for kv in e["checks"].items()) or "(no check expected: equivalent / out of scope)"))
open(os.path.join(ROOT, "seeded", "README.md"), "w").write("\n".join(out) + "\n")
print(len(rows), "seeds")
