#!/usr/bin/env python3
"""Evaluate one seeded change delivered by a sub-agent.

  tools/seed_eval.py <src-dir> <k> <seed-id> <target-property> [extra checks ...]

 1. confirms, in a fresh scratch worktree of /repo (under /tmp), that the patch applies, the library builds, the
    repository's own tests pass, the demonstration fails with the patch and passes without it;
 2. runs the target property's quick check (and any extra checks) against the patched worktree (VERIF_REPO);
 3. stores patch.diff, the demonstration and meta.json under /verif/seeded/<seed-id>/.
The worktree is removed afterwards. /repo itself is never modified.
"""
import json
import os
import shutil
import subprocess
import sys
import tempfile

ROOT = os.path.dirname(os.path.dirname(os.path.abspath(__file__)))
GO = os.path.join(ROOT, "harness", "g")


def sh(cmd, **kw):
    return subprocess.run(cmd, stdout=subprocess.PIPE, stderr=subprocess.STDOUT, text=True, errors="replace", **kw)


def main():
    src, k, sid, target = sys.argv[1:5]
    extra = sys.argv[5:]
    if k == "-":
        # a change already kept under seeded/<id>/
        patch, demo, notes = (os.path.join(src, n) for n in ("patch.diff", "demo_test.go", "notes.md"))
    else:
        patch = os.path.join(src, "patch%s.diff" % k)
        demo = os.path.join(src, "demo%s_test.go" % k)
        notes = os.path.join(src, "notes%s.md" % k)
    d = tempfile.mkdtemp(prefix="seedwt.", dir="/tmp")
    os.rmdir(d)
    r = sh(["git", "-C", "/repo", "worktree", "add", "-q", "--detach", d, "HEAD"])
    if r.returncode != 0:
        print("cannot create worktree:", r.stdout)
        return 2
    meta = {"id": sid, "breaks": target, "source": "independent sub-agent given only the property text", "ran": []}
    try:
        # which package dir does the demo belong in?
        pkgdir = "."
        first = open(demo).read().split("\n", 5)
        for line in first:
            if line.startswith("package "):
                name = line.split()[1]
                if name in ("time", "null"):
                    pkgdir = name
                if name.endswith("_test"):
                    base = name[:-5]
                    pkgdir = base if base in ("time", "null") else "."
        note_text = open(notes).read() if os.path.exists(notes) else ""
        if "time/" in note_text[:2000] and "package time" in open(demo).read()[:200]:
            pkgdir = "time"
        demo_dst = os.path.join(d, pkgdir, "zz_seed_demo_test.go")
        # without the patch: demo passes
        shutil.copy(demo, demo_dst)
        run_name = ["-run", ".", "-count=1", "-vet=off"]
        t0 = sh([GO, "test"] + run_name + ["./" + pkgdir], cwd=d)
        meta["demo_passes_on_clean_tree"] = t0.returncode == 0
        os.remove(demo_dst)
        a = sh(["git", "apply", patch], cwd=d)
        if a.returncode != 0:
            # the tree has moved on since the change was written (later fix: commits): merge
            a = sh(["git", "apply", "--3way", patch], cwd=d)
            meta["applied_with_3way_merge"] = a.returncode == 0
            sh(["git", "reset", "-q"], cwd=d)
        meta["patch_applies"] = a.returncode == 0
        if a.returncode != 0:
            print("patch does not apply:", a.stdout)
        b = sh([GO, "build", "./..."], cwd=d)
        meta["builds"] = b.returncode == 0
        t1 = sh([GO, "test", "-vet=off", "-count=1", "./..."], cwd=d)
        meta["existing_tests_pass_with_patch"] = t1.returncode == 0
        shutil.copy(demo, demo_dst)
        extra_args = []
        if "-race" in note_text and not os.environ.get("SEED_NORACE"):
            extra_args = ["-race"]
        env = dict(os.environ)
        if "clobberfree" in note_text:
            env["GODEBUG"] = "clobberfree=1"
        t2 = sh([GO, "test"] + extra_args + run_name + ["./" + pkgdir], cwd=d, env=env)
        meta["demo_fails_with_patch"] = t2.returncode != 0
        meta["demo_output_with_patch"] = "\n".join(t2.stdout.splitlines()[-12:])
        os.remove(demo_dst)
        meta["ran"].append("git worktree add <scratch> HEAD; go test demo (clean) ; git apply patch ; go build ./... ; go test ./... ; go test demo (patched)")
        results = {}
        for c in [target] + extra:
            env = dict(os.environ, VERIF_REPO=d)
            p = sh([os.path.join(ROOT, "check"), c, "quick"], cwd=ROOT, env=env)
            results[c] = {0: "missed", 1: "caught", 2: "inconclusive"}.get(p.returncode, str(p.returncode))
            tail = [l for l in p.stdout.splitlines() if l.startswith(("VIOLATION", "C", "INCONCLUSIVE")) or "VERIF-FAIL" in l][-4:]
            meta.setdefault("check_output", {})[c] = "\n".join(tail)[:1500]
            meta["ran"].append("VERIF_REPO=<scratch> ./check %s quick -> %s" % (c, results[c]))
        meta["checks"] = results
        ok = all(meta.get(x) for x in ("demo_passes_on_clean_tree", "patch_applies", "builds", "existing_tests_pass_with_patch", "demo_fails_with_patch"))
        meta["confirmed"] = ok
        out = os.path.join(os.environ.get("SEED_OUT", os.path.join(ROOT, "seeded")), sid)
        if ok:
            os.makedirs(out, exist_ok=True)
            old = {}
            if os.path.exists(os.path.join(out, "meta.json")):
                old = json.load(open(os.path.join(out, "meta.json")))
            for name, srcf in (("patch.diff", patch), ("demo_test.go", demo), ("notes.md", notes)):
                if os.path.exists(srcf) and os.path.abspath(srcf) != os.path.abspath(os.path.join(out, name)):
                    shutil.copy(srcf, os.path.join(out, name))
            meta["needs"] = old.get("needs", "see notes.md (written by the sub-agent)")
            for key in ("source", "breaks", "other_property", "rebased"):
                if key in old:
                    meta[key] = old[key]
            json.dump(meta, open(os.path.join(out, "meta.json"), "w"), indent=1)
        print(json.dumps({k2: v for k2, v in meta.items() if k2 not in ("demo_output_with_patch", "check_output", "ran")}))
    finally:
        sh(["git", "-C", "/repo", "worktree", "remove", "--force", d])
        shutil.rmtree(d, ignore_errors=True)


if __name__ == "__main__":
    sys.exit(main())
