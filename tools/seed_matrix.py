#!/usr/bin/env python3
"""Runs every quick check against every confirmed seeded change (/verif/seeded/*/patch.diff) in a scratch
worktree and writes /verif/seeded/MATRIX.json: which checks catch which change."""
import json, os, shutil, subprocess, sys, tempfile
from concurrent.futures import ThreadPoolExecutor
ROOT = os.path.dirname(os.path.dirname(os.path.abspath(__file__)))
IDS = ["C%02d" % i for i in range(1, 21)]

def sh(cmd, **kw):
    return subprocess.run(cmd, stdout=subprocess.PIPE, stderr=subprocess.STDOUT, text=True, errors="replace", **kw)

def main():
    only = set(sys.argv[1:])
    mpath = os.path.join(ROOT, "seeded", "MATRIX.json")
    matrix = json.load(open(mpath)) if os.path.exists(mpath) else {}
    for sid in sorted(os.listdir(os.path.join(ROOT, "seeded"))):
        patch = os.path.join(ROOT, "seeded", sid, "patch.diff")
        if not os.path.exists(patch) or (only and sid not in only) or (not only and sid in matrix):
            continue
        d = tempfile.mkdtemp(prefix="mx.", dir="/tmp"); os.rmdir(d)
        sh(["git", "-C", "/repo", "worktree", "add", "-q", "--detach", d, "HEAD"])
        try:
            if sh(["git", "apply", patch], cwd=d).returncode != 0:
                print(sid, "patch does not apply"); continue
            def run(c):
                p = sh([os.path.join(ROOT, "check"), c, "quick"], cwd=ROOT, env=dict(os.environ, VERIF_REPO=d))
                return c, {0: "-", 1: "caught", 2: "inconclusive"}.get(p.returncode, "?")
            with ThreadPoolExecutor(4) as ex:
                res = dict(ex.map(run, IDS))
            matrix[sid] = res
            print(sid, [c for c, r in res.items() if r == "caught"], [c for c, r in res.items() if r == "inconclusive"], flush=True)
            json.dump(matrix, open(mpath, "w"), indent=1, sort_keys=True)
        finally:
            sh(["git", "-C", "/repo", "worktree", "remove", "--force", d]); shutil.rmtree(d, ignore_errors=True)

if __name__ == "__main__":
    main()
