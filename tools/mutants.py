#!/usr/bin/env python3
"""Sensitivity runs: apply each hand-written mutation to a scratch worktree of
/repo, confirm that it still builds and passes the repository's own tests, and
run the checks expected to catch it (quick tier, VERIF_REPO=<worktree>).

  tools/mutants.py [id ...]        run all / the named mutations
Results are appended to tools/mutants.log and summarised on stdout.
"""
import json
import os
import shutil
import subprocess
import sys
import tempfile

ROOT = os.path.dirname(os.path.dirname(os.path.abspath(__file__)))
GO = os.path.join(ROOT, "harness", "g")

# (id, file, old, new, [checks expected to catch it])
M = [
    # C01 / C02
    ("m01-no-clear-between-records", "file.go", "\t\t\ttypedmemclr(rtyp, p)\n", "", ["C01"]),
    ("m02-array-no-terminator-for-one", "array.go",
     "\t// Write a zero count to indicate the end of the array. This does appear to\n\t// be necessary as you can write multiple blocks.\n\tw.Varint(0)",
     "\tif sh.Len != 1 {\n\t\tw.Varint(0)\n\t}", ["C01", "C02"]),
    ("m03-float32double-writes-4-bytes", "float.go", "\tfixedCodec{Size: 8}.Write(w, unsafe.Pointer(&q))", "\tfixedCodec{Size: 4}.Write(w, unsafe.Pointer(&q))", ["C01", "C02", "C17"]),
    ("m04-encoder-keeps-buffer", "encoder.go", "\t\te.count = 0\n\t\te.wb.Reset()", "\t\te.count = 0", ["C01", "C02", "C09"]),
    ("m05-map-write-skips-last", "map.go", "\tl := maplen(p)\n\tw.Varint(int64(l))", "\tl := maplen(p)\n\tif l > 2 {\n\t\tl--\n\t}\n\tw.Varint(int64(l))", ["C01", "C02"]),
    # C03 / C04
    ("m06-array-skip-sized-off-by-one", "array.go", "\t\t\tif err := skip(r, bs); err != nil {\n\t\t\t\treturn err\n\t\t\t}", "\t\t\tif err := skip(r, bs-1); err != nil {\n\t\t\t\treturn err\n\t\t\t}", ["C04"]),
    ("m07-int-range-check-removed", "int.go", "\tif i > int64(uint64(1)<<(unsafe.Sizeof(T(0))*8-1)-1) ||\n\t\ti < -1<<(unsafe.Sizeof(T(0))*8-1) {\n\t\treturn fmt.Errorf(\"value %d will not fit in %T\", i, T(0))\n\t}\n", "\t_ = fmt.Sprint\n", ["C03", "C17"]),
    ("m08-nonnull-wrong-for-null-second", "build.go", "\t\t\tif schema.Union[0].Type == \"null\" {\n\t\t\t\tc.nonNull = 1\n\t\t\t}", "\t\t\tc.nonNull = 1", ["C03", "C13"]),
    ("m09-fixed-skip-off-by-one", "fixed.go", "\treturn skip(r, int64(f.Size))", "\tif f.Size > 2 {\n\t\treturn skip(r, int64(f.Size-1))\n\t}\n\treturn skip(r, int64(f.Size))", ["C04"]),
    ("m10-map-read-ignores-second-block", "map.go", "\t\t\t// Put the thing in the thing\n\t\t\tmapassign(unpackEFace(m.rtype).data, mp, unsafe.Pointer(&key), val)\n\t\t}\n\t}", "\t\t\t// Put the thing in the thing\n\t\t\tmapassign(unpackEFace(m.rtype).data, mp, unsafe.Pointer(&key), val)\n\t\t}\n\t\tif c, err := r.Varint(); err == nil && c != 0 {\n\t\t\treturn m.Skip(r)\n\t\t}\n\t\tbreak\n\t}", ["C03"]),
    # C05
    ("m11-fixed-size-check-removed", "build.go", "\t\tif typ.Len() != schema.Object.Size {\n\t\t\treturn nil, fmt.Errorf(\"array for fixed of size %d is %d\", schema.Object.Size, typ.Len())\n\t\t}\n", "", ["C05"]),
    ("m12-int32-gets-int64-codec", "build.go", "\tcase reflect.Int32:\n\t\treturn Int32Codec{omitEmpty: omit}, nil", "\tcase reflect.Int32:\n\t\treturn Int64Codec{omitEmpty: omit}, nil", ["C05", "C01"]),
    ("m13-bool-kind-check-removed", "build.go", "\tif typ != nil && typ.Kind() != reflect.Bool {\n\t\treturn nil, fmt.Errorf(\"type for boolean must be a bool, not %s\", typ)\n\t}\n", "", ["C05"]),
    # C06
    ("m14-string-negative-length-check-removed", "string.go", "\tif l < 0 {\n\t\treturn fmt.Errorf(\"cannot make string with length %d\", l)\n\t}\n", "", ["C06"]),
    ("m15-uvarint-overflow-rule-removed", "buffer.go", "\t\t\tif i > 9 || i == 9 && b > 1 {\n\t\t\t\treturn x, errOverflow\n\t\t\t}\n", "", ["C17"]),
    ("m16-union-selector-range-removed", "union.go", "\tif index < 0 || index >= int64(len(u.codecs)) {\n\t\treturn fmt.Errorf(\"union selector %d out of range (%d types)\", index, len(u.codecs))\n\t}\n\n\tc := u.codecs[index]\n\treturn c.Read(r, p)", "\tc := u.codecs[index]\n\treturn c.Read(r, p)", ["C06"]),
    # C07 / C08
    ("m17-sync-comparison-removed", "file.go", "\t\tif sig != fh.Sync {\n\t\t\treturn fmt.Errorf(\"sync block does not match. Have %X, want %X\", sig, fh.Sync)\n\t\t}\n", "", ["C07"]),
    ("m18-snappy-crc-check-removed", "file.go", "\tif crc32.ChecksumIEEE(s.buf) != crc {\n\t\treturn nil, errors.New(\"snappy checksum mismatch\")\n\t}\n", "\t_ = crc\n\t_ = crc32.ChecksumIEEE\n", ["C07"]),
    ("m19-unexpected-eof-at-block-start-is-clean", "file.go", "\t\t\tif errors.Is(err, io.EOF) {\n\t\t\t\treturn nil\n\t\t\t}", "\t\t\tif errors.Is(err, io.EOF) || errors.Is(err, io.ErrUnexpectedEOF) {\n\t\t\t\treturn nil\n\t\t\t}", ["C08"]),
    ("m20-callback-error-wrapped", "file.go", "\t\t\tif err := cb(p, br.ExtractResourceBank()); err != nil {\n\t\t\t\treturn err\n\t\t\t}", "\t\t\tif err := cb(p, br.ExtractResourceBank()); err != nil {\n\t\t\t\treturn fmt.Errorf(\"callback: %w\", err)\n\t\t\t}", ["C07"]),
    ("m21-missing-sync-tolerated", "file.go", "\t\tif _, err := io.ReadFull(r, sig[:]); err != nil {\n\t\t\treturn fmt.Errorf(\"failed reading block signature. %w\", err)\n\t\t}", "\t\tif n, err := io.ReadFull(r, sig[:]); err != nil {\n\t\t\tif n == 0 {\n\t\t\t\treturn nil\n\t\t\t}\n\t\t\treturn fmt.Errorf(\"failed reading block signature. %w\", err)\n\t\t}", ["C08"]),
    # C09 / C16
    ("m22-flush-on-greater-than", "encoder.go", "\tif e.wb.Len() >= e.approxBlockSize {", "\tif e.wb.Len() > e.approxBlockSize {", ["C09"]),
    ("m23-flush-forgets-count", "encoder.go", "\t\te.count = 0\n\t\te.wb.Reset()", "\t\te.wb.Reset()", ["C09", "C01"]),
    ("m24-writeblock-ignores-size-write-error", "filewriter.go", "\tif err := f.writeVarInt(w, len(compressed)); err != nil {\n\t\treturn fmt.Errorf(\"writing block len: %w\", err)\n\t}", "\t_ = f.writeVarInt(w, len(compressed))", ["C16"]),
    ("m25-sync-before-payload", "filewriter.go", "\t// Write the block data.\n\tif _, err := w.Write(compressed); err != nil {\n\t\treturn fmt.Errorf(\"writing block: %w\", err)\n\t}\n\n\t// Write the sync block\n\tif _, err := w.Write(f.sync[:]); err != nil {\n\t\treturn fmt.Errorf(\"writing sync: %w\", err)\n\t}", "\t// Write the sync block\n\tif _, err := w.Write(f.sync[:]); err != nil {\n\t\treturn fmt.Errorf(\"writing sync: %w\", err)\n\t}\n\t// Write the block data.\n\tif _, err := w.Write(compressed); err != nil {\n\t\treturn fmt.Errorf(\"writing block: %w\", err)\n\t}", ["C09", "C02"]),
    ("m26-write-error-not-wrapped", "filewriter.go", "\t\treturn fmt.Errorf(\"writing sync: %w\", err)", "\t\treturn fmt.Errorf(\"writing sync: %v\", err)", ["C16"]),
    # C10
    ("m27-bytes-alias-block-buffer", "bytes.go", "\tb := make([]byte, l)\n\tcopy(b, data)\n\t*(*[]byte)(ptr) = b", "\t*(*[]byte)(ptr) = data", ["C10"]),
    ("m28-alloc-without-clear", "buffer.go", "\ttypedmemclr(rt.ptyp, ptr)\n", "", ["C10"]),
    ("m29-string-aliases-buffer", "buffer.go", "\treturn d.rb.ToString(d.buf[d.i-l : d.i]), nil", "\tb := d.buf[d.i-l : d.i]\n\treturn *(*string)(unsafe.Pointer(&b)), nil", ["C10"]),
    ("m30-close-keeps-string-data", "buffer.go", "\trb.sData = rb.sData[:0]\n", "", []),
    # C11
    ("m31-slice-alloc-untyped", "array.go", "\tout.Data = unsafe_NewArray(elemType, out.Cap)", "\tbuf := make([]byte, uintptr(out.Cap)*rc.itemType.Size()+8)\n\tout.Data = unsafe.Pointer(&buf[0])", ["C11"]),
    ("m32-pointer-alloc-as-uintptr", "pointer.go", "var pointerType = reflect.TypeOf(unsafe.Pointer(nil))", "var pointerType = reflect.TypeOf(uintptr(0))", ["C11"]),
    # C12
    ("m33-registry-read-without-lock", "build.go", "\t\tregistryMutex.RLock()\n\t\tcf, ok := registry[typ]\n\t\tregistryMutex.RUnlock()", "\t\tcf, ok := registry[typ]", ["C12"]),
    ("m34-tz-cache-without-lock", "time/parse.go", "\ttzLock.Lock()\n\tdefer tzLock.Unlock()\n", "", ["C12"]),
    # C13 / C19
    ("m35-millis-micros-swapped", "time/time.go", "\t\t\tcase \"timestamp-micros\":\n\t\t\t\tc.mult = 1000\n\t\t\tcase \"timestamp-millis\":\n\t\t\t\tc.mult = 1e6", "\t\t\tcase \"timestamp-micros\":\n\t\t\t\tc.mult = 1e6\n\t\t\tcase \"timestamp-millis\":\n\t\t\t\tc.mult = 1000", ["C13", "C19"]),
    ("m36-date-off-by-one", "time/time.go", "time.Date(1970, 1, 1+int(l), 0, 0, 0, 0, time.UTC)", "time.Date(1970, 1, 2+int(l), 0, 0, 0, 0, time.UTC)", ["C19", "C13"]),
    # C14
    ("m37-marshal-omits-namespace", "schema.go", "\t\tif s.Object.Namespace != \"\" {", "\t\tif s.Object.Namespace != \"\" && false {", ["C14"]),
    ("m38-unmarshal-drops-logicaltype", "schema.go", "\t\ts.Type = s.Object.Type\n\t\ts.Object.Type = \"\"", "\t\ts.Type = s.Object.Type\n\t\ts.Object.Type = \"\"\n\t\tif s.Type == \"fixed\" {\n\t\t\ts.Object.LogicalType = \"\"\n\t\t}", ["C14"]),
    # C15
    ("m39-omitempty-first-option-only", "build.go", "\tfor len(opts) > 0 {\n\t\tvar opt string\n\t\topt, opts, _ = strings.Cut(opts, \",\")\n\t\tif opt == \"omitempty\" {\n\t\t\treturn true\n\t\t}\n\t}\n\treturn false", "\topt, _, _ := strings.Cut(opts, \",\")\n\treturn opt == \"omitempty\"", ["C15"]),
    ("m40-pointer-to-slice-nullable", "buildschema.go", "\t\tif underlying.Type == \"union\" || underlying.Type == \"array\" || underlying.Type == \"map\" {", "\t\tif underlying.Type == \"union\" || underlying.Type == \"map\" {", ["C15"]),
    ("m41-bq-dash-ignored", "build.go", "\tif bqTag == \"-\" {\n\t\treturn \"-\"\n\t}\n", "\t_ = bqTag\n", ["C15"]),
    # C17
    ("m42-varint-not-zigzag-for-small", "buffer.go", "\tw.buf = binary.AppendVarint(w.buf, v)", "\tif v > 1<<55 {\n\t\tw.buf = binary.AppendUvarint(w.buf, uint64(v)<<1)\n\t\treturn\n\t}\n\tw.buf = binary.AppendVarint(w.buf, v)", []),
    ("m43-tenth-byte-rule-relaxed", "buffer.go", "if i > 9 || i == 9 && b > 1 {", "if i > 9 || i == 9 && b > 3 {", ["C17"]),
    # C18
    ("m44-fraction-multiplier-off", "time/parse.go", "\t\tvar mult int = 1e9", "\t\tvar mult int = 1e8", ["C18"]),
    ("m45-zone-sign-flipped-for-half-hours", "time/parse.go", "\t\ttz = getTimezone(sign * (tzh*60*60 + tzm*60))", "\t\tif tzm == 30 {\n\t\t\tsign = -sign\n\t\t}\n\t\ttz = getTimezone(sign * (tzh*60*60 + tzm*60))", ["C18", "C01"]),
    # C20
    ("m46-registry-only-for-structs", "build.go", "\t\tregistryMutex.RLock()\n\t\tcf, ok := registry[typ]\n\t\tregistryMutex.RUnlock()\n\t\tif ok {", "\t\tregistryMutex.RLock()\n\t\tcf, ok := registry[typ]\n\t\tregistryMutex.RUnlock()\n\t\tif ok && typ.Kind() == reflect.Struct {", ["C20"]),
    ("m47-first-registration-wins", "build.go", "\tregistry[typ] = f\n", "\tif _, ok := registry[typ]; !ok {\n\t\tregistry[typ] = f\n\t}\n", ["C20"]),
]


def sh(cmd, **kw):
    return subprocess.run(cmd, stdout=subprocess.PIPE, stderr=subprocess.STDOUT, text=True, errors="replace", **kw)


def main():
    want = set(sys.argv[1:])
    log = open(os.path.join(ROOT, "tools", "mutants.log"), "a")
    rows = []
    for mid, path, old, new, checks in M:
        if want and mid not in want and not any(mid.startswith(w) for w in want):
            continue
        d = tempfile.mkdtemp(prefix="mut.", dir="/tmp")
        os.rmdir(d)
        r = sh(["git", "-C", "/repo", "worktree", "add", "-q", "--detach", d, "HEAD"])
        if r.returncode != 0:
            print(mid, "cannot create worktree", r.stdout)
            continue
        try:
            f = os.path.join(d, path)
            src = open(f).read()
            if old not in src:
                rows.append((mid, "PATTERN-NOT-FOUND", {}))
                continue
            open(f, "w").write(src.replace(old, new, 1))
            t = sh([GO, "test", "-vet=off", "-count=1", "./..."], cwd=d)
            suite = "suite-pass" if t.returncode == 0 else "suite-FAIL"
            if t.returncode != 0:
                log.write("== %s: repository tests fail\n%s\n" % (mid, t.stdout[-1500:]))
            res = {}
            for c in checks:
                env = dict(os.environ, VERIF_REPO=d)
                p = sh([os.path.join(ROOT, "check"), c, "quick"], cwd=ROOT, env=env)
                res[c] = {0: "MISSED", 1: "caught", 2: "inconclusive"}.get(p.returncode, str(p.returncode))
                log.write("== %s / %s -> %s\n%s\n" % (mid, c, res[c], "\n".join(p.stdout.splitlines()[-6:])))
                log.flush()
            rows.append((mid, suite, res))
            print(mid, suite, res, flush=True)
        finally:
            sh(["git", "-C", "/repo", "worktree", "remove", "--force", d])
            shutil.rmtree(d, ignore_errors=True)
    # restore evidence files written by mutant runs: re-run is the caller's job
    json.dump([{"id": m, "suite": s, "checks": r} for m, s, r in rows], open(os.path.join(ROOT, "tools", "mutants.json"), "w"), indent=1)


if __name__ == "__main__":
    main()
