#!/bin/sh
# tools/seed_try.sh <patch> <check> [<check> ...]: apply a seeded patch in a scratch worktree, run quick checks against it, remove it.
patch=$1; shift
d=$(mktemp -u /tmp/seedtry.XXXXXX)
git -C /repo worktree add -q --detach "$d" HEAD || exit 2
( cd "$d" && { git apply "$patch" 2>/dev/null || git apply --3way "$patch"; } ) || { git -C /repo worktree remove --force "$d"; exit 2; }
for c in "$@"; do
  VERIF_REPO=$d /verif/check "$c" ${TIER:-quick} | tail -2 | cut -c1-300
done
git -C /repo worktree remove --force "$d"; rm -rf "$d"; git -C /repo worktree prune
