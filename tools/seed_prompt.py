#!/usr/bin/env python3
"""Writes the prompts for one round of independently seeded changes.

  tools/seed_prompt.py <round-dir-name>      e.g. r10: reads /tmp/r10/angle.txt, writes /tmp/r10/prompt-<ID>.txt

Each prompt holds the property text, a private worktree path (/tmp/<round>/wt-<ID>, to be created with
git -C /repo worktree add --detach), the one-line needs of every earlier seeded change for the property, the
round's angle and the delivery format tools/seed_eval.py expects (/tmp/<round>out/<ID>/patch{k}.diff ...).
Sub-agents are given only this file. They must not use git stash (shared between worktrees).
"""
import json, os, sys
props = {json.loads(l)['id']: json.loads(l) for l in open('/verif/properties.jsonl')}
prior = {}
for sid in sorted(os.listdir('/verif/seeded')):
    mp = os.path.join('/verif/seeded', sid, 'meta.json')
    if os.path.exists(mp):
        m = json.load(open(mp))
        prior.setdefault(sid.split('-')[0], []).append(m.get('needs', ''))
ROUND = sys.argv[1]
ANGLE = open('/tmp/%s/angle.txt' % ROUND).read()
for pid, p in props.items():
    wt = '/tmp/%s/wt-%s' % (ROUND, pid)
    out = '/tmp/%sout/%s' % (ROUND, pid)
    os.makedirs(out, exist_ok=True)
    txt = f"""You are helping to evaluate a verification effort for the Go library github.com/philpearl/avro (an Apache Avro encoder/decoder mapping records onto Go structs through unsafe pointers, with object-container file read/write and schema generation). Your job is to play the part of a developer who introduces a subtle regression.

Your private scratch git worktree of the library is {wt} (detached HEAD). Work ONLY there. Never touch /repo or /verif and do not read anything under /verif. Run Go as:
  export GOFLAGS=-mod=mod GOPROXY=off GOTOOLCHAIN=local TZ=UTC; unset GOSUMDB
  GO=/root/go/pkg/mod/golang.org/toolchain@v0.0.1-go1.24.0.linux-amd64/bin/go
  (cd {wt} && $GO test -vet=off -count=1 ./...)      # the existing test suite; must keep passing
There is no network.

THE PROPERTY (id {pid}: {p['title']}):
{p['statement']}

It quantifies over: {p['quantifier']}

TASK: produce TWO independent changes (change 1 and change 2) to the library source (non-test .go files in {wt}) such that, for each change on its own:
 - the library still compiles and the ENTIRE existing test suite still passes, unedited;
 - the property above is genuinely broken (a user relying on it would get wrong data, a panic, corruption, a missed error, ...), not merely a behaviour the property says nothing about;
 - the breakage needs something specific to manifest — it must NOT be exposed by ordinary, casual use at once. {ANGLE}
 - it looks like something a real developer could plausibly have written (an optimisation, a refactor, a clean-up, a small feature), not sabotage with a magic constant.

Earlier rounds already produced changes for this property whose triggers were (one line each). Yours must differ from all of these in location, mechanism AND trigger:
""" + "\n".join("  - " + n for n in prior.get(pid, [])) + f"""

For each change k in {{1,2}} deliver into {out}/ :
  patch{{k}}.diff      — `git diff` of the change against the worktree's HEAD (only that change; library source only, no test files)
  demo{{k}}_test.go    — a self-contained Go test file (package avro, or package avro_test / time / null as appropriate; state the package directory in the notes if it is not the repository root) that FAILS with the change applied and PASSES on the unchanged tree. It must not depend on anything outside the repository and the standard library, and must not collide with names in the existing test files (prefix your identifiers with SeedN{pid}).
  notes{{k}}.md        — 10–25 lines: what was changed and why it looks innocent, exactly what is needed for it to manifest, which clause of the property it breaks, and the commands you ran (existing suite with the change: pass; demo with the change: fail; demo without: pass). If the demo needs `-race` or GODEBUG=clobberfree=1 to fail, say so literally in the notes.
Verify all of that yourself before finishing: apply change 1 alone (use `git diff > file`, `git checkout -- .` and `git apply file` to switch between the two; never `git stash`, the stash is shared with other worktrees), run the suite, run the demo, revert, run the demo again; same for change 2. Leave the worktree clean (git checkout -- . ; remove your demo files from it) when done. Your final message should be a 5-line summary per change (files touched, trigger, which clause breaks)."""
    open('/tmp/%s/prompt-%s.txt' % (ROUND, pid), 'w').write(txt)
print('ok')
