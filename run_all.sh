#!/bin/bash
# runs every check's quick (or $1) tier sequentially; prints one line each
tier=${1:-quick}
for id in C01 C02 C03 C04 C05 C06 C07 C08 C09 C10 C11 C12 C13 C14 C15 C16 C17 C18 C19 C20; do
  s=$(date +%s.%N)
  out=$(./check $id $tier 2>&1); rc=$?
  e=$(date +%s.%N)
  printf "%s rc=%d %.1fs  %s\n" $id $rc $(echo "$e - $s" | bc) "$(echo "$out" | grep -E "^C[0-9]+ (quick|thorough)" | tail -1)"
  if [ $rc -ne 0 ]; then echo "$out" | grep -E "VIOLATION|INCONCLUSIVE|KNOWN" | head -3; fi
done
