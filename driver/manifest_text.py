# Texts for MANIFEST.json, per property.
NOT_APPLICABLE = {}

TEXT = {
    "C18": {
        "technique": "grammar-based property testing with rapid (differential oracle: time.Parse), enumeration of all calendar dates in thorough, mutation/prefix/random strings for the no-panic clause",
        "design_ref": "DESIGN.md §5 C18",
        "level_text": "Strings from the RFC 3339 grammar that time.Parse accepts must decode (into time.Time and null.Time) to the same instant and offset; all dates of years 0000-9999 (thorough) must give midnight UTC; Format(RFC3339Nano) must round-trip; edited, truncated and random strings must give a time or an error. Decoding goes through one reused buffer (optionally after a previous text of the same shape), and a separate unit decodes the first timestamps of a fresh process.",
        "level_note": "time.Parse is the oracle and also accepts non-RFC strings, so agreement is only demanded inside the grammar.",
    },
    "C19": {
        "technique": "enumeration (all 2^32 day counts in thorough) and rapid draws with an arithmetic oracle (time.Unix) for the read direction, reference decoder + resolution bound for the write direction",
        "design_ref": "DESIGN.md §5 C19",
        "level_text": "date / timestamp-millis / timestamp-micros / plain long are read through Schema.Codec into time.Time and *time.Time and compared with the instant the specification assigns; written times are decoded by the reference decoder and must be the right calendar day resp. within one unit, and read back within one unit. A second unit puts several such columns into one record in every shape (plain, pointer, slice, slice of pointers, map, map of pointers), also through a file whose header is the serialised schema. Reads also run under process-local zones with daylight saving; the zero time.Time in a required column is an ordinary value; a further unit writes row after row through one codec and one WriteBuf with recurring instants behind columns of changing width.",
        "level_note": "Stored timestamps must equal the time truncated (rounded down) to the unit; instants within 1 ms of the int64-ns limits excluded.",
    },
    "C20": {
        "technique": "model-based property testing with rapid: registration/roundtrip histories, model = latest registration per type, marker bytes read by the reference decoder plus call counters",
        "design_ref": "DESIGN.md §5 C20",
        "level_text": "Custom types of struct, named-int and named-slice kind (and unregistered look-alikes) are placed in generated type trees at every position; after arbitrary re-registrations the generated schema must show the registered schema at each occurrence, the bytes must carry the latest builder's marker, values must round-trip and stale builders must not run. Registered schemas are plain, [null,T] or [T,null]. A separate unit (own process) meets a type unregistered first, registers it afterwards and requires it to be governed by its codec in the same struct types.",
        "level_note": "Registrations cannot be undone, so each run starts by re-registering a baseline.",
    },
    "C01": {
        "technique": "property-based testing (rapid): generated Go types-as-data x value sequences x encoder configurations, round-trip oracle through an abstraction of the documented normalisations; shrunk failures kept as regression witnesses; the same generator and oracle under Go's coverage-guided fuzzer (rapid.MakeFuzz) in thorough",
        "design_ref": "DESIGN.md §5 C01, §4.2-4.3",
        "level_text": "Thousands of generated struct types (reflect.StructOf trees over every supported kind, pointer/collection shape and tag combination, plus a hand-written catalogue of named types and 240 (thorough: 600) named struct types generated as Go source from VERIF_SEED for each run - named nested structs, embedding, unexported fields, defined slice/map/pointer/primitive types - all driven through the real Encoder[T]) with correlated record sequences, all three codecs, block sizes from 0 to larger-than-data and arbitrary flush patterns are written and read back; every delivered record must match what was written under exactly the documented normalisations. Sampled exploration: it finds type shapes and value/configuration combinations the suite never reaches, it does not prove absence. The file is offered through several reader kinds, by value or by pointer into a struct that already holds values, by a consumer that closes banks or keeps them; a separate unit writes one or two records thousands of times (data that compresses by more than 20:1).",
        "level_note": "Trusts spec.Abs/Match as the statement of the documented normalisations and reflect.StructOf types as stand-ins for anonymous struct types; named types via the hand-written catalogue and the per-run generated one (harness/gencat); recursive and reused named types only via the former.",
    },
    "C02": {
        "technique": "property-based testing (rapid) with a differential oracle: an independent reference Avro container reader and datum decoder written from the 1.8 specification decodes the library's output; the same generator and oracle under Go's coverage-guided fuzzer (rapid.MakeFuzz) in thorough",
        "design_ref": "DESIGN.md §5 C02, §4.1",
        "level_text": "The same generated types, values and configurations as C01, but the produced bytes are judged by a reference implementation that shares no code with the library: container framing (magic, metadata, exact counts and sizes, codec, sync, CRC, no trailing bytes), exact-fit decoding of each block under the embedded schema alone, and datum-by-datum agreement with the values written including which union branch was used. Files written through FileWriter directly, block by block from windows of one buffer, are judged the same way.",
        "level_note": "Trusts harness/ref (self-tested: encode/decode round trip over all encoding choices, agreement with the repository's checked-in Avro files). Where the property text does not decide null vs value (DESIGN §4.3) either branch is accepted.",
    },
    "C03": {
        "technique": "property-based testing (rapid): grammar-based generation of schema x datum x spec-legal wire encoding x compatible Go target; differential oracle (files written by an independent reference writer, decoded values compared with the generated datum); the same generator and oracle under Go's coverage-guided fuzzer (rapid.MakeFuzz) in thorough",
        "design_ref": "DESIGN.md §5 C03, §4.4",
        "level_text": "Generated record schemas over the supported subset, datums, every block-partition/size-prefix choice for each collection, null in either union position, any partition into file blocks and all codecs are written by the reference writer; the file is read into a generated compatible struct (pointer depth, integer/float width, wrappers, fixed arrays, time.Time) and each value must agree with the datum, or ReadFile must fail when an integer does not fit its field. Files use the header layouts other writers produce (split, sized, reordered metadata, extra keys), blocks without records, unions of more than 64 branches and timestamp values over the whole range of the stored long.",
        "level_note": "Trusts harness/ref as writer and the compatibility table in gen.Target. float32 narrowing of non-representable doubles is not asserted.",
    },
    "C04": {
        "technique": "property-based testing (rapid) with a metamorphic oracle: projected decode vs full decode of the same generated file; Skip vs Read byte consumption",
        "design_ref": "DESIGN.md §5 C04",
        "level_text": "For generated files (as C03) the full target is projected by deleting, permuting and adding fields at every depth; both decodes must deliver the same records on every surviving path and leave added fields zero. Each datum is also wrapped with a trailing sentinel so that Codec.Skip, Codec.Read and a decode that skips the datum must all consume exactly the datum's bytes. A second unit builds a decoder, adds a column to every record of the same schema value in place, builds again for the same narrow struct and decodes data of the edited schema (also: two decoders from one value, the first one used again afterwards). Wire schemas include tables of 64-300 columns.",
        "level_note": "The full decode is taken as the reference (C03 judges it). Files with values that do not fit the full target are out of domain.",
    },
    "C05": {
        "technique": "exhaustive enumeration of the schema-type x Go-kind x position matrix with guard/canary memory around every destination (fault visibility), differential value oracle from the reference encoder; evaluated in a worker subprocess",
        "design_ref": "DESIGN.md §5 C05",
        "level_text": "Every cell of the matrix (37 schema types x 56 Go types x {field, *field, **field, slice element, pointer slice element, map value}) is built in every run; where Schema.Codec accepts the pair, in-range and out-of-range datums are decoded into a struct whose neighbours and surroundings are filled with a canary pattern: canaries must be intact and an error-free decode must leave exactly the datum's value. Exhaustive over the matrix, sampled over values. A fixed schema paired with an array of another size or of non-byte elements must be refused when the decoder is built. A second unit passes every form of destination (T, *T, **T, slices, maps, scalars, nil) to ReadFile between guard words. Fields the schema does not name are also checked one level down (struct decoded in place; pointee prepared by the caller, between guards); a 70-column table with a narrow view is a cell of the matrix; two Go types that print alike are read from one file alternately.",
        "level_note": "A wild store that lands in unrelated heap memory is visible only as a worker crash or a wrong neighbour; rejection of a pair is never demanded, only soundness of accepted pairs.",
    },
    "C06": {
        "technique": "structure-aware mutation fuzzing driven by rapid (token spans from the reference decoder), truncation / bit flips / random bytes, evaluated in a worker subprocess with an address-space limit, watchdog and heap-footprint accounting; native coverage-guided fuzz targets in thorough",
        "design_ref": "DESIGN.md §5 C06, §3.4",
        "level_text": "Single-token hostile replacements of every length / count / size / selector in valid files and record bodies, truncations, bit flips, header variants, arbitrary schema documents against catalogue targets and timestamp text are evaluated out of process: any panic, process death (fatal OOM, stack overflow), missing answer within 20 s (and again within 60 s in a second attempt) heap growth beyond 32 MiB + 4096 x input + 64 x the bytes its blocks expand to, or more than 128 MiB + 4096 x (input + expanded bytes) allocated in total, is a violation. Files whose header schema document has one member altered are read in full, projected and fully skipped; valid files whose arrays arrive in tens of thousands of tiny blocks are read in every run. Sampled; multi-token malformations only via the thorough tier's fuzz targets. A grid of 1-2 MiB files with one altered length (memory bound 64 MiB + 16 x size) and of records with up to 140000 allocations read twice by a bank-closing consumer is sampled in quick and enumerated in thorough.",
        "level_note": "The allocation bounds are thresholds, not a proof of proportionality. Arrays with zero-width items and zero-width top-level records are excluded (legal amplification).",
    },
    "C07": {
        "technique": "fault enumeration over generated files: every bit of every sync marker / CRC / magic, capped enumeration of compressed payload bits with a computed oracle (reference decompressor), header rewrites, every callback failure index",
        "design_ref": "DESIGN.md §5 C07",
        "level_text": "For each generated file (reference-written or written by the library) every listed corruption site is applied in turn; sync/CRC/magic damage, missing schema and unknown codec must give an error with only intact records before it, payload damage must give an error exactly when compress/flate or snappy+CRC rejects it, a header without avro.codec must read as uncompressed, and a callback error at record k must stop after k+1 callbacks and come back as the identical error value. Every callback-failure site is repeated in front of a damaged or missing marker; a file with a block of more than 1 MiB is read intact and with that block's marker damaged.",
        "level_note": "Exhaustive per file over the listed site kinds (payload bits capped at 4096 per file), sampled over files.",
    },
    "C08": {
        "technique": "crash-point enumeration: every cut position of generated files, oracle from the reference block table",
        "design_ref": "DESIGN.md §5 C08",
        "level_text": "Every prefix 0..len of each generated file (<= 4 KiB) is read: the delivered records must be exactly those of the blocks whose payload is complete, equal to the intact file's records, and the result is nil only at the end of the header or of a block.",
        "level_note": "Exhaustive per file (all cuts), sampled over files.",
    },
    "C09": {
        "technique": "model-based (stateful) property testing with rapid: call histories as data, model of pending records, reference reader checks the bytes appended by every single call",
        "design_ref": "DESIGN.md §5 C09",
        "level_text": "Generated encode/flush histories over the real generic Encoder[T] with all block sizes and codecs; after every call the newly appended bytes must be nothing or exactly one exact block of the pending records, emitted in the call where the buffered size reached the block size or in a flush with records pending. A fifth of the histories feed a second Encoder of the same type turn and turn about with the first; block sizes unrelated to the record size and blocks of 64-256 KiB with mixed record sizes; a third of the histories run over named struct types generated for the run.",
        "level_note": "Encoder[T] is exercised with the catalogue's compile-time types only.",
    },
    "C10": {
        "technique": "model-based property testing with rapid: retention plans over multi-block files, and bank-API histories with an allocation/interning model checked after every step",
        "design_ref": "DESIGN.md §5 C10",
        "level_text": "Records retained across later blocks and bank closes must keep denoting what they denoted when delivered; Alloc results must be zeroed and disjoint from every live allocation, and live allocations / interned strings must keep their contents through arbitrary interleavings of alloc, intern, extract, close, new buffers and collections. A third unit keeps records while the ReadBuf or bank handle they came with is dropped without being closed, forcing collections (finalizers given time to run) between further decodes.",
        "level_note": "Independent of which bank sync.Pool returns; double Close is out of domain.",
    },
    "C11": {
        "technique": "property-based testing with fault visibility: worker subprocess with GODEBUG=clobberfree=1, forced collections injected between field decodes through a registered custom codec, round-trip oracle after collections",
        "design_ref": "DESIGN.md §5 C11",
        "level_text": "Types rich in maps/slices behind pointers and nested maps are decoded while collections run between fields, in the callback and after the read; with clobberfree any object the collector cannot see is overwritten at the next collection, so a mis-tracked value fails the comparison deterministically. Encoding under a background collector must produce the same data.",
        "level_note": "Collection points are sampled, not enumerated; windows inside one codec call are hit only by the background collector.",
    },
    "C12": {
        "technique": "randomised concurrent programs under the Go race detector with a sequential oracle (rapid generates the per-goroutine programs)",
        "design_ref": "DESIGN.md §5 C12",
        "level_text": "2-8 goroutines run generated mixes of schema generation, codec construction, registration, decode/encode through shared codecs, whole-file reads, bank closing across goroutines and timestamp parsing; each result must equal the precomputed sequential result and the race detector must stay silent. A read may be aborted by its callback, which keeps the record and its bank. A case in which no goroutine starts an operation for 20 s while all of them wait for a lock is reported as a deadlock. The programs also read truncated and damaged files, decode and encode date/timestamp columns through shared codecs and build codecs for types nested two thousand levels deep (also all at once); each case registers a codec for a struct type of its own on one goroutine while another builds codecs containing it, and a build started after the join must honour the registration.",
        "level_note": "Schedules are sampled by the Go scheduler; the detector is happens-before based. Failures do not shrink; the failing programs are replayed 200 times.",
    },
    "C13": {
        "technique": "property-based testing (rapid): generated caller schemas x covering Go types x in-range values; differential oracle (reference decoder reads Codec.Write output) plus Read-after-Write inversion; the same generator and oracle under Go's coverage-guided fuzzer (rapid.MakeFuzz) in thorough",
        "design_ref": "DESIGN.md §5 C13",
        "level_text": "Caller-written schemas (null first or second, every numeric width, fixed, nested records, arrays, maps, date/timestamp logical types) are paired with generated covering Go structs; every written value must decode with the reference decoder, with an exact fit, to a datum that denotes the Go value, and Codec.Read must invert it. Building a codec must leave the caller's schema value unchanged and a second build from it is used for every other value; decoding goes through one re-used input buffer and ReadBuf; arrays of more than a megabyte and tables of 64-300 columns occur.",
        "level_note": "Domain restricted to unions of null with one type and nullability-aligned targets (see DESIGN). Timestamps must be stored rounded down to the unit.",
    },
    "C14": {
        "technique": "property-based testing (rapid): grammar-based generation of schema documents with layout/extra-attribute metamorphosis, parse/serialise round-trip against a reference parser; native fuzz target in thorough",
        "design_ref": "DESIGN.md §5 C14",
        "level_text": "Schema trees over every kind and attribute are rendered with random key order, whitespace and unknown attributes; the parsed value must equal the tree, the marshalled bytes must be valid JSON that a reference parser and the library itself read back identically, and one-edit documents that encoding/json rejects must be rejected. String values may be spelled with JSON escapes; after the caller has edited a parsed value in place, parsing the same text again (SchemaFromString, FileSchema) must still give the document's schema; schema bytes handed to NewFileWriter stay unchanged. Every document is also decoded from a stream (json.UnmarshalRead over short reads); names written as full names next to a namespace attribute and field names differing only in case occur.",
        "level_note": "Trusts ref.Render/ref.ParseSchema (cross-checked per case). Documents outside 'what a conformant writer produces' are excluded as listed in DESIGN.md.",
    },
    "C15": {
        "technique": "property-based testing (rapid): generated Go types-as-data over the full kind universe and tag space, compared with an independent model of the documented mapping; recursive types evaluated in a worker subprocess",
        "design_ref": "DESIGN.md §5 C15, §4.5",
        "level_text": "Generated struct types (all field kinds incl. unsupported ones, every tag combination, registered types in every position) a hand-written catalogue of named types (reuse, recursion, embedding, unexported fields, odd package path) and every one of the 240 (thorough: 600) named struct types generated as Go source from VERIF_SEED for the run are passed to SchemaForType; the result must be an error where the type is inexpressible, must equal an independent model of the documented mapping where it is documented, must be deterministic, structurally valid, stable under marshal/parse and usable by Schema.Codec. Self-referential types run in a subprocess with a watchdog so that a stack overflow is a verdict. After the caller has edited the returned schema in place, generating again must give the same schema. The result of the previous case is looked at again after each generation; structs nested up to 300 levels deep occur.",
        "level_note": "Trusts spec.ModelSchema as the reading of the documented mapping; silent on undocumented kinds. One open known finding (KF-C15-1, named struct defined once per occurrence) is waived for exactly that clause.",
    },
    "C16": {
        "technique": "fault enumeration: every write index of generated call histories fails in turn (fault-injecting io.Writer), differential prefix oracle against the fault-free run",
        "design_ref": "DESIGN.md §5 C16",
        "level_text": "For each generated Encoder or FileWriter history every write of the fault-free run is made to fail with a partial acceptance: the call that issued it must return an error wrapping the writer's, no earlier call may fail, nothing may panic, and the accepted bytes must be a prefix of the fault-free output (sync markers substituted). After a transient failure the history carries on and a later write fails with another error value (also of an uncomparable type): some call must report it and nothing may panic. FileWriter-level histories include blocks above 64 KiB.",
        "level_note": "Exhaustive per history over write indices, sampled over histories; map-free types only.",
    },
    "C17": {
        "technique": "exhaustive enumeration + property-based testing against an independent reference encoder (differential + round-trip oracle)",
        "design_ref": "DESIGN.md §5 C17",
        "level_text": "Every int16 value, and in the thorough tier every int32 value and every float32 bit pattern, is written with the public codec and compared byte-for-byte with a zig-zag/base-128 and IEEE-754 implementation written from the specification, then read back; int64/float64 get all varint-length boundaries plus rapid draws; candidate varints (all strings of length <=2 and every continuation-bit pattern up to 11 bytes) are classified by the reference and compared with all three integer codecs. Exhaustive over the named finite spaces, sampled elsewhere. The same numbers are also written and read inside slices, maps, behind pointers and in null.* wrappers through a record codec, and every candidate varint is also offered as the tail of a file where a block count belongs. Nullable columns over plain 16/32/64-bit fields (what omitempty gives them) are judged by the reference decoder with unnamed neighbours as canaries; candidate varints go through a ReadBuf that began life over a longer input.",
        "level_note": "Trusts the reference varint/IEEE code in harness/ref (self-tested against encoding/binary). Quick tier samples int32/float32 (boundaries + ~2^20 strided values each) instead of enumerating them.",
    },
}
