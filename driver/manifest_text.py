# Texts for MANIFEST.json, per property.
NOT_APPLICABLE = {}

TEXT = {
    "C17": {
        "technique": "exhaustive enumeration + property-based testing against an independent reference encoder (differential + round-trip oracle)",
        "design_ref": "DESIGN.md §5 C17",
        "level_text": "Every int16 value, and in the thorough tier every int32 value and every float32 bit pattern, is written with the public codec and compared byte-for-byte with a zig-zag/base-128 and IEEE-754 implementation written from the specification, then read back; int64/float64 get all varint-length boundaries plus rapid draws; candidate varints (all strings of length <=2 and every continuation-bit pattern up to 11 bytes) are classified by the reference and compared with all three integer codecs. Exhaustive over the named finite spaces, sampled elsewhere.",
        "level_note": "Trusts the reference varint/IEEE code in harness/ref (self-tested against encoding/binary). Quick tier samples int32/float32 (boundaries + ~2^20 strided values each) instead of enumerating them.",
    },
}
