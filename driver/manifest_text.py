# Texts for MANIFEST.json, per property.
NOT_APPLICABLE = {}

TEXT = {
    "C01": {
        "technique": "property-based testing (rapid): generated Go types-as-data x value sequences x encoder configurations, round-trip oracle through an abstraction of the documented normalisations; shrunk failures kept as regression witnesses",
        "design_ref": "DESIGN.md §5 C01, §4.2-4.3",
        "level_text": "Thousands of generated struct types (reflect.StructOf trees over every supported kind, pointer/collection shape and tag combination, plus a catalogue of named types driven through the real Encoder[T]) with correlated record sequences, all three codecs, block sizes from 0 to larger-than-data and arbitrary flush patterns are written and read back; every delivered record must match what was written under exactly the documented normalisations. Sampled exploration: it finds type shapes and value/configuration combinations the suite never reaches, it does not prove absence.",
        "level_note": "Trusts spec.Abs/Match as the statement of the documented normalisations and reflect.StructOf types as stand-ins for anonymous struct types; named types only via the catalogue.",
    },
    "C02": {
        "technique": "property-based testing (rapid) with a differential oracle: an independent reference Avro container reader and datum decoder written from the 1.8 specification decodes the library's output",
        "design_ref": "DESIGN.md §5 C02, §4.1",
        "level_text": "The same generated types, values and configurations as C01, but the produced bytes are judged by a reference implementation that shares no code with the library: container framing (magic, metadata, exact counts and sizes, codec, sync, CRC, no trailing bytes), exact-fit decoding of each block under the embedded schema alone, and datum-by-datum agreement with the values written including which union branch was used.",
        "level_note": "Trusts harness/ref (self-tested: encode/decode round trip over all encoding choices, agreement with the repository's checked-in Avro files). Where the property text does not decide null vs value (DESIGN §4.3) either branch is accepted.",
    },
    "C03": {
        "technique": "property-based testing (rapid): grammar-based generation of schema x datum x spec-legal wire encoding x compatible Go target; differential oracle (files written by an independent reference writer, decoded values compared with the generated datum)",
        "design_ref": "DESIGN.md §5 C03, §4.4",
        "level_text": "Generated record schemas over the supported subset, datums, every block-partition/size-prefix choice for each collection, null in either union position, any partition into file blocks and all codecs are written by the reference writer; the file is read into a generated compatible struct (pointer depth, integer/float width, wrappers, fixed arrays, time.Time) and each value must agree with the datum, or ReadFile must fail when an integer does not fit its field.",
        "level_note": "Trusts harness/ref as writer and the compatibility table in gen.Target. float32 narrowing of non-representable doubles is not asserted.",
    },
    "C04": {
        "technique": "property-based testing (rapid) with a metamorphic oracle: projected decode vs full decode of the same generated file; Skip vs Read byte consumption",
        "design_ref": "DESIGN.md §5 C04",
        "level_text": "For generated files (as C03) the full target is projected by deleting, permuting and adding fields at every depth; both decodes must deliver the same records on every surviving path and leave added fields zero. Each datum is also wrapped with a trailing sentinel so that Codec.Skip, Codec.Read and a decode that skips the datum must all consume exactly the datum's bytes.",
        "level_note": "The full decode is taken as the reference (C03 judges it). Files with values that do not fit the full target are out of domain.",
    },
    "C13": {
        "technique": "property-based testing (rapid): generated caller schemas x covering Go types x in-range values; differential oracle (reference decoder reads Codec.Write output) plus Read-after-Write inversion",
        "design_ref": "DESIGN.md §5 C13",
        "level_text": "Caller-written schemas (null first or second, every numeric width, fixed, nested records, arrays, maps, date/timestamp logical types) are paired with generated covering Go structs; every written value must decode with the reference decoder, with an exact fit, to a datum that denotes the Go value, and Codec.Read must invert it.",
        "level_note": "Domain restricted to unions of null with one type and nullability-aligned targets (see DESIGN). Timestamps accept floor or truncation to the unit.",
    },
    "C14": {
        "technique": "property-based testing (rapid): grammar-based generation of schema documents with layout/extra-attribute metamorphosis, parse/serialise round-trip against a reference parser; native fuzz target in thorough",
        "design_ref": "DESIGN.md §5 C14",
        "level_text": "Schema trees over every kind and attribute are rendered with random key order, whitespace and unknown attributes; the parsed value must equal the tree, the marshalled bytes must be valid JSON that a reference parser and the library itself read back identically, and one-edit documents that encoding/json rejects must be rejected.",
        "level_note": "Trusts ref.Render/ref.ParseSchema (cross-checked per case). Documents outside 'what a conformant writer produces' are excluded as listed in DESIGN.md.",
    },
    "C15": {
        "technique": "property-based testing (rapid): generated Go types-as-data over the full kind universe and tag space, compared with an independent model of the documented mapping; recursive types evaluated in a worker subprocess",
        "design_ref": "DESIGN.md §5 C15, §4.5",
        "level_text": "Generated struct types (all field kinds incl. unsupported ones, every tag combination, registered types in every position) and a catalogue of named types (reuse, recursion, embedding, unexported fields, odd package path) are passed to SchemaForType; the result must be an error where the type is inexpressible, must equal an independent model of the documented mapping where it is documented, must be deterministic, structurally valid, stable under marshal/parse and usable by Schema.Codec. Self-referential types run in a subprocess with a watchdog so that a stack overflow is a verdict.",
        "level_note": "Trusts spec.ModelSchema as the reading of the documented mapping; silent on undocumented kinds. One open known finding (KF-C15-1, named struct defined once per occurrence) is waived for exactly that clause.",
    },
    "C17": {
        "technique": "exhaustive enumeration + property-based testing against an independent reference encoder (differential + round-trip oracle)",
        "design_ref": "DESIGN.md §5 C17",
        "level_text": "Every int16 value, and in the thorough tier every int32 value and every float32 bit pattern, is written with the public codec and compared byte-for-byte with a zig-zag/base-128 and IEEE-754 implementation written from the specification, then read back; int64/float64 get all varint-length boundaries plus rapid draws; candidate varints (all strings of length <=2 and every continuation-bit pattern up to 11 bytes) are classified by the reference and compared with all three integer codecs. Exhaustive over the named finite spaces, sampled elsewhere.",
        "level_note": "Trusts the reference varint/IEEE code in harness/ref (self-tested against encoding/binary). Quick tier samples int32/float32 (boundaries + ~2^20 strided values each) instead of enumerating them.",
    },
}
