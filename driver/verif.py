#!/usr/bin/env python3
"""Driver for the philpearl/avro property checks.

  ./check <ID> quick|thorough      run one property's check
  ./check --replay <file>          re-run one stored failing case (no rapid involved)
  ./check --setup                  pre-build the test binaries (MANIFEST.setup_cmd)

Exit codes: 0 property held on everything explored; 1 violation (a line
"VIOLATION property=<ID> replay=<path>" is printed); 2 inconclusive (build
failure, harness deadline, worker could not start ...).
"""
import hashlib
import json
import os
import re
import shutil
import struct
import subprocess
import sys
import time

ROOT = os.path.dirname(os.path.dirname(os.path.abspath(__file__)))
HARNESS = os.path.join(ROOT, "harness")
BUILD = os.path.join(ROOT, ".build")
RUNS = os.path.join(ROOT, ".run")
GO124 = "/root/go/pkg/mod/golang.org/toolchain@v0.0.1-go1.24.0.linux-amd64/bin/go"
NCPU = os.cpu_count() or 4

sys.path.insert(0, os.path.dirname(os.path.abspath(__file__)))
from config import PROPS  # noqa: E402


def goenv():
    env = dict(os.environ)
    env["GOFLAGS"] = "-mod=mod"
    env["GOPROXY"] = "off"
    env.pop("GOSUMDB", None)  # GOSUMDB=off breaks the offline toolchain switch
    env["TZ"] = "UTC"
    if os.path.exists(GO124):
        env["GOTOOLCHAIN"] = "local"
        return GO124, env
    env["GOTOOLCHAIN"] = "auto"
    return "go", env


def ensure_gosum():
    dst = os.path.join(HARNESS, "go.sum")
    want = open(os.path.join(ROOT, "driver", "go.sum.extra")).read() if os.path.exists(
        os.path.join(ROOT, "driver", "go.sum.extra")) else ""
    try:
        repo = open("/repo/go.sum").read()
    except OSError:
        repo = ""
    content = repo + want
    try:
        if open(dst).read() == content:
            return
    except OSError:
        pass
    with open(dst, "w") as f:
        f.write(content)


GEN_CATALOGUE = None  # (seed, n): which generated catalogue of named types to build with


def gen_catalogue(outdir, go, env, modflag):
    """Writes the generated catalogue of named Go types for this run (a pure function
    of seed and n) next to the binaries and returns a -overlay file that puts it in
    place of harness/cat/zz_named_gen.go; the committed file (seed 1, n 240) is never
    rewritten, so concurrent runs with different seeds do not disturb each other."""
    seed, n = GEN_CATALOGUE or (1, 240)
    gen = os.path.join(outdir, "zz_named_gen.go")
    ov = os.path.join(outdir, "overlay.json")
    if os.path.exists(ov):
        return ov
    cmd = [go, "run"] + modflag + ["./gencat", "-seed", str(seed), "-n", str(n), "-o", gen]
    p = subprocess.run(cmd, cwd=HARNESS, env=env, stdout=subprocess.PIPE, stderr=subprocess.STDOUT, text=True)
    if p.returncode != 0 or not os.path.exists(gen):
        print(p.stdout)
        print("INCONCLUSIVE: the generator of named catalogue types failed")
        cleanup_build()
        sys.exit(2)
    json.dump({"Replace": {os.path.join(HARNESS, "cat", "zz_named_gen.go"): gen}}, open(ov, "w"))
    return ov


def build(race=False, fuzz=False):
    """Compile the checks package against /repo's current working tree."""
    go, env = goenv()
    ensure_gosum()
    outdir = os.path.join(BUILD, "%d" % os.getpid())
    os.makedirs(outdir, exist_ok=True)
    out = os.path.join(outdir, "checks-race.test" if race else ("checks-fuzz.test" if fuzz else "checks.test"))
    if os.path.exists(out):
        return out
    cmd = [go, "test", "-c", "-tags", "verif", "-o", out]
    alt = os.environ.get("VERIF_REPO")
    modflag = []
    if alt:
        # sensitivity runs only: build against a scratch copy of the library
        # (a mutated worktree) instead of /repo. Registered commands never set this.
        modfile = os.path.join(outdir, "alt.mod")
        mod = open(os.path.join(HARNESS, "go.mod")).read().replace("=> /repo", "=> " + os.path.abspath(alt))
        open(modfile, "w").write(mod)
        shutil.copy(os.path.join(HARNESS, "go.sum"), os.path.join(outdir, "alt.sum"))
        modflag = ["-modfile=" + modfile]
        cmd += modflag
    cmd.append("-overlay=" + gen_catalogue(outdir, go, env, modflag))
    if race:
        cmd.append("-race")
    if fuzz:
        cmd.append("-fuzz=Fuzz")  # coverage instrumentation for the native fuzzer
    cmd.append("./checks")
    t0 = time.time()
    p = subprocess.run(cmd, cwd=HARNESS, env=env, stdout=subprocess.PIPE, stderr=subprocess.STDOUT, text=True)
    if p.returncode != 0 or not os.path.exists(out):
        print(p.stdout)
        print("INCONCLUSIVE: the harness does not build against /repo's working tree (%.1fs)" % (time.time() - t0))
        cleanup_build()
        sys.exit(2)
    return out


def cleanup_build():
    shutil.rmtree(os.path.join(BUILD, "%d" % os.getpid()), ignore_errors=True)


def load_known():
    path = os.path.join(ROOT, "known_findings.json")
    if not os.path.exists(path):
        return {"open": [], "fixed": []}
    return json.load(open(path))


def run_unit(binary, unit, tier, seed, shard, nshards, outdir, extra_env=None):
    """Start one test process; returns Popen."""
    _, env = goenv()
    os.makedirs(outdir, exist_ok=True)
    env["VERIF_OUT"] = outdir
    env["VERIF_TIER"] = tier
    env["VERIF_SEED"] = str(seed)
    env["VERIF_SHARD"] = "%d/%d" % (shard, nshards)
    env["VERIF_ROOT"] = ROOT
    env["GORACE"] = "halt_on_error=1 exitcode=66"
    for k, v in unit.get("env", {}).items():
        env[k] = v
    if extra_env:
        env.update(extra_env)
    checks = unit.get(tier, unit.get("quick", 100))
    if tier == "quick":
        rseed = 1 + seed
    else:
        rseed = 1 + seed * 1000 + shard
    timeout = unit.get("timeout_" + tier, 3000 if tier == "thorough" else 900)
    cmd = [binary, "-test.run", unit["run"], "-test.v", "-test.timeout", "%ds" % timeout,
           "-rapid.checks=%d" % checks, "-rapid.seed=%d" % rseed, "-rapid.shrinktime=%s" % unit.get("shrink", "20s"),
           "-rapid.nofailfile"]
    if unit.get("fuzz"):
        cmd = [binary, "-test.run", "^$", "-test.fuzz", "^%s$" % unit["fuzz"], "-test.fuzztime", unit.get("fuzztime", "60s"),
               "-test.fuzzcachedir", os.path.join(outdir, "fuzzcache"), "-test.parallel", str(unit.get("workers", NCPU)),
               "-test.timeout", "%ds" % timeout]
    log = open(os.path.join(outdir, "log.txt"), "w")
    p = subprocess.Popen(cmd, cwd=outdir, env=env, stdout=log, stderr=subprocess.STDOUT)
    p._verif = dict(unit=unit, checks=checks, outdir=outdir, log=log, timeout=timeout, t0=time.time(), shard=shard)
    return p


def wait_all(procs):
    """Waits for every unit. Once one unit has reported a violation the others get
    20 more seconds and are then stopped (a deadlocked or crashed library can keep
    the other units busy until their deadline; the verdict is already decided)."""
    results = {}
    fail_seen = None
    while len(results) < len(procs):
        for i, p in enumerate(procs):
            if i in results:
                continue
            info = p._verif
            rc = p.poll()
            if rc is None:
                if time.time() - info["t0"] > info["timeout"] + 60:
                    p.kill()
                    p.wait()
                    rc = -9
                elif fail_seen is not None and time.time() - fail_seen > 20:
                    p.kill()
                    p.wait()
                    rc = -9
                    info["stopped_after_violation"] = True
                else:
                    continue
            info["log"].close()
            text = open(os.path.join(info["outdir"], "log.txt"), errors="replace").read()
            results[i] = (rc, text, info)
            if fail_seen is None and classify(rc, text, info)[0] == "fail":
                fail_seen = time.time()
        time.sleep(0.05)
    return [results[i] for i in range(len(procs))]


PASS_RE = re.compile(r"\[rapid\] OK, passed (\d+) tests")


FUZZ_RE = re.compile(r"execs: (\d+) .*?\(total: (\d+)\)")


def classify(rc, text, info):
    """-> ('pass'|'fail'|'inconclusive', reason)"""
    if info.get("stopped_after_violation"):
        return "pass", "stopped after a violation in another unit"
    if info["unit"].get("fuzz"):
        if rc == 0:
            return "pass", ""
        if "Failing input written to" in text or "--- FAIL" in text:
            return "fail", "fuzz target %s found a failing input" % info["unit"]["fuzz"]
        return "inconclusive", "fuzz run exited with %d" % rc
    if rc == 0:
        if "no tests to run" in text or not re.search(r"^(=== RUN|--- PASS|ok|PASS)", text, re.M):
            return "inconclusive", "no test matched %s" % info["unit"]["run"]
        if info["unit"].get("rapid", True):
            counts = [int(m) for m in PASS_RE.findall(text)]
            if counts and min(counts) < info["checks"]:
                return "inconclusive", "rapid stopped after %d of %d cases (deadline)" % (min(counts), info["checks"])
        return "pass", ""
    if "VERIF-INCONCLUSIVE" in text:
        return "inconclusive", re.findall(r"VERIF-INCONCLUSIVE[^\n]*", text)[0]
    if "panic: test timed out" in text or rc == -9:
        return "inconclusive", "go test deadline reached"
    if "cannot allocate memory" in text and "VERIF-FAIL" not in text:
        return "inconclusive", "ENOMEM in harness"
    if "WARNING: DATA RACE" in text:
        return "fail", "data race reported"
    if "VERIF-FAIL" in text or "--- FAIL" in text or "panic:" in text or "fatal error:" in text:
        return "fail", ""
    return "inconclusive", "test process exited with %d" % rc


def merge_evidence(pid, tier, seed, outdirs, wall, violations, cfg, notes):
    evals = 0
    labels = {}
    samples = []
    hashes = set()
    excluded = 0
    extra_distinct = 0
    exhaustive = None
    extra = {}
    rule = cfg.get("rule", "")
    for d in outdirs:
        for fn in sorted(os.listdir(d)) if os.path.isdir(d) else []:
            if fn.startswith("stats-") and fn.endswith(".json"):
                try:
                    st = json.load(open(os.path.join(d, fn)))
                except Exception:
                    continue
                evals += st.get("evaluations", 0)
                for k, v in (st.get("labels") or {}).items():
                    labels[k] = labels.get(k, 0) + v
                for s in st.get("samples") or []:
                    if len(samples) < 8:
                        samples.append(s)
                excluded += st.get("excluded_known", 0)
                extra_distinct += st.get("extra_distinct", 0)
                if st.get("rule"):
                    rule = st["rule"]
                ex = st.get("exhaustive", False)
                exhaustive = ex if exhaustive is None else (exhaustive and ex)
                for k, v in (st.get("extra") or {}).items():
                    if isinstance(v, (int, float)) and isinstance(extra.get(k), (int, float)):
                        extra[k] += v
                    else:
                        extra[k] = v
            elif fn.startswith("hashes-") and fn.endswith(".bin"):
                b = open(os.path.join(d, fn), "rb").read()
                hashes.update(struct.unpack("<%dQ" % (len(b) // 8), b))
    fuzz_execs, fuzz_interesting = 0, 0
    for d in outdirs:
        lp = os.path.join(d, "log.txt")
        if os.path.isdir(os.path.join(d, "fuzzcache")) and os.path.exists(lp):
            m = FUZZ_RE.findall(open(lp, errors="replace").read())
            if m:
                fuzz_execs += int(m[-1][0])
                fuzz_interesting += int(m[-1][1])
    if fuzz_execs:
        evals += fuzz_execs
        extra["fuzz_execs"] = fuzz_execs
        extra["fuzz_corpus_entries_with_new_coverage"] = fuzz_interesting
    cov = {
        "evaluations": evals,
        "distinct_nontrivial": len(hashes) + extra_distinct,
        "rule": rule,
        "samples": samples,
        "labels": dict(sorted(labels.items())),
        "excluded_known": excluded,
        "exhaustive": bool(exhaustive) and cfg.get("exhaustive_" + tier, False),
    }
    cov.update(extra)
    if notes:
        cov["notes"] = notes
    ev = {
        "property_id": pid,
        "tier": tier,
        "seed": seed,
        "level": cfg["level"],
        "coverage": cov,
        "assumptions": cfg.get("assumptions", []),
        "wall_s": round(wall, 2),
        "violations": violations,
    }
    evdir = os.path.join(ROOT, "evidence")
    if os.environ.get("VERIF_REPO"):
        evdir = os.path.join(RUNS, "alt-evidence")  # sensitivity runs never touch the real evidence
    os.makedirs(evdir, exist_ok=True)
    tmp = os.path.join(evdir, ".%s.json.tmp%d" % (pid, os.getpid()))
    with open(tmp, "w") as f:
        json.dump(ev, f, indent=1)
    os.replace(tmp, os.path.join(evdir, pid + ".json"))
    return ev


def store_replay(pid, outdir):
    """Copy the failing case written by the property into replays/; returns path or None."""
    best = None
    fz = os.path.join(outdir, "testdata", "fuzz")
    if os.path.isdir(fz):
        for target in os.listdir(fz):
            for fn in os.listdir(os.path.join(fz, target)):
                dstdir = os.path.join(ROOT, "replays", pid)
                if os.environ.get("VERIF_REPO"):
                    dstdir = os.path.join(RUNS, "alt-replays", pid)
                os.makedirs(dstdir, exist_ok=True)
                dst = os.path.join(dstdir, "%s-%s.fuzz" % (target, fn))
                shutil.copy(os.path.join(fz, target, fn), dst)
                shutil.copy(os.path.join(outdir, "log.txt"), dst + ".log")
                return dst
    for name in ("fail-%s-last.json" % pid, "fail-%s-smallest.json" % pid):
        p = os.path.join(outdir, name)
        if os.path.exists(p):
            best = p
            break
    if best is None:
        for fn in os.listdir(outdir):
            if fn.startswith("fail-") and fn.endswith(".json"):
                best = os.path.join(outdir, fn)
                break
    if best is None:
        for fn in os.listdir(outdir):
            if fn.startswith("inflight") and fn.endswith(".json"):
                best = os.path.join(outdir, fn)
                break
    dstdir = os.path.join(ROOT, "replays", pid)
    if os.environ.get("VERIF_REPO"):
        dstdir = os.path.join(RUNS, "alt-replays", pid)
    os.makedirs(dstdir, exist_ok=True)
    if best is None:
        # keep the log so that there is something to look at
        h = hashlib.sha1(open(os.path.join(outdir, "log.txt"), "rb").read()).hexdigest()[:12]
        dst = os.path.join(dstdir, "log-%s.txt" % h)
        shutil.copy(os.path.join(outdir, "log.txt"), dst)
        return dst
    data = open(best, "rb").read()
    h = hashlib.sha1(data).hexdigest()[:12]
    dst = os.path.join(dstdir, "%s.json" % h)
    with open(dst, "wb") as f:
        f.write(data)
    shutil.copy(os.path.join(outdir, "log.txt"), os.path.join(dstdir, "%s.log" % h))
    return dst


def replay_file(binary, path, quiet=False, race_binary=None):
    """Run TestReplay on a stored case. Returns (failed: bool, text)."""
    _, env = goenv()
    env["VERIF_REPLAY"] = os.path.abspath(path)
    env["VERIF_ROOT"] = ROOT
    env["VERIF_TIER"] = "quick"
    env["GORACE"] = "halt_on_error=1 exitcode=66"
    outdir = os.path.join(RUNS, "replay-%d" % os.getpid())
    os.makedirs(outdir, exist_ok=True)
    env["VERIF_OUT"] = ""
    try:
        case = json.load(open(path))
    except Exception as e:
        return True, "cannot read replay file: %s" % e
    b = binary
    if case.get("property") in ("C12",) and race_binary:
        b = race_binary
    p = subprocess.run([b, "-test.run", "^TestReplay$", "-test.v", "-test.timeout", "600s"], cwd=outdir, env=env,
                       stdout=subprocess.PIPE, stderr=subprocess.STDOUT, text=True)
    shutil.rmtree(outdir, ignore_errors=True)
    failed = p.returncode != 0
    return failed, p.stdout


def set_catalogue_from_case(case):
    """A stored case that names a generated catalogue type is replayed against the catalogue it was drawn from."""
    global GEN_CATALOGUE
    try:
        a, b = str(case.get("gen_catalogue", "")).split("/")
        GEN_CATALOGUE = (int(a), int(b))
    except Exception:
        pass


def main():
    global GEN_CATALOGUE
    args = sys.argv[1:]
    if not args:
        print(__doc__)
        sys.exit(2)
    if args[0] == "--setup":
        b = build()
        build(race=True)
        print("setup ok:", b)
        cleanup_build()
        return 0
    if args[0] == "--replay" and args[1].endswith(".fuzz"):
        # a crasher saved by a native fuzz target: file name is <Target>-<hash>.fuzz
        target = os.path.basename(args[1]).split("-")[0]
        binary = build()
        d = os.path.join(RUNS, "fuzzreplay-%d" % os.getpid(), "testdata", "fuzz", target)
        os.makedirs(d, exist_ok=True)
        shutil.copy(args[1], os.path.join(d, "crasher"))
        _, env = goenv()
        env["VERIF_ROOT"] = ROOT
        p = subprocess.run([binary, "-test.run", "^%s$/crasher" % target, "-test.v"], cwd=os.path.dirname(os.path.dirname(os.path.dirname(d))),
                           env=env, stdout=subprocess.PIPE, stderr=subprocess.STDOUT, text=True)
        print(p.stdout[-4000:])
        shutil.rmtree(os.path.join(RUNS, "fuzzreplay-%d" % os.getpid()), ignore_errors=True)
        cleanup_build()
        if p.returncode != 0:
            print("VIOLATION property=? replay=%s" % os.path.abspath(args[1]))
            return 1
        print("replay: case passes")
        return 0
    if args[0] == "--replay":
        case = {}
        try:
            case = json.load(open(args[1]))
        except Exception:
            pass
        set_catalogue_from_case(case)
        binary = build()
        rb = build(race=True) if case.get("property") == "C12" else None
        failed, text = replay_file(binary, args[1], race_binary=rb)
        print(text)
        cleanup_build()
        if failed:
            print("VIOLATION property=%s replay=%s" % (case.get("property", "?"), os.path.abspath(args[1])))
            return 1
        print("replay: case passes")
        return 0

    pid, tier = args[0], (args[1] if len(args) > 1 else os.environ.get("VERIF_TIER", "quick"))
    if pid not in PROPS or tier not in ("quick", "thorough"):
        print("usage: check <ID> quick|thorough")
        return 2
    cfg = PROPS[pid]
    try:
        seed = int(os.environ.get("VERIF_SEED", "1"))
    except ValueError:
        seed = 1
    t0 = time.time()
    GEN_CATALOGUE = (seed, 600 if tier == "thorough" else 240)
    need_race = any(u.get("race") for u in cfg["units"])
    need_plain = any(not u.get("race") for u in cfg["units"]) or True
    binary = build() if need_plain else None
    race_binary = build(race=True) if need_race else None
    need_fuzz = tier == "thorough" and any(u.get("fuzz") for u in cfg["units"])
    fuzz_binary = build(fuzz=True) if need_fuzz else None

    # known findings: replay each open witness for this property
    known = load_known()
    notes = []
    for kf in known.get("open", []):
        if kf.get("property") != pid:
            continue
        wpath = os.path.join(ROOT, kf["witness"])
        failed, _ = replay_file(binary, wpath, race_binary=race_binary)
        if failed:
            print("KNOWN-FINDING: property=%s %s (%s)" % (pid, kf["what"], kf["id"]))
            notes.append("known finding %s reproduced" % kf["id"])
        else:
            print("note: known finding %s no longer reproduces" % kf["id"])
            notes.append("known finding %s no longer reproduces" % kf["id"])

    rundir = os.path.join(RUNS, "%s-%s-%d" % (pid, tier, os.getpid()))
    shutil.rmtree(rundir, ignore_errors=True)
    procs = []
    outdirs = []
    nshards = cfg.get("shards", NCPU) if tier == "thorough" else 1
    for ui, unit in enumerate(cfg["units"]):
        if tier == "quick" and unit.get("thorough_only"):
            continue
        b = race_binary if unit.get("race") else binary
        if unit.get("fuzz"):
            b = fuzz_binary
        n = 1 if (tier == "quick" or unit.get("single") or unit.get("fuzz")) else nshards
        for sh in range(n):
            od = os.path.join(rundir, "u%d-s%d" % (ui, sh))
            outdirs.append(od)
            procs.append(run_unit(b, unit, tier, seed, sh, n, od))
            # do not oversubscribe: at most NCPU processes at once
            while sum(1 for q in procs if q.poll() is None) >= max(1, cfg.get("parallel", NCPU)):
                time.sleep(0.05)
    results = wait_all(procs)

    status = "pass"
    violations = 0
    replay_paths = []
    reasons = []
    for rc, text, info in results:
        st, why = classify(rc, text, info)
        if st == "fail":
            violations += 1
            status = "fail"
            replay_paths.append(store_replay(pid, info["outdir"]))
            tail = "\n".join(text.strip().splitlines()[-40:])
            print("---- failing unit %s shard %d ----\n%s" % (info["unit"]["run"], info["shard"], tail))
        elif st == "inconclusive":
            reasons.append(why)
            if status == "pass":
                status = "inconclusive"
            tail = "\n".join(text.strip().splitlines()[-15:])
            print("---- inconclusive unit %s shard %d: %s ----\n%s" % (info["unit"]["run"], info["shard"], why, tail))
    wall = time.time() - t0
    ev = merge_evidence(pid, tier, seed, outdirs, wall, violations, cfg, notes)
    shutil.rmtree(rundir, ignore_errors=True)
    cleanup_build()
    cov = ev["coverage"]
    print("%s %s seed=%d: %d evaluations, %d distinct non-trivial, %.1fs -> %s" % (
        pid, tier, seed, cov["evaluations"], cov["distinct_nontrivial"], wall, status))
    if status == "fail":
        for rp in replay_paths[:1]:
            print("VIOLATION property=%s replay=%s" % (pid, rp))
        return 1
    if status == "inconclusive":
        print("INCONCLUSIVE: %s" % "; ".join(reasons))
        return 2
    return 0


if __name__ == "__main__":
    sys.exit(main())
