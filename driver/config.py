# Per-property run configuration for driver/verif.py.
# units: test processes to run; 'quick'/'thorough' = -rapid.checks per process
# (thorough runs one process per shard unless 'single').

def regress(pid):
    return {"run": "^TestRegress$", "quick": 1, "thorough": 1, "single": True, "rapid": False, "env": {"VERIF_REGRESS": pid}}


PROPS = {
    "C01": {
        "level": "exploration",
        "assumptions": [
            "reflect.StructOf types stand in for anonymous struct types; named-type behaviour (named nested structs, embedding, unexported fields, defined slice/map/pointer/primitive types) is covered by the hand-written catalogue (harness/cat) and by a catalogue of 240 (thorough: 600) struct types generated as Go source from VERIF_SEED (harness/gencat) and compiled into the run, each through the real Encoder[T]",
            "dynamic types are encoded through the public pipeline NewEncoderFor itself uses (SchemaForType, Schema.Codec, FileWriter, Codec.Write); catalogue types through the real Encoder[T]",
            "equality is spec.Abs/Match: only the normalisations the property documents",
        ],
        "units": [
            regress("C01"),
            {"run": "^TestC01$", "quick": 14000, "thorough": 60000},
            {"run": "^TestC01Repetitive$", "quick": 60, "thorough": 1000},
            {"run": "^TestC01Named$", "quick": 5000, "thorough": 20000},
            {"fuzz": "FuzzC01", "fuzztime": "90s", "thorough_only": True, "run": "FuzzC01"},
        ],
    },
    "C02": {
        "level": "exploration",
        "assumptions": [
            "the reference container reader and datum decoder in harness/ref (written from the Avro 1.8 specification, no library code) are correct; they are self-tested",
            "positions the property text leaves undecided (zero time.Time without omitempty, -0.0 / empty-non-nil collections / zero structs under omitempty) accept either union branch",
        ],
        "units": [
            regress("C02"),
            {"run": "^TestRefSelf$", "quick": 300, "thorough": 3000, "single": True},
            {"run": "^TestC02$", "quick": 14000, "thorough": 40000},
            {"run": "^TestC02Repetitive$", "quick": 60, "thorough": 1000},
            {"run": "^TestC02Named$", "quick": 5000, "thorough": 12000},
            {"run": "^TestC02FileWriter$", "quick": 8000, "thorough": 40000},
            {"fuzz": "FuzzC02", "fuzztime": "60s", "thorough_only": True, "run": "FuzzC02"},
        ],
    },
    "C15": {
        "level": "exploration",
        "assumptions": [
            "spec.ModelSchema is an independent statement of the documented mapping; for kinds the documentation does not mention (Go arrays, int8, unsigned, non-string map keys) only 'error or usable schema' is required",
            "named-type behaviour: reuse, recursion and package path are sampled by the hand-written catalogue; names, embedding, unexported fields and defined non-struct types also by the catalogue generated from VERIF_SEED (harness/gencat), every type of which is checked",
        ],
        "units": [
            regress("C15"),
            {"run": "^TestC15Recursive$", "quick": 1, "thorough": 1, "single": True, "rapid": False},
            {"run": "^TestC15$", "quick": 30000, "thorough": 300000},
            {"run": "^TestC15Named$", "quick": 1, "thorough": 1, "single": True, "rapid": False},
        ],
    },
    "C03": {
        "level": "exploration",
        "assumptions": [
            "files are produced by the reference writer in harness/ref (every block partition / size-prefix choice the specification permits)",
            "the compatibility table for Go targets (gen.Target) is read from the documentation and the codec builder: pointer depth, integer width, float width, null.* wrappers, [N]byte, time.Time for RFC 3339 strings",
            "narrowing a double that float32 cannot represent is not asserted (the property speaks of integers that do not fit as errors)",
        ],
        "units": [
            regress("C03"),
            {"run": "^TestRefSelf$", "quick": 300, "thorough": 3000, "single": True},
            {"run": "^TestC03$", "quick": 20000, "thorough": 200000},
            {"fuzz": "FuzzC03", "fuzztime": "90s", "thorough_only": True, "run": "FuzzC03"},
        ],
    },
    "C04": {
        "level": "exploration",
        "assumptions": [
            "metamorphic oracle: the projected decode is compared with the full decode of the same file (the full decode itself is judged by C03)",
            "files whose values do not fit the full target are outside this property's domain and are counted as 'misfit_skipped'",
        ],
        "units": [
            regress("C04"),
            {"run": "^TestC04$", "quick": 15000, "thorough": 150000},
            {"run": "^TestC04Edit$", "quick": 5000, "thorough": 50000},
        ],
    },
    "C05": {
        "level": "exploration",
        "exhaustive_quick": True,
        "exhaustive_thorough": True,
        "assumptions": [
            "the matrix (37 schema types x 56 Go types x 6 positions) is enumerated completely in every run; the quick tier uses one canary width per cell (rotating with the seed), the thorough tier all eight",
            "values per cell are a fixed list of 2-10 in-range and out-of-range datums with distinct byte patterns",
            "a store outside the guarded struct that lands in unrelated heap memory is visible only as a crash of the worker or as a wrong neighbouring element",
        ],
        "units": [
            regress("C05"),
            {"run": "^TestC05$", "quick": 1, "thorough": 1, "rapid": False},
            {"run": "^TestC05Outs$", "quick": 6000, "thorough": 60000},
            {"run": "^TestC05SameName$", "quick": 1, "thorough": 1, "single": True, "rapid": False},
            {"run": "^TestC05Recursive$", "quick": 1, "thorough": 1, "single": True, "rapid": False},
        ],
    },
    "C06": {
        "level": "exploration",
        "assumptions": [
            "verdicts come from a worker subprocess with a 6 GiB address-space limit: process death, a 20 s watchdog (>= 10^4 x the normal cost of these <= 64 KiB inputs), recovered panics and MemStats.HeapSys growth",
            "memory bound = growth of the heap footprint <= 32 MiB + 4096 x len(input); cumulative allocation is reported, not bounded (multi-block arrays are re-allocated per block)",
            "excluded by construction: arrays whose items can encode to zero bytes, zero-width top-level records (legal unbounded amplification)",
            "single-token mutations, truncations, bit flips and random bytes; multi-token malformations only via the native fuzz targets of the thorough tier",
        ],
        "units": [
            regress("C06"),
            {"run": "^TestC06$", "quick": 15000, "thorough": 150000, "timeout_quick": 900},
            {"run": "^TestC06Big$", "quick": 1, "thorough": 1, "rapid": False, "single": True},
            {"run": "^TestC06Counts$", "quick": 1, "thorough": 1, "rapid": False, "single": True},
            {"fuzz": "FuzzFile", "fuzztime": "90s", "thorough_only": True, "run": "FuzzFile"},
            {"fuzz": "FuzzBody", "fuzztime": "90s", "thorough_only": True, "run": "FuzzBody"},
            {"fuzz": "FuzzSchema", "fuzztime": "60s", "thorough_only": True, "run": "FuzzSchema"},
        ],
    },
    "C07": {
        "level": "fault_enumeration",
        "assumptions": [
            "which damaged payloads are invalid is computed with compress/flate and golang/snappy + CRC-32 (the reference decompressor), never assumed",
            "sites per file: all bits of magic, sync markers, snappy CRCs; compressed payload bits capped at 4096 per file (strided beyond); every record index for callback failure",
            "exhaustive per file over the listed site kinds, sampled over files",
        ],
        "units": [
            regress("C07"),
            {"run": "^TestRefSelf$", "quick": 300, "thorough": 3000, "single": True},
            {"run": "^TestC07$", "quick": 300, "thorough": 2000},
            {"run": "^TestC07Repetitive$", "quick": 25, "thorough": 60},
            {"run": "^TestC07Large$", "quick": 1, "thorough": 1, "single": True, "rapid": False},
        ],
    },
    "C08": {
        "level": "fault_enumeration",
        "assumptions": [
            "files <= 4 KiB so that every cut position is evaluated; exhaustive per file (all cuts 0..len), sampled over files",
            "expected records come from the reference block table and the decode of the intact file",
        ],
        "units": [
            regress("C08"),
            {"run": "^TestRefSelf$", "quick": 300, "thorough": 3000, "single": True},
            {"run": "^TestC08$", "quick": 600, "thorough": 5000},
            {"run": "^TestC08Large$", "quick": 1, "thorough": 1, "rapid": False},
        ],
    },
    "C09": {
        "level": "exploration",
        "assumptions": [
            "histories run over the real generic Encoder[T] with the catalogue's compile-time types",
            "record sizes are taken from the reference decoder's positions in each emitted block's payload",
        ],
        "units": [
            regress("C09"),
            {"run": "^TestC09$", "quick": 6000, "thorough": 60000},
        ],
    },
    "C16": {
        "level": "fault_enumeration",
        "assumptions": [
            "map-free record types, so that the fault-free run and the faulty run produce identical payload bytes",
            "every write index of each generated history is a fault point (exhaustive per history); histories are sampled",
            "the random sync marker is read from the faulty run's own header, never predicted",
        ],
        "units": [
            regress("C16"),
            {"run": "^TestC16$", "quick": 2000, "thorough": 20000},
            {"run": "^TestC16Rows$", "quick": 1, "thorough": 1, "single": True, "rapid": False},
        ],
    },
    "C18": {
        "level": "exploration",
        "exhaustive_thorough": False,
        "assumptions": [
            "time.Parse(time.RFC3339, s) defines the accepted domain and the expected instant/offset; on strings it rejects only 'no panic' is required",
            "all calendar dates 0000-01-01..9999-12-31 are enumerated in the thorough tier (strided in quick); everything else is sampled",
        ],
        "units": [
            regress("C18"),
            {"run": "^TestC18Dates$", "quick": 1, "thorough": 1, "rapid": False},
            {"run": "^TestC18$", "quick": 150000, "thorough": 1000000},
            {"run": "^TestC18Fresh$", "quick": 60, "thorough": 600},
            {"fuzz": "FuzzTime", "fuzztime": "90s", "thorough_only": True, "run": "FuzzTime"},
        ],
    },
    "C19": {
        "level": "exploration",
        "exhaustive_thorough": False,
        "assumptions": [
            "expected instants are computed with time.Unix arithmetic from the specification's definitions",
            "write direction: the stored integer must be the time truncated to the unit (rounded down, also before 1970: the unique integer of the property text); times within one millisecond of the int64-nanosecond limits are left out",
            "the date type's 2^32 day counts are enumerated completely only in the thorough tier",
        ],
        "units": [
            regress("C19"),
            {"run": "^TestC19Dates$", "quick": 1, "thorough": 1, "rapid": False},
            {"run": "^TestC19$", "quick": 100000, "thorough": 1000000},
            {"run": "^TestC19Multi$", "quick": 20000, "thorough": 200000},
            {"run": "^TestC19Seq$", "quick": 20000, "thorough": 200000},
            {"run": "^TestC19Registered$", "quick": 1, "thorough": 1, "single": True, "rapid": False},
        ],
    },
    "C10": {
        "level": "exploration",
        "assumptions": [
            "(A) 'intact' = the record denotes (spec.Abs) what it denoted when delivered; banks are closed only by the harness, once each",
            "(B) the oracle never depends on which bank the sync.Pool hands back; double Close is a caller error and is not generated",
            "(C) a bank whose handle the application dropped without closing it has not been closed; finalizers are given 200 microseconds after each forced collection",
        ],
        "units": [
            regress("C10"),
            {"run": "^TestC10A$", "quick": 3000, "thorough": 8000},
            {"run": "^TestC10B$", "quick": 3000, "thorough": 8000},
            {"run": "^TestC10C$", "quick": 500, "thorough": 1500},
            {"run": "^TestC10Window$", "quick": 60, "thorough": 150},
            {"run": "^TestC10Many$", "quick": 1, "thorough": 1, "single": True, "rapid": False},
        ],
    },
    "C11": {
        "level": "exploration",
        "assumptions": [
            "runs in a worker with GODEBUG=clobberfree=1 and GC percent 1: an object the collector cannot see at the moment of a collection is overwritten immediately, so one collection after decode suffices for anything unreachable at that moment",
            "collection points are sampled (GCPoint fields, callback, after the read, background collector during encode), not enumerated: a window inside a single codec call is only hit by the background collector",
        ],
        "units": [
            regress("C11"),
            {"run": "^TestC11$", "quick": 1800, "thorough": 3000},
        ],
    },
    "C20": {
        "level": "exploration",
        "assumptions": [
            "registrations are process-global and cannot be undone: every run re-registers a baseline first, so a case is a pure function of its history",
            "custom codecs frame their payload with a per-builder marker byte; 'which codec ran' is read from the bytes by the reference decoder and from per-builder call counters",
        ],
        "units": [
            regress("C20"),
            {"run": "^TestC20$", "quick": 8000, "thorough": 60000},
            {"run": "^TestC20Late$", "quick": 1, "thorough": 1, "single": True, "rapid": False},
            {"run": "^TestC20Root$", "quick": 1, "thorough": 1, "single": True, "rapid": False},
        ],
    },
    "C12": {
        "level": "exploration",
        "assumptions": [
            "built with -race: a data race is reported when the two accesses occur unordered in some observed run (happens-before detection), not only when they collide",
            "interleavings are sampled by the Go scheduler; the harness does not own the schedule, so a race that needs an interleaving never produced within the budget is missed; failures do not shrink",
            "sequential oracle: every op's expected result is computed before the goroutines start",
        ],
        "units": [
            regress("C12"),
            {"run": "^TestC12$", "quick": 400, "thorough": 5000, "race": True},
            {"run": "^TestC12Fresh$", "quick": 1, "thorough": 1, "race": True, "rapid": False},
        ],
    },
    "C13": {
        "level": "exploration",
        "assumptions": [
            "domain: unions of null with one other type (the general multi-branch union codec has no writer by design), targets whose nullability is aligned with the schema (pointers only under unions or to slices/maps), every schema field covered",
            "timestamps must be stored rounded down to the unit (time.Time.Truncate); the zero time.Time may be written as null",
        ],
        "units": [
            regress("C13"),
            {"run": "^TestC13$", "quick": 20000, "thorough": 200000},
            {"fuzz": "FuzzC13", "fuzztime": "60s", "thorough_only": True, "run": "FuzzC13"},
        ],
    },
    "C14": {
        "level": "exploration",
        "assumptions": [
            "ref.Render / ref.ParseSchema (encoding/json based) define what the document means; each case first checks that they agree with each other",
            "left out: the empty union [], non-integer size literals, an object whose \"type\" is itself an object, duplicate object keys",
        ],
        "units": [
            regress("C14"),
            {"run": "^TestC14$", "quick": 50000, "thorough": 500000},
            {"fuzz": "FuzzSchema", "fuzztime": "90s", "thorough_only": True, "run": "FuzzSchema"},
        ],
    },
    "C17": {
        "level": "exploration",
        "exhaustive_quick": False,
        "exhaustive_thorough": True,
        "assumptions": [
            "ref.AppendLong/ReadLong and widen32 (written from the specification text) are correct; they are cross-checked against encoding/binary in the harness self-test",
            "quick tier: int32/float32 are sampled (boundaries + stride ~2^20 values each); only the thorough tier enumerates all 2^32",
        ],
        "units": [
            {"run": "^TestC17Int16All$", "quick": 1, "thorough": 1, "single": True, "rapid": False},
            {"run": "^TestC17Int32$", "quick": 1, "thorough": 1, "rapid": False},
            {"run": "^TestC17Float32$", "quick": 1, "thorough": 1, "rapid": False},
            {"run": "^TestC17Int64Float64$", "quick": 20000, "thorough": 200000},
            {"run": "^TestC17Varints$", "quick": 20000, "thorough": 200000},
            {"run": "^TestC17Slices$", "quick": 20000, "thorough": 200000},
            {"run": "^TestC17IntCols$", "quick": 1, "thorough": 1, "single": True, "rapid": False},
        ],
    },
}
