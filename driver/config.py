# Per-property run configuration for driver/verif.py.
# units: test processes to run; 'quick'/'thorough' = -rapid.checks per process
# (thorough runs one process per shard unless 'single').

PROPS = {
    "C17": {
        "level": "exploration",
        "exhaustive_quick": False,
        "exhaustive_thorough": True,
        "assumptions": [
            "ref.AppendLong/ReadLong and widen32 (written from the specification text) are correct; they are cross-checked against encoding/binary in the harness self-test",
            "quick tier: int32/float32 are sampled (boundaries + stride ~2^20 values each); only the thorough tier enumerates all 2^32",
        ],
        "units": [
            {"run": "^TestC17Int16All$", "quick": 1, "thorough": 1, "single": True, "rapid": False},
            {"run": "^TestC17Int32$", "quick": 1, "thorough": 1, "rapid": False},
            {"run": "^TestC17Float32$", "quick": 1, "thorough": 1, "rapid": False},
            {"run": "^TestC17Int64Float64$", "quick": 20000, "thorough": 200000},
            {"run": "^TestC17Varints$", "quick": 20000, "thorough": 200000},
        ],
    },
}
